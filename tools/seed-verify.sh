#!/bin/bash
# Verify a seeded change and run the checks against it.
#   tools/seed-verify.sh <mutant-dir> <ID> [tier]
# <mutant-dir> holds patch.diff and demo/run.sh (produced by an independent sub-agent).
# Uses the scratch worktree /tmp/wt-main (created on demand, left clean afterwards).
# Prints a summary and writes <mutant-dir>/verify.json.
set -u
mdir="$(realpath "$1")"; id="$2"; tier="${3:-quick}"
wt=${SEED_WT:-/tmp/wt-seed}
[ -d "$wt" ] || git -C /repo worktree add --detach "$wt" HEAD >/dev/null 2>&1
git -C "$wt" reset -q --hard HEAD; git -C "$wt" clean -qfd -e .vh -e target >/dev/null; rm -rf "$wt/MUTANT"
# the scratch worktree follows /repo's HEAD (patches are made against an earlier HEAD of the same tree)
head="$(git -C /repo rev-parse HEAD)"
if [ "$(git -C "$wt" rev-parse HEAD)" != "$head" ]; then git -C "$wt" checkout -q --detach "$head"; rm -f /tmp/baseline-fails.txt; fi
export CARGO_NET_OFFLINE=true RUST_BACKTRACE=0
fails() { (cd "$wt" && cargo test --workspace --no-fail-fast --offline 2>&1 | grep -E '^test .* \.\.\. FAILED' | grep -v '^test result' | sed 's/ \.\.\. FAILED.*//' | sort -u); }
if [ ! -f /tmp/baseline-fails.txt ]; then fails > /tmp/baseline-fails.txt; fi
# 1. apply
if ! git -C "$wt" apply "$mdir/patch.diff" 2>/tmp/apply.err; then echo "PATCH DOES NOT APPLY"; cat /tmp/apply.err; exit 3; fi
# 2. compiles + existing tests
if ! (cd "$wt" && cargo build --workspace --offline >/tmp/seed-build.log 2>&1); then echo "DOES NOT COMPILE"; tail -20 /tmp/seed-build.log; git -C "$wt" reset -q --hard HEAD; exit 3; fi
fails > /tmp/mutant-fails.txt
tests_ok=true; diff /tmp/baseline-fails.txt /tmp/mutant-fails.txt >/tmp/fails.diff || tests_ok=false
# 3. demo with the patch (must fail)
x="$(basename "$mdir")"
rm -rf "$wt/MUTANT"; mkdir -p "$wt/MUTANT"; cp -r "$mdir" "$wt/MUTANT/$x"
demo_with=skipped; demo_without=skipped
if [ -f "$mdir/demo/run.sh" ]; then
	(cd "$wt" && sh "$wt/MUTANT/$x/demo/run.sh" >/tmp/demo-with.log 2>&1); demo_with=$?
fi
# 4. the check against the mutant
: > /tmp/check-mutant.log; check_rc=0
for one in $(echo "$id" | tr ',' ' '); do
	echo "== check $one" >> /tmp/check-mutant.log
	"$(dirname "$0")/mutant-run.sh" "$wt" "$one" "$tier" >>/tmp/check-mutant.log 2>&1; rc=$?
	[ $rc -gt $check_rc ] && check_rc=$rc
	[ $rc -eq 1 ] && break
done
viol="$(grep -E '^VIOLATION|violation in phase|signature:' /tmp/check-mutant.log | head -5)"
# 5. demo without the patch (must pass)
git -C "$wt" apply -R "$mdir/patch.diff"
if [ -f "$mdir/demo/run.sh" ]; then
	(cd "$wt" && sh "$wt/MUTANT/$x/demo/run.sh" >/tmp/demo-without.log 2>&1); demo_without=$?
fi
rm -rf "$wt/MUTANT"; git -C "$wt" reset -q --hard HEAD; git -C "$wt" clean -qfd -e .vh -e target >/dev/null
python3 - "$mdir" "$id" "$tier" "$tests_ok" "$demo_with" "$demo_without" "$check_rc" <<'PY'
import json,sys
mdir,id,tier,tests_ok,dw,dwo,rc=sys.argv[1:]
viol=[l.strip() for l in open('/tmp/check-mutant.log') if 'violation in phase' in l or l.startswith('VIOLATION') or 'signature:' in l][:4]
out={"property":id,"tier":tier,"existing_tests_unchanged":tests_ok=="true","demo_exit_with_patch":dw,"demo_exit_without_patch":dwo,"check_exit":int(rc),"check_output":viol,"extra_test_failures":open('/tmp/fails.diff').read()[:600]}
json.dump(out,open(mdir+'/verify.json','w'),indent=1)
print(json.dumps(out,indent=1))
PY

#!/usr/bin/env python3
"""Regenerates /verif/MANIFEST.json from the table below (keeps it valid at all times)."""
import json, os
ids=[f"C{i:02d}" for i in range(1,21)]
T="property-based testing (proptest)"
checks={
 "C01":("exploration","generated tile sets written by the repository's writers to all five formats; read back through the repository's reader and through an independent decoder written from the format specifications; shrunk failures are replay files","independent decoders implement DESIGN.md Appendix A; flate2/brotli/rusqlite trusted; empty tile sets and empty payloads outside the domain",T+": round trip + independent decoder as oracle"),
 "C02":("exploration","generated sources (five container readers over repository-written and independently encoded fixtures, converting reader, VPL pipelines) x generated boxes relative to the coverage plus all boxes at zoom <= 2; stream compared with lookups in both directions","multi-thread tokio runtime (3 workers); empty payloads are not distinguished from absent tiles",T+": differential oracle stream vs lookups"),
 "C03":("exploration","generated tile sets steered to the named shapes, as containers of all formats and as pipelines; every readable tile must lie in the advertised pyramid, derived formats must advertise the exact bounding boxes","empty payloads are not generated",T+": invariant over lookups + reference bounding boxes"),
 "C04":("exploration","raw payload classes stored with flate2/brotli directly, converted with every source/target compression, force flag and target format; independent decoder + independent decompressor as oracle","flate2/brotli as reference implementations",T+": round trip through independent decompressors"),
 "C12":("fault_enumeration","the writers run against a recording DataWriterTrait; every prefix of the recorded write sequence and byte cuts of writes (all cuts of small writes and of the final header; all cuts of all writes for small sets) become crash images handed to the reader","writes reach the medium in program order; torn writes are prefixes; unwritten regions read as zeros",T+" generating tile sets + exhaustive crash-point enumeration per case"),
 "C13":("exploration","stress exploration: 2..16 callers behind a barrier (OS threads or tasks on a multi-thread runtime) issue generated call lists against one reader; every result compared with the sequential result from the in-memory copy","kernel schedule not controlled (no schedule enumeration); decisive for wide races such as the repaired seek+read race",T+" generating workloads; concurrent stress with sequential reference"),
 "C14":("exploration","the harness owns the completion order of the per-tile tasks (gated callbacks released by generated priority); all n! orders for n <= 5 (6 thorough), chains of two operators, random priorities up to 10^4 items, buffered consumers","tokio task accounting is trusted for the schedule control, not for the oracle",T+": exhaustive completion orders for small streams + generated adversarial orders"),
 "C15":("exploration","exhaustive over all boxes and all pairs at zoom <= 3 against explicit coordinate sets; sampled boxes/pyramids to zoom 31 against an interval model; geographic boxes against an independent Mercator reference with tolerance band","tiles on the 1e-6 guard band are don't-care; known finding: geo round trip at zoom >= 30 near the Mercator limit",T+" + exhaustive enumeration at small zoom against a set model"),
 "C16":("exploration","independent encoders with generated layout freedom (sparse/partial versatiles blocks, PMTiles runs/leaves/internal compressions, MBTiles views/gaps, tar/directory variants), self-checked by the harness decoder, then read by the repository readers","at most two PMTiles leaf levels; tile ids < 2^62",T+": independent encoder as generator, model as oracle"),
 "C17":("exploration","generated JSON values and TileJSON documents: stringify/parse round trip, serde_json as the standard parser, container metadata round trips with narrowing rule (library part; served tiles.json is checked by C05's server fixture when built)","serde_json (float_roundtrip) as the standard JSON parser",T+": round trip + differential against serde_json"),
 "C18":("exploration","generated VPL syntax trees rendered with generated quoting/whitespace and parsed back; unambiguous breakages must be rejected; factory-level faults must be errors","grammar positions for whitespace taken from help.md and the parser grammar; empty quoted strings not generated",T+": tree -> text -> tree round trip, mutation-based negatives"),
 "C20":("exploration","generated add/get/get_or_set histories against an observational map model with a recency probe","u32 keys / u64 values representative for the generic cache",T+": stateful model-based histories"),
}
built=sorted(checks)
m={
 "version":1,
 "setup_cmd":"cd /verif/harness && CARGO_NET_OFFLINE=true cargo build --offline --bins",
 "hooks":{"guard":"cargo feature versatiles_pipeline/verif","enable":"the harness crate depends on versatiles_pipeline with features=[\"verif\"] (path dependency on /repo)","baseline_off_cmd":"cd /repo && cargo nextest run --workspace --no-fail-fast --tool-config-file pb:/w/lib/nextest.toml --profile pb --test-threads 8 --offline","source_commits":["666daee5"],"add_only":True},
 "engines":[{"name":"vt harness","path":"/verif/harness","serves_properties":built,"kind_free_text":"Rust crate: proptest TestRunner with fixed seed (VERIF_SEED) on parallel runner threads, explicit oracles (reference models, independent codecs), shrinking to JSON replay files, known-findings file"}],
 "checks":[],
 "not_applicable":[{"property_id":i,"reason":"check not built yet (work in progress, see DESIGN.md section 6)"} for i in ids if i not in checks],
 "notes":"see DESIGN.md; ./check <ID> quick|thorough|--replay <file>; exit 0 held / 1 VIOLATION / 2 machinery problem"
}
for i in built:
    cat,text,note,tech=checks[i]
    m["checks"].append({"property_id":i,"quick_cmd":f"./check {i} quick","thorough_cmd":f"./check {i} thorough","evidence_file":f"/verif/evidence/{i}.json","replay_cmd_template":f"./check {i} --replay {{path}}","engine":"vt harness","level_claimed":{"category":cat,"text":text,"design_ref":f"DESIGN.md §3 {i}"},"level_note":note,"technique":tech})
json.dump(m,open("/verif/MANIFEST.json","w"),indent=1)
print("checks:",built)

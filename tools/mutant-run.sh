#!/bin/bash
# Run a check against a scratch worktree of /repo instead of /repo itself.
#   tools/mutant-run.sh <worktree-dir> <ID> [quick|thorough|--replay f]
# Copies the harness to <worktree-dir>/.vh with its path dependencies pointing at the worktree,
# builds there (own target dir, removed together with the worktree) and writes evidence/replays
# to <worktree-dir>/.vh/out instead of /verif.
set -u
wt="$(realpath "$1")"; id="$2"; shift 2
[ -d "$wt/versatiles_core" ] || { echo "not a worktree of the repository: $wt" >&2; exit 2; }
vh="$wt/.vh"
mkdir -p "$vh/out"
rsync -a --delete --exclude target --exclude fuzz/target "${HARNESS_SRC:-/verif/harness}/" "$vh/harness/"
sed -i "s|/repo/|$wt/|g" "$vh/harness/Cargo.toml" "$vh/harness/fuzz/Cargo.toml"
cat > "$vh/harness/.cargo/config.toml" <<EOC
[net]
offline = true
[build]
target-dir = "$vh/target"
EOC
bin="$(echo "$id" | tr 'A-Z' 'a-z')"
cd "$vh/harness" || exit 2
if ! CARGO_NET_OFFLINE=true cargo build --offline --bin "$bin" >"$vh/build.log" 2>&1; then
	echo "MACHINERY-ERROR build failed (see $vh/build.log)" >&2; tail -30 "$vh/build.log" >&2; exit 2
fi
export VERIF_HARNESS_DIR="$vh/harness" VERIF_OUT="$vh/out" VERIF_REPO="$wt" VERIF_BIN_TARGET="$vh/target-bin" RUST_BACKTRACE=0 RUST_LIB_BACKTRACE=0
case "$id" in C15|C20)
	if ! CARGO_NET_OFFLINE=true cargo build --offline --profile relcheck --bin "$bin" >"$vh/build-rel.log" 2>&1; then
		echo "MACHINERY-ERROR relcheck build failed (see $vh/build-rel.log)" >&2; tail -30 "$vh/build-rel.log" >&2; exit 2
	fi
	VERIF_OUT="$vh/out/relcheck" VERIF_PROFILE=release-like "$vh/target/relcheck/$bin" "$@"
	rc=$?
	[ $rc -ge 128 ] && rc=2
	[ $rc -ne 0 ] && exit $rc
	;;
esac
"$vh/target/debug/$bin" "$@"
rc=$?
if [ $rc -ge 128 ]; then
	echo "MACHINERY-NOTE check process ended with status $rc; retrying with 2 runner threads" >&2
	VERIF_WORKERS=2 "$vh/target/debug/$bin" "$@"
	rc=$?
fi
[ $rc -ge 128 ] && rc=2
exit $rc

#!/usr/bin/env python3
"""Keep a verified seeded change under /verif/seeded/<name>/.
usage: seed-keep.py <mutant-dir> <name> <property> <site> <needs> [caught_by_note]"""
import sys, json, shutil, os
mdir, name, prop, site, needs = sys.argv[1:6]
note = sys.argv[6] if len(sys.argv) > 6 else ''
dst = f'/verif/seeded/{name}'
if os.path.exists(dst): shutil.rmtree(dst)
os.makedirs(dst)
shutil.copy(f'{mdir}/patch.diff', f'{dst}/patch.diff')
shutil.copytree(f'{mdir}/demo', f'{dst}/demo')
if os.path.exists(f'{mdir}/README.md'): shutil.copy(f'{mdir}/README.md', f'{dst}/agent-README.md')
v = json.load(open(f'{mdir}/verify.json'))
meta = {
 "property": prop,
 "site": site,
 "needs_to_manifest": needs,
 "origin": "independent sub-agent that saw only the property text and a scratch worktree",
 "verified": {
   "applies_and_compiles": True,
   "existing_tests_unchanged": v["existing_tests_unchanged"],
   "demo_exit_with_patch": v["demo_exit_with_patch"],
   "demo_exit_without_patch": v["demo_exit_without_patch"],
   "how": "tools/seed-verify.sh: git apply in a scratch worktree of /repo HEAD, cargo build --workspace, cargo test --workspace (set of failing tests compared with the unchanged tree), demo/run.sh with and without the patch, then tools/mutant-run.sh <worktree> <check> quick"
 },
 "check": {"ids": v["property"], "tier": v["tier"], "exit": v["check_exit"], "caught": v["check_exit"] == 1, "output": v["check_output"]},
 "note": note,
}
json.dump(meta, open(f'{dst}/meta.json', 'w'), indent=1)
print(dst, 'caught' if meta['check']['caught'] else 'MISSED')

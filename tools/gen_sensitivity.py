#!/usr/bin/env python3
"""Regenerates DESIGN.md section 8 from tools/handmutants/results.json and seeded/*/meta.json."""
import json, glob, os, re
rows=json.load(open('/verif/tools/handmutants/results.json'))
out=[]
out.append('## 8. Sensitivity: which checks catch which broken versions of the code\n')
out.append('''Three kinds of deliberately broken trees were run through the checks (always in scratch
worktrees via `tools/mutant-run.sh`, never in /repo):

**(a) Reverting the repairs.** Each `fix:` commit of section 4 reverted alone makes the check of
its property fail in the quick tier (C13 ← 2e40124d, C02 ← 868e3a53 and 503ce6a1 and 0b76efca,
C16/C03 ← 2e89b20e, C01 ← 2040138c and b856d113, C15 ← 21e693a7 and 857ee515, C07 ← 3b5762fe,
C05 ← 3f13ec84, C11/C10 ← fb034fc7 and 6381d12e, C20 ← 34411e93, C19 ← each family commit).

**(b) Hand-made mutants** (`tools/handmutants/run.py`, results in `tools/handmutants/results.json`;
quick tier):

| mutant | check | result | first report |
|---|---|---|---|''')
for r in sorted(rows,key=lambda r:(r['mutant'],r['check'])):
    fr=r['first_report'].replace('|','\\|')[:110]
    out.append(f"| {r['mutant']} | {r['check']} | {r['result'].lower()} | {fr} |")
out.append('''
`C09-guard-sign` (the +1e-6/−1e-6 rounding guard applied with the wrong sign on the maximum
corner) is missed by C09 and C06 **by design**: it only changes which tile is chosen when a box
edge lies within 1e-6 of a tile edge, and tiles on that guard band are "don't care" in both
oracles; C15 catches it through the exact `from_geo(as_geo_bbox(b)) = b` law.

**(c) Independently seeded changes** (`/verif/seeded/<id>/`): for every property a fresh
sub-agent that saw only the property text and its own scratch worktree produced two changes that
compile, pass the existing suite (same 16 unit + 12 doc test failures as the unchanged tree) and
come with a demonstration that fails with the change and passes without it. Each was re-verified
with `tools/seed-verify.sh` (apply, build, full test suite, demonstration both ways) and then run
against the check(s):

| seeded change | site | what it needs to manifest | check result |
|---|---|---|---|''')
for d in sorted(glob.glob('/verif/seeded/*/meta.json')):
    m=json.load(open(d)); name=os.path.basename(os.path.dirname(d))
    res=('caught by '+m['check']['ids']+' ('+m['check']['tier']+')') if m['check']['caught'] else ('MISSED by '+m['check']['ids'])
    if m.get('note'): res+=' – '+m['note']
    site=m['site'].replace('|','\\|'); needs=m['needs_to_manifest'].replace('|','\\|')
    out.append(f"| {name} | {site} | {needs} | {res} |")
out.append('')
text='\n'.join(out)
p='/verif/DESIGN.md'
s=open(p).read()
B='<!-- SENSITIVITY:BEGIN -->'; E='<!-- SENSITIVITY:END -->'
if B in s:
    s=s[:s.index(B)+len(B)]+'\n'+text+'\n'+s[s.index(E):]
else:
    i=s.index('## Appendix A. Layouts the independent codecs implement')
    s=s[:i]+B+'\n'+text+'\n'+E+'\n\n---------------------------------------------------------------------------------------\n\n'+s[i:]
open(p,'w').write(s)
print('ok')

//! Independent Mapbox-vector-tile model, encoder, decoder and generators, written from
//! DESIGN.md Appendix A ("Mapbox vector tile 2.1") and the public MVT 2.1 / protobuf encoding
//! specifications. Nothing here calls versatiles code.
//!
//! * `Tile`/`Layer`/`Feature`/`Value` – the tile *as written*: key/value tables in file order
//!   (duplicates and unused entries included), tag indices into those tables, geometry as
//!   opaque command words, optional fields as `Option`.
//! * `encode(tile, layout)` – protobuf bytes; `layout` selects among encodings the
//!   specification allows (field order inside layer and feature, defaults written or omitted).
//! * `decode(bytes)` – strict reader of exactly these messages (any unknown field, wrong wire
//!   type, overlong varint, truncated field is an error).
//! * `resolve(tile)` – the semantic view used for comparisons: per layer the features in
//!   order, each with id, type, geometry words and a property map key -> canonical value
//!   (int and sint -> I64, uint -> U64, float/double -> bit pattern, string, bool).

use crate::engine::Fail;
use crate::model::Mix;
use crate::util::pick;
use proptest::prelude::*;
use serde::{Deserialize, Serialize};
use std::collections::{BTreeMap, BTreeSet};

// ---------------------------------------------------------------------------------------
// model
// ---------------------------------------------------------------------------------------

#[derive(Clone, Debug, PartialEq, Eq, PartialOrd, Ord, Serialize, Deserialize)]
pub enum Value {
	Str(String),
	/// bit pattern of the f32
	Float(u32),
	/// bit pattern of the f64
	Double(u64),
	/// field 4: varint, two's complement
	Int(i64),
	/// field 5
	Uint(u64),
	/// field 6: zigzag
	Sint(i64),
	Bool(bool),
}

#[derive(Clone, Debug, PartialEq, Eq, Serialize, Deserialize)]
pub struct Feature {
	pub id: Option<u64>,
	/// alternating key / value indices into the layer's tables as written
	pub tags: Vec<u32>,
	pub geom_type: u32,
	/// geometry command words, opaque
	pub geometry: Vec<u32>,
}

#[derive(Clone, Debug, PartialEq, Eq, Serialize, Deserialize)]
pub struct Layer {
	pub name: String,
	/// `None` = field absent (default 4096)
	pub extent: Option<u32>,
	/// `None` = field absent (default 1)
	pub version: Option<u32>,
	pub keys: Vec<String>,
	pub values: Vec<Value>,
	pub features: Vec<Feature>,
}

#[derive(Clone, Debug, PartialEq, Eq, Serialize, Deserialize, Default)]
pub struct Tile {
	pub layers: Vec<Layer>,
}

impl Layer {
	pub fn extent_eff(&self) -> u32 {
		self.extent.unwrap_or(4096)
	}
	pub fn version_eff(&self) -> u32 {
		self.version.unwrap_or(1)
	}
	pub fn has_duplicate_entries(&self) -> bool {
		let k: BTreeSet<&String> = self.keys.iter().collect();
		let v: BTreeSet<&Value> = self.values.iter().collect();
		k.len() < self.keys.len() || v.len() < self.values.len()
	}
	pub fn has_unused_entries(&self) -> bool {
		let mut ku = vec![false; self.keys.len()];
		let mut vu = vec![false; self.values.len()];
		for f in &self.features {
			for p in f.tags.chunks(2) {
				if p.len() == 2 {
					if let Some(x) = ku.get_mut(p[0] as usize) {
						*x = true;
					}
					if let Some(x) = vu.get_mut(p[1] as usize) {
						*x = true;
					}
				}
			}
		}
		ku.iter().chain(vu.iter()).any(|u| !u)
	}
}

// ---------------------------------------------------------------------------------------
// canonical (semantic) view
// ---------------------------------------------------------------------------------------

#[derive(Clone, Debug, PartialEq, Eq, PartialOrd, Ord, Serialize, Deserialize)]
pub enum CanonValue {
	Str(String),
	F32(u32),
	F64(u64),
	I64(i64),
	U64(u64),
	Bool(bool),
}

impl Value {
	pub fn canon(&self) -> CanonValue {
		match self {
			Value::Str(s) => CanonValue::Str(s.clone()),
			Value::Float(b) => CanonValue::F32(*b),
			Value::Double(b) => CanonValue::F64(*b),
			Value::Int(i) | Value::Sint(i) => CanonValue::I64(*i),
			Value::Uint(u) => CanonValue::U64(*u),
			Value::Bool(b) => CanonValue::Bool(*b),
		}
	}
	pub fn kind(&self) -> &'static str {
		match self {
			Value::Str(_) => "string",
			Value::Float(_) => "float",
			Value::Double(_) => "double",
			Value::Int(_) => "int",
			Value::Uint(_) => "uint",
			Value::Sint(_) => "sint",
			Value::Bool(_) => "bool",
		}
	}
	pub fn is_nan(&self) -> bool {
		match self {
			Value::Float(b) => f32::from_bits(*b).is_nan(),
			Value::Double(b) => f64::from_bits(*b).is_nan(),
			_ => false,
		}
	}
}

impl CanonValue {
	/// the canonical text of the value (decimal integers, Rust's shortest round-trip float
	/// text, the string itself, true/false)
	pub fn text(&self) -> String {
		match self {
			CanonValue::Str(s) => s.clone(),
			CanonValue::F32(b) => f32::from_bits(*b).to_string(),
			CanonValue::F64(b) => f64::from_bits(*b).to_string(),
			CanonValue::I64(i) => i.to_string(),
			CanonValue::U64(u) => u.to_string(),
			CanonValue::Bool(b) => b.to_string(),
		}
	}
}

impl std::fmt::Display for CanonValue {
	fn fmt(&self, f: &mut std::fmt::Formatter<'_>) -> std::fmt::Result {
		match self {
			CanonValue::Str(s) => write!(f, "string {s:?}"),
			CanonValue::F32(b) => write!(f, "f32 {:?} (0x{b:08x})", f32::from_bits(*b)),
			CanonValue::F64(b) => write!(f, "f64 {:?} (0x{b:016x})", f64::from_bits(*b)),
			CanonValue::I64(i) => write!(f, "i64 {i}"),
			CanonValue::U64(u) => write!(f, "u64 {u}"),
			CanonValue::Bool(b) => write!(f, "bool {b}"),
		}
	}
}

pub type Props = BTreeMap<String, CanonValue>;

#[derive(Clone, Debug, PartialEq, Eq)]
pub struct SemFeature {
	pub id: Option<u64>,
	pub geom_type: u32,
	pub geometry: Vec<u32>,
	pub props: Props,
}

#[derive(Clone, Debug, PartialEq, Eq)]
pub struct SemLayer {
	pub name: String,
	pub extent: u32,
	pub version: u32,
	pub features: Vec<SemFeature>,
}

pub fn fmt_props(p: &Props) -> String {
	let v: Vec<String> = p.iter().map(|(k, v)| format!("{k:?}: {v}")).collect();
	format!("{{{}}}", v.join(", "))
}

impl SemFeature {
	/// identity without the properties
	pub fn shell(&self) -> (Option<u64>, u32, &Vec<u32>) {
		(self.id, self.geom_type, &self.geometry)
	}
	pub fn describe(&self) -> String {
		format!("(id {:?}, type {}, geometry {:?}, properties {})", self.id, self.geom_type, self.geometry, fmt_props(&self.props))
	}
}

/// Resolve the tags of every feature through the tables *as written*.
/// Errors: odd tag count, index outside a table, the same key twice in one feature.
pub fn resolve_layer(l: &Layer) -> Result<SemLayer, String> {
	let mut features = vec![];
	for (i, f) in l.features.iter().enumerate() {
		if f.tags.len() % 2 != 0 {
			return Err(format!("layer {:?} feature {i}: odd number of tags ({})", l.name, f.tags.len()));
		}
		let mut props = Props::new();
		for p in f.tags.chunks(2) {
			let k = l.keys.get(p[0] as usize).ok_or_else(|| format!("layer {:?} feature {i}: key index {} outside the table of {} keys", l.name, p[0], l.keys.len()))?;
			let v = l.values.get(p[1] as usize).ok_or_else(|| format!("layer {:?} feature {i}: value index {} outside the table of {} values", l.name, p[1], l.values.len()))?;
			if props.insert(k.clone(), v.canon()).is_some() {
				return Err(format!("layer {:?} feature {i}: key {k:?} occurs twice", l.name));
			}
		}
		features.push(SemFeature { id: f.id, geom_type: f.geom_type, geometry: f.geometry.clone(), props });
	}
	Ok(SemLayer { name: l.name.clone(), extent: l.extent_eff(), version: l.version_eff(), features })
}

pub fn resolve(t: &Tile) -> Result<Vec<SemLayer>, String> {
	let mut names = BTreeSet::new();
	let mut out = vec![];
	for l in &t.layers {
		if !names.insert(l.name.clone()) {
			return Err(format!("two layers named {:?}", l.name));
		}
		out.push(resolve_layer(l)?);
	}
	Ok(out)
}

/// first difference between two feature lists, as text (None = equal)
pub fn diff_features(want: &[SemFeature], got: &[SemFeature]) -> Option<String> {
	if want.len() != got.len() {
		return Some(format!("{} features expected, {} found; expected shells {:?}, found {:?}", want.len(), got.len(), want.iter().map(|f| f.shell()).collect::<Vec<_>>(), got.iter().map(|f| f.shell()).collect::<Vec<_>>()));
	}
	for (i, (w, g)) in want.iter().zip(got).enumerate() {
		if w != g {
			return Some(format!("feature {i}: expected {}, found {}", w.describe(), g.describe()));
		}
	}
	None
}

/// first difference between two layers (name, extent, version, features)
pub fn diff_layer(want: &SemLayer, got: &SemLayer) -> Option<String> {
	if want.name != got.name {
		return Some(format!("layer name {:?} expected, {:?} found", want.name, got.name));
	}
	if want.extent != got.extent {
		return Some(format!("layer {:?}: extent {} expected, {} found", want.name, want.extent, got.extent));
	}
	if want.version != got.version {
		return Some(format!("layer {:?}: version {} expected, {} found", want.name, want.version, got.version));
	}
	diff_features(&want.features, &got.features).map(|d| format!("layer {:?}: {d}", want.name))
}

// ---------------------------------------------------------------------------------------
// encoder
// ---------------------------------------------------------------------------------------

fn put_varint(out: &mut Vec<u8>, mut x: u64) {
	loop {
		let b = (x & 0x7f) as u8;
		x >>= 7;
		if x == 0 {
			out.push(b);
			return;
		}
		out.push(b | 0x80);
	}
}
fn put_key(out: &mut Vec<u8>, field: u32, wire: u8) {
	put_varint(out, ((field as u64) << 3) | wire as u64);
}
fn put_len(out: &mut Vec<u8>, field: u32, data: &[u8]) {
	put_key(out, field, 2);
	put_varint(out, data.len() as u64);
	out.extend_from_slice(data);
}
fn put_uint(out: &mut Vec<u8>, field: u32, x: u64) {
	put_key(out, field, 0);
	put_varint(out, x);
}
fn packed(words: &[u32]) -> Vec<u8> {
	let mut v = vec![];
	for w in words {
		put_varint(&mut v, *w as u64);
	}
	v
}
pub fn zigzag(x: i64) -> u64 {
	((x as u64) << 1) ^ (if x < 0 { u64::MAX } else { 0 })
}
pub fn unzigzag(u: u64) -> i64 {
	let half = (u >> 1) as i64;
	if u & 1 == 1 {
		!half
	} else {
		half
	}
}

pub fn encode_value(v: &Value) -> Vec<u8> {
	let mut out = vec![];
	match v {
		Value::Str(s) => put_len(&mut out, 1, s.as_bytes()),
		Value::Float(b) => {
			put_key(&mut out, 2, 5);
			out.extend_from_slice(&b.to_le_bytes());
		}
		Value::Double(b) => {
			put_key(&mut out, 3, 1);
			out.extend_from_slice(&b.to_le_bytes());
		}
		Value::Int(i) => put_uint(&mut out, 4, *i as u64),
		Value::Uint(u) => put_uint(&mut out, 5, *u),
		Value::Sint(i) => put_uint(&mut out, 6, zigzag(*i)),
		Value::Bool(b) => put_uint(&mut out, 7, *b as u64),
	}
	out
}

fn encode_feature(f: &Feature, m: &mut Mix) -> Vec<u8> {
	// all layout draws first, so that the sequence does not depend on the content
	let order = m.below(3);
	let write_empty_tags = m.below(3) == 0;
	let write_type_zero = m.below(2) == 0;
	let write_empty_geom = m.below(3) == 0;
	// a packed repeated field may arrive in several chunks, which a reader concatenates
	// (protobuf encoding rules: "packed repeated fields ... more than one key-value pair")
	let split_tags = m.below(8) == 0;
	let split_geom = m.below(8) == 0;
	let mut id = vec![];
	if let Some(i) = f.id {
		put_uint(&mut id, 1, i);
	}
	let mut tags = vec![];
	if split_tags && f.tags.len() >= 2 {
		let cut = 1 + (f.tags.len() - 1) / 2;
		put_len(&mut tags, 2, &packed(&f.tags[..cut]));
		put_len(&mut tags, 2, &packed(&f.tags[cut..]));
	} else if !f.tags.is_empty() || write_empty_tags {
		put_len(&mut tags, 2, &packed(&f.tags));
	}
	let mut typ = vec![];
	if f.geom_type != 0 || write_type_zero {
		put_uint(&mut typ, 3, f.geom_type as u64);
	}
	let mut geom = vec![];
	if split_geom && f.geometry.len() >= 2 {
		let cut = 1 + (f.geometry.len() - 1) / 2;
		put_len(&mut geom, 4, &packed(&f.geometry[..cut]));
		put_len(&mut geom, 4, &packed(&f.geometry[cut..]));
	} else if !f.geometry.is_empty() || write_empty_geom {
		put_len(&mut geom, 4, &packed(&f.geometry));
	}
	let parts: [&Vec<u8>; 4] = match order {
		0 => [&id, &tags, &typ, &geom],
		1 => [&typ, &id, &geom, &tags],
		_ => [&geom, &tags, &typ, &id],
	};
	parts.iter().flat_map(|p| p.iter().copied()).collect()
}

fn encode_layer(l: &Layer, m: &mut Mix) -> Vec<u8> {
	let template = m.below(5);
	let mut name = vec![];
	put_len(&mut name, 1, l.name.as_bytes());
	let mut features = vec![];
	for f in &l.features {
		let fb = encode_feature(f, m);
		put_len(&mut features, 2, &fb);
	}
	let key_chunks: Vec<Vec<u8>> = l
		.keys
		.iter()
		.map(|k| {
			let mut v = vec![];
			put_len(&mut v, 3, k.as_bytes());
			v
		})
		.collect();
	let val_chunks: Vec<Vec<u8>> = l
		.values
		.iter()
		.map(|x| {
			let mut v = vec![];
			put_len(&mut v, 4, &encode_value(x));
			v
		})
		.collect();
	let keys: Vec<u8> = key_chunks.concat();
	let values: Vec<u8> = val_chunks.concat();
	let mut interleaved = vec![];
	for i in 0..key_chunks.len().max(val_chunks.len()) {
		if let Some(k) = key_chunks.get(i) {
			interleaved.extend_from_slice(k);
		}
		if let Some(v) = val_chunks.get(i) {
			interleaved.extend_from_slice(v);
		}
	}
	let mut extent = vec![];
	if let Some(e) = l.extent {
		put_uint(&mut extent, 5, e as u64);
	}
	let mut version = vec![];
	if let Some(v) = l.version {
		put_uint(&mut version, 15, v as u64);
	}
	let parts: Vec<&Vec<u8>> = match template {
		0 => vec![&name, &features, &keys, &values, &extent, &version],
		1 => vec![&version, &name, &extent, &keys, &values, &features],
		2 => vec![&version, &name, &features, &interleaved, &extent],
		3 => vec![&keys, &values, &name, &features, &extent, &version],
		_ => vec![&extent, &features, &values, &keys, &version, &name],
	};
	parts.iter().flat_map(|p| p.iter().copied()).collect()
}

/// Encode a tile; `layout` selects field orders and whether defaults are written.
pub fn encode(t: &Tile, layout: u32) -> Vec<u8> {
	let mut out = vec![];
	for (i, l) in t.layers.iter().enumerate() {
		let mut m = Mix::new(((layout as u64) << 8) ^ i as u64);
		put_len(&mut out, 3, &encode_layer(l, &mut m));
	}
	out
}

// ---------------------------------------------------------------------------------------
// decoder (strict)
// ---------------------------------------------------------------------------------------

struct Rd<'a> {
	b: &'a [u8],
	p: usize,
}

impl<'a> Rd<'a> {
	fn new(b: &'a [u8]) -> Rd<'a> {
		Rd { b, p: 0 }
	}
	fn done(&self) -> bool {
		self.p >= self.b.len()
	}
	fn varint(&mut self) -> Result<u64, String> {
		let mut x = 0u64;
		for i in 0..10 {
			let byte = *self.b.get(self.p).ok_or("truncated varint")?;
			self.p += 1;
			if i == 9 && byte > 1 {
				return Err("varint exceeds 64 bits".into());
			}
			x |= ((byte & 0x7f) as u64) << (7 * i);
			if byte & 0x80 == 0 {
				return Ok(x);
			}
		}
		Err("varint longer than 10 bytes".into())
	}
	fn key(&mut self) -> Result<(u32, u8), String> {
		let k = self.varint()?;
		let field = k >> 3;
		if field == 0 || field > 0x1fff_ffff {
			return Err(format!("invalid field number {field}"));
		}
		Ok((field as u32, (k & 7) as u8))
	}
	fn take(&mut self, n: usize) -> Result<&'a [u8], String> {
		if self.b.len() - self.p < n {
			return Err(format!("field of {n} bytes exceeds the message ({} left)", self.b.len() - self.p));
		}
		let s = &self.b[self.p..self.p + n];
		self.p += n;
		Ok(s)
	}
	fn bytes(&mut self) -> Result<&'a [u8], String> {
		let n = self.varint()?;
		if n > self.b.len() as u64 {
			return Err(format!("length {n} exceeds the message"));
		}
		self.take(n as usize)
	}
}

fn unpack_u32(b: &[u8], what: &str) -> Result<Vec<u32>, String> {
	let mut r = Rd::new(b);
	let mut v = vec![];
	while !r.done() {
		let x = r.varint().map_err(|e| format!("{what}: {e}"))?;
		if x > u32::MAX as u64 {
			return Err(format!("{what}: element {x} exceeds 32 bits"));
		}
		v.push(x as u32);
	}
	Ok(v)
}

fn utf8(b: &[u8], what: &str) -> Result<String, String> {
	String::from_utf8(b.to_vec()).map_err(|_| format!("{what} is not UTF-8"))
}

pub fn decode_value(b: &[u8]) -> Result<Value, String> {
	let mut r = Rd::new(b);
	let mut out = None;
	while !r.done() {
		let v = match r.key()? {
			(1, 2) => Value::Str(utf8(r.bytes()?, "string value")?),
			(2, 5) => Value::Float(u32::from_le_bytes(r.take(4)?.try_into().unwrap())),
			(3, 1) => Value::Double(u64::from_le_bytes(r.take(8)?.try_into().unwrap())),
			(4, 0) => Value::Int(r.varint()? as i64),
			(5, 0) => Value::Uint(r.varint()?),
			(6, 0) => Value::Sint(unzigzag(r.varint()?)),
			(7, 0) => Value::Bool(r.varint()? != 0),
			(f, w) => return Err(format!("value: unexpected field {f} with wire type {w}")),
		};
		if out.is_some() {
			return Err("value message with more than one field".into());
		}
		out = Some(v);
	}
	out.ok_or_else(|| "value message without a field".to_string())
}

fn decode_feature(b: &[u8]) -> Result<Feature, String> {
	let mut r = Rd::new(b);
	let mut f = Feature { id: None, tags: vec![], geom_type: 0, geometry: vec![] };
	let mut seen = [false; 5];
	while !r.done() {
		let (field, wire) = r.key()?;
		// the scalar fields once; the packed ones may come in chunks, which are concatenated
		if field == 1 || field == 3 {
			if seen[field as usize] {
				return Err(format!("feature: field {field} occurs twice"));
			}
			seen[field as usize] = true;
		}
		match (field, wire) {
			(1, 0) => f.id = Some(r.varint()?),
			(2, 2) => f.tags.extend(unpack_u32(r.bytes()?, "tags")?),
			(3, 0) => {
				let t = r.varint()?;
				if t > u32::MAX as u64 {
					return Err(format!("feature: geometry type {t}"));
				}
				f.geom_type = t as u32;
			}
			(4, 2) => f.geometry.extend(unpack_u32(r.bytes()?, "geometry")?),
			(f, w) => return Err(format!("feature: unexpected field {f} with wire type {w}")),
		}
	}
	Ok(f)
}

fn decode_layer(b: &[u8]) -> Result<Layer, String> {
	let mut r = Rd::new(b);
	let mut name = None;
	let mut l = Layer { name: String::new(), extent: None, version: None, keys: vec![], values: vec![], features: vec![] };
	while !r.done() {
		match r.key()? {
			(1, 2) => {
				if name.is_some() {
					return Err("layer: name occurs twice".into());
				}
				name = Some(utf8(r.bytes()?, "layer name")?);
			}
			(2, 2) => l.features.push(decode_feature(r.bytes()?)?),
			(3, 2) => l.keys.push(utf8(r.bytes()?, "key")?),
			(4, 2) => l.values.push(decode_value(r.bytes()?)?),
			(5, 0) => {
				let e = r.varint()?;
				if l.extent.is_some() || e > u32::MAX as u64 {
					return Err(format!("layer: extent {e} (repeated or beyond 32 bits)"));
				}
				l.extent = Some(e as u32);
			}
			(15, 0) => {
				let v = r.varint()?;
				if l.version.is_some() || v > u32::MAX as u64 {
					return Err(format!("layer: version {v} (repeated or beyond 32 bits)"));
				}
				l.version = Some(v as u32);
			}
			(f, w) => return Err(format!("layer: unexpected field {f} with wire type {w}")),
		}
	}
	l.name = name.ok_or("layer without a name")?;
	Ok(l)
}

pub fn decode(b: &[u8]) -> Result<Tile, String> {
	let mut r = Rd::new(b);
	let mut t = Tile::default();
	while !r.done() {
		match r.key()? {
			(3, 2) => t.layers.push(decode_layer(r.bytes()?)?),
			(f, w) => return Err(format!("tile: unexpected field {f} with wire type {w}")),
		}
	}
	Ok(t)
}

/// decode + resolve
pub fn decode_sem(b: &[u8]) -> Result<Vec<SemLayer>, String> {
	resolve(&decode(b)?)
}

/// Encode a generated tile and verify the harness codec on it: `decode(encode(t)) == t` and
/// the tile resolves (valid tags, no key twice in a feature, unique layer names). A failure
/// here is a harness bug, never a finding about the repository.
pub fn checked_encode(t: &Tile, layout: u32) -> Result<(Vec<u8>, Vec<SemLayer>), Fail> {
	let bytes = encode(t, layout);
	match decode(&bytes) {
		Ok(back) if &back == t => {}
		Ok(back) => return Err(Fail::new("harness:mvt-codec-roundtrip", format!("harness codec: decode(encode(t)) differs from t (layout {layout}): {t:?} vs {back:?}"))),
		Err(e) => return Err(Fail::new("harness:mvt-codec-roundtrip", format!("harness codec: decode(encode(t)) fails (layout {layout}): {e}; tile {t:?}"))),
	}
	let sem = resolve(t).map_err(|e| Fail::new("harness:mvt-invalid-generated-tile", format!("generated tile is outside the domain: {e}")))?;
	Ok((bytes, sem))
}

// ---------------------------------------------------------------------------------------
// generators
// ---------------------------------------------------------------------------------------

pub const LAYER_NAMES: [&str; 6] = ["a", "b", "roads", "water body", "straße", "c"];
pub const KEYS: [&str; 8] = ["id", "name", "kind", "k", "x y", "ü", "key", "extra"];

/// texts that are safe as join ids: no surrounding blanks, not numeric-looking
pub const ID_STRINGS: [&str; 5] = ["a", "b", "c", "d", "x y"];

fn short_string() -> impl Strategy<Value = String> {
	proptest::collection::vec(prop_oneof![4 => proptest::char::range('a', 'z'), 1 => Just(' '), 1 => Just('"'), 1 => Just(','), 1 => any::<char>()], 0..6).prop_map(|v| v.into_iter().collect())
}

pub fn value() -> impl Strategy<Value = Value> {
	prop_oneof![
		5 => (0u64..7).prop_map(Value::Uint),
		2 => (-2i64..7).prop_map(Value::Sint),
		2 => (-2i64..7).prop_map(Value::Int),
		4 => (0usize..ID_STRINGS.len()).prop_map(|i| Value::Str(ID_STRINGS[i].to_string())),
		1 => Just(Value::Str(String::new())),
		1 => short_string().prop_map(Value::Str),
		1 => any::<bool>().prop_map(Value::Bool),
		2 => prop_oneof![
			Just(0.0f32), Just(-0.0f32), Just(1.5f32), Just(-2.25f32), Just(0.1f32), Just(f32::MAX), Just(f32::MIN_POSITIVE), Just(f32::INFINITY), Just(f32::NEG_INFINITY), Just(f32::NAN),
			any::<u32>().prop_map(f32::from_bits),
		].prop_map(|f| Value::Float(f.to_bits())),
		2 => prop_oneof![
			Just(0.0f64), Just(-0.0f64), Just(1.5f64), Just(-2.25f64), Just(0.1f64), Just(1e300f64), Just(5e-324f64), Just(f64::INFINITY), Just(f64::NAN),
			any::<u64>().prop_map(f64::from_bits),
		].prop_map(|f| Value::Double(f.to_bits())),
		// the borders of the integer encodings
		2 => prop_oneof![
			Just(Value::Sint(i64::MIN)), Just(Value::Sint(i64::MAX)), Just(Value::Sint(1 << 62)), Just(Value::Sint(-(1 << 62))), Just(Value::Sint(-(1 << 62) - 1)), Just(Value::Sint((1 << 62) - 1)),
			Just(Value::Int(i64::MIN)), Just(Value::Int(i64::MAX)), Just(Value::Int(-1)),
			Just(Value::Uint(u64::MAX)), Just(Value::Uint(1 << 63)), Just(Value::Uint(1 << 62)),
			any::<i64>().prop_map(Value::Sint), any::<i64>().prop_map(Value::Int), any::<u64>().prop_map(Value::Uint),
		],
	]
}

#[derive(Clone, Debug)]
struct FeatureSpec {
	id: Option<u64>,
	/// give the feature the key `id` (if the table has it): selects among the table positions
	/// holding that key and the value
	with_id: Option<(u16, u16)>,
	pairs: Vec<(u16, u16)>,
	geom_type: u32,
	geometry: Vec<u32>,
}

fn feature_id() -> impl Strategy<Value = Option<u64>> {
	prop_oneof![
		3 => Just(None),
		2 => Just(Some(0u64)),
		3 => (1u64..1000).prop_map(Some),
		1 => Just(Some(u64::MAX)),
		1 => Just(Some(1u64 << 63)),
		1 => any::<u64>().prop_map(Some),
	]
}

fn feature_spec() -> impl Strategy<Value = FeatureSpec> {
	(
		feature_id(),
		proptest::option::weighted(0.6, (any::<u16>(), any::<u16>())),
		proptest::collection::vec((any::<u16>(), any::<u16>()), 0..5),
		0u32..=3,
		proptest::collection::vec(prop_oneof![3 => 0u32..64, 1 => any::<u32>(), 1 => Just(u32::MAX)], 0..8),
	)
		.prop_map(|(id, with_id, pairs, geom_type, geometry)| FeatureSpec { id, with_id, pairs, geom_type, geometry })
}

fn key_name() -> impl Strategy<Value = String> {
	prop_oneof![
		4 => Just("id".to_string()),
		8 => (1usize..KEYS.len()).prop_map(|i| KEYS[i].to_string()),
		1 => short_string(),
	]
}

/// A layer with the given name: tables with duplicates and unused entries, 0..=max_features
/// features whose tags never repeat a key *string* within one feature.
pub fn layer(max_features: usize) -> impl Strategy<Value = Layer> {
	(
		(
			prop_oneof![3 => Just(None), 1 => Just(Some(4096u32)), 2 => prop_oneof![Just(256u32), Just(512), Just(8192), Just(1), Just(4095), Just(u32::MAX)].prop_map(Some)],
			prop_oneof![2 => Just(None), 1 => Just(Some(1u32)), 2 => Just(Some(2u32))],
		),
		proptest::collection::vec(key_name(), 0..6),
		proptest::collection::vec(value(), 0..8),
		// duplicates: (which entry, where to insert the copy)
		proptest::collection::vec((any::<u16>(), any::<u16>()), 0..3),
		proptest::collection::vec((any::<u16>(), any::<u16>()), 0..3),
		proptest::collection::vec(feature_spec(), 0..=max_features),
	)
		.prop_map(|((extent, version), mut keys, mut values, dup_k, dup_v, fspecs)| {
			for (which, at) in dup_k {
				if !keys.is_empty() {
					let copy = keys[pick(which as u32, keys.len())].clone();
					keys.insert(pick(at as u32, keys.len() + 1), copy);
				}
			}
			for (which, at) in dup_v {
				if !values.is_empty() {
					let copy = values[pick(which as u32, values.len())].clone();
					values.insert(pick(at as u32, values.len() + 1), copy);
				}
			}
			let id_positions: Vec<usize> = keys.iter().enumerate().filter(|(_, k)| k.as_str() == "id").map(|(i, _)| i).collect();
			let mut features = vec![];
			for fs in fspecs {
				let mut tags = vec![];
				let mut used: BTreeSet<&str> = BTreeSet::new();
				if !keys.is_empty() && !values.is_empty() {
					let mut pairs: Vec<(usize, usize)> = vec![];
					if let (Some((ks, vs)), false) = (fs.with_id, id_positions.is_empty()) {
						pairs.push((id_positions[pick(ks as u32, id_positions.len())], pick(vs as u32, values.len())));
					}
					for (ks, vs) in &fs.pairs {
						pairs.push((pick(*ks as u32, keys.len()), pick(*vs as u32, values.len())));
					}
					for (ki, vi) in pairs {
						if used.insert(keys[ki].as_str()) {
							tags.push(ki as u32);
							tags.push(vi as u32);
						}
					}
				}
				features.push(Feature { id: fs.id, tags, geom_type: fs.geom_type, geometry: fs.geometry });
			}
			Layer { name: String::new(), extent, version, keys, values, features }
		})
}

/// A tile with `min_layers..=max_layers` layers with distinct names from `LAYER_NAMES`
/// (the first names are favoured, so that tiles of different sources share names).
pub fn tile(min_layers: usize, max_layers: usize, max_features: usize) -> impl Strategy<Value = Tile> {
	let name = prop_oneof![3 => 0usize..2, 2 => 0usize..LAYER_NAMES.len()];
	proptest::collection::vec((name, layer(max_features)), min_layers..=max_layers).prop_map(|v| {
		let mut t = Tile::default();
		let mut seen = BTreeSet::new();
		for (n, mut l) in v {
			// a name that is taken moves on to the next free one
			let mut n = n;
			while !seen.insert(n) {
				n = (n + 1) % LAYER_NAMES.len();
			}
			l.name = LAYER_NAMES[n].to_string();
			t.layers.push(l);
		}
		t
	})
}

/// Keep the generated values inside the asserted domain, over all tiles of one case:
/// * NaN property values are reduced to the one quiet NaN of their kind (0x7fc00000 /
///   0x7ff8000000000000): "the value is NaN" is what a property set can say, payload bits of a
///   NaN are not covered by the statements;
/// * +0.0 and -0.0 of the same float kind never occur together in one case (they are equal
///   as numbers but differ in the bit pattern – which one a de-duplicating table keeps is
///   not covered by the statements): if both occur, -0.0 becomes +0.0.
pub fn sanitise(tiles: &mut [&mut Tile]) {
	let mut pos32 = false;
	let mut pos64 = false;
	for t in tiles.iter() {
		for v in t.layers.iter().flat_map(|l| l.values.iter()) {
			match v {
				Value::Float(0) => pos32 = true,
				Value::Double(0) => pos64 = true,
				_ => {}
			}
		}
	}
	for t in tiles.iter_mut() {
		for v in t.layers.iter_mut().flat_map(|l| l.values.iter_mut()) {
			match v {
				Value::Float(b) => {
					if f32::from_bits(*b).is_nan() {
						*b = 0x7fc0_0000;
					} else if *b == 0x8000_0000 && pos32 {
						*b = 0;
					}
				}
				Value::Double(b) => {
					if f64::from_bits(*b).is_nan() {
						*b = 0x7ff8_0000_0000_0000;
					} else if *b == 0x8000_0000_0000_0000 && pos64 {
						*b = 0;
					}
				}
				_ => {}
			}
		}
	}
}

// ---------------------------------------------------------------------------------------
// labels
// ---------------------------------------------------------------------------------------

/// evidence labels describing a generated tile
pub fn labels(t: &Tile, out: &mut BTreeSet<String>) {
	out.insert(format!("layers={}", t.layers.len()));
	for l in &t.layers {
		if l.has_duplicate_entries() {
			out.insert("table-duplicates".into());
		}
		if l.has_unused_entries() {
			out.insert("unused-entries".into());
		}
		if l.features.is_empty() {
			out.insert("empty-layer".into());
		}
		if l.keys.is_empty() && l.values.is_empty() {
			out.insert("empty-tables".into());
		}
		out.insert(match l.extent {
			None => "extent:absent".to_string(),
			Some(4096) => "extent:4096-explicit".to_string(),
			Some(_) => "extent:other".to_string(),
		});
		out.insert(match l.version {
			None => "version:absent".to_string(),
			Some(v) => format!("version:{v}"),
		});
		for f in &l.features {
			out.insert(
				match f.id {
					None => "id:absent",
					Some(0) => "id:0",
					Some(u64::MAX) => "id:2^64-1",
					Some(i) if i >= 1 << 63 => "id:>=2^63",
					Some(_) => "id:other",
				}
				.to_string(),
			);
			out.insert(format!("geomtype:{}", f.geom_type));
			if f.tags.is_empty() {
				out.insert("feature-without-properties".into());
			}
			if f.geometry.is_empty() {
				out.insert("geometry:empty".into());
			}
			for p in f.tags.chunks(2) {
				if let Some(v) = l.values.get(p[1] as usize) {
					out.insert(format!("value:{}", v.kind()));
					match v {
						Value::Sint(i) | Value::Int(i) if i.unsigned_abs() >= 1 << 62 => {
							out.insert(format!("value:{}-magnitude>=2^62", v.kind()));
						}
						Value::Int(i) if *i < 0 => {
							out.insert("value:int-negative".into());
						}
						Value::Uint(u) if *u >= 1 << 63 => {
							out.insert("value:uint>=2^63".into());
						}
						Value::Float(b) if f32::from_bits(*b) == 0.0 && *b != 0 => {
							out.insert("value:negative-zero".into());
						}
						Value::Double(b) if f64::from_bits(*b) == 0.0 && *b != 0 => {
							out.insert("value:negative-zero".into());
						}
						_ => {}
					}
				}
			}
		}
	}
}

#[cfg(test)]
mod tests {
	use super::*;

	#[test]
	fn zigzag_borders() {
		for x in [0i64, -1, 1, i64::MIN, i64::MAX, 1 << 62, -(1 << 62) - 1] {
			assert_eq!(unzigzag(zigzag(x)), x);
		}
		assert_eq!(zigzag(-1), 1);
		assert_eq!(zigzag(1), 2);
		assert_eq!(zigzag(i64::MIN), u64::MAX);
	}

	#[test]
	fn known_bytes() {
		// the example of the MVT specification, reduced: layer "points", one feature id 1,
		// tags [0,0], point at (25,17), key "hello", value "world", extent 4096, version 2
		let t = Tile {
			layers: vec![Layer {
				name: "points".into(),
				extent: Some(4096),
				version: Some(2),
				keys: vec!["hello".into()],
				values: vec![Value::Str("world".into())],
				features: vec![Feature { id: Some(1), tags: vec![0, 0], geom_type: 1, geometry: vec![9, 50, 34] }],
			}],
		};
		for layout in 0..50 {
			let b = encode(&t, layout);
			assert_eq!(decode(&b).unwrap(), t);
		}
	}
}

//! The `versatiles` binary built from the repository's working tree (dev profile), shared by
//! the CLI- and server-based checks.

use std::path::PathBuf;
use std::process::Command;
use std::sync::OnceLock;

static BIN: OnceLock<PathBuf> = OnceLock::new();

pub fn repo_dir() -> String {
	std::env::var("VERIF_REPO").unwrap_or_else(|_| "/repo".to_string())
}

/// Build `versatiles` from $VERIF_REPO (default /repo) into $VERIF_BIN_TARGET (default
/// /verif/target-bin) and return the path of the executable. Runs cargo every time the first
/// caller of a process asks (a no-op when up to date), so edits under /repo are picked up.
pub fn build_binary() -> PathBuf {
	BIN.get_or_init(|| {
		let repo = repo_dir();
		let target = std::env::var("VERIF_BIN_TARGET").unwrap_or_else(|_| "/verif/target-bin".to_string());
		let out = Command::new("cargo")
			.args(["build", "--offline", "--bin", "versatiles", "--manifest-path"])
			.arg(format!("{repo}/Cargo.toml"))
			.arg("--target-dir")
			.arg(&target)
			.env("CARGO_NET_OFFLINE", "true")
			.output();
		match out {
			Ok(o) if o.status.success() => {}
			Ok(o) => {
				let err = String::from_utf8_lossy(&o.stderr);
				let tail: Vec<&str> = err.lines().rev().take(30).collect();
				crate::engine::die(&format!("building the versatiles binary failed:\n{}", tail.into_iter().rev().collect::<Vec<_>>().join("\n")));
			}
			Err(e) => crate::engine::die(&format!("cannot run cargo: {e}")),
		}
		let p = PathBuf::from(format!("{target}/debug/versatiles"));
		if !p.exists() {
			crate::engine::die(&format!("binary {p:?} not found after the build"));
		}
		p
	})
	.clone()
}

pub struct Output {
	pub status: Option<i32>,
	pub stdout: String,
	pub stderr: String,
}

/// Run `versatiles <args…>` and capture its output.
pub fn run(args: &[String]) -> Output {
	let bin = build_binary();
	match Command::new(bin).args(args).env("RUST_BACKTRACE", "0").env("RUST_LIB_BACKTRACE", "0").output() {
		Ok(o) => Output { status: o.status.code(), stdout: String::from_utf8_lossy(&o.stdout).to_string(), stderr: String::from_utf8_lossy(&o.stderr).to_string() },
		Err(e) => crate::engine::die(&format!("cannot run the versatiles binary: {e}")),
	}
}

//! C16 — readers accept every container that is valid by the published layouts, including
//! optional features the repository's own writers never emit.

use proptest::prelude::*;
use serde::{Deserialize, Serialize};
use versatiles_core::types::TileBBox;
use vt::codec;
use vt::containers::*;
use vt::engine::{Check, Fail, Obs};
use vt::gen::{self, GenCfg};
use vt::model::{Advert, Coord, SetSpec};
use vt::sources::Source;
use vt::util::{Comp, TmpGuard};
use vt::{ensure_prop, fail};

#[derive(Clone, Debug, Serialize, Deserialize)]
enum Layout {
	Versatiles(codec::versatiles::Layout),
	Pmtiles(codec::pmtiles::Layout),
	Mbtiles(codec::mbtiles::Layout),
	Tar(codec::tar::Layout),
	Dir(codec::dir::Layout),
}

impl Layout {
	fn target(&self) -> Target {
		match self {
			Layout::Versatiles(_) => Target::Versatiles,
			Layout::Pmtiles(_) => Target::Pmtiles,
			Layout::Mbtiles(_) => Target::Mbtiles,
			Layout::Tar(_) => Target::Tar,
			Layout::Dir(_) => Target::Dir,
		}
	}
}

#[derive(Clone, Debug, Serialize, Deserialize)]
struct Case {
	spec: SetSpec,
	layout: Layout,
}

fn layout(t: Target) -> BoxedStrategy<Layout> {
	match t {
		Target::Versatiles => (any::<bool>(), prop_oneof![Just(0u8), Just(1), Just(3), Just(255)], 0u8..3, 0u8..3, any::<bool>(), any::<bool>(), proptest::bool::weighted(0.8), any::<u32>())
			.prop_map(|(tight_blocks, widen, block_order, tile_order, share_all, gaps, with_meta, seed)| {
				Layout::Versatiles(codec::versatiles::Layout { tight_blocks, widen, block_order, tile_order, share_all, gaps, with_meta, seed })
			})
			.boxed(),
		Target::Pmtiles => (any::<bool>(), any::<bool>(), 0u8..3, prop_oneof![Just(1u16), Just(2), Just(3), Just(7), Just(50), Just(600)], any::<bool>(), any::<bool>(), 0usize..3, any::<bool>(), proptest::bool::weighted(0.8), any::<u32>())
			.prop_map(|(runs, share, leaf_levels, leaf_size, mixed_root, leaves_reversed, ic, unclustered, with_meta, seed)| {
				Layout::Pmtiles(codec::pmtiles::Layout { runs, share, leaf_levels, leaf_size, mixed_root, leaves_reversed, internal: Comp::ALL[ic], unclustered, with_meta, seed })
			})
			.boxed(),
		Target::Mbtiles => (any::<bool>(), proptest::bool::weighted(0.7), any::<bool>(), 0u8..3, any::<u32>())
			.prop_map(|(as_view, with_index, extra_meta, order, seed)| Layout::Mbtiles(codec::mbtiles::Layout { as_view, with_index, extra_meta, order, seed }))
			.boxed(),
		Target::Tar => (any::<bool>(), any::<bool>(), 0u8..3, 0u8..4, 0u8..3, any::<bool>(), any::<bool>(), any::<u32>())
			.prop_map(|(dot_slash, dir_members, order, meta_pos, meta_name, ustar, extra_member, seed)| Layout::Tar(codec::tar::Layout { dot_slash, dir_members, order, meta_pos, meta_name, ustar, extra_member, seed }))
			.boxed(),
		Target::Dir => (any::<bool>(), 0u8..4).prop_map(|(extra_files, meta_name)| Layout::Dir(codec::dir::Layout { extra_files, meta_name })).boxed(),
	}
}

fn strategy(t: Target, big: bool) -> impl Strategy<Value = Case> {
	let mut cfg = GenCfg::small(t.pairs());
	cfg.heavy_payloads = !big;
	cfg.allow_big = big;
	cfg.adverts = vec![Advert::Tight];
	if t == Target::Dir {
		cfg.max_side = 12;
	}
	(gen::set_spec(cfg), layout(t), 0u8..12, any::<u32>(), 1u32..4, 1u32..3).prop_map(move |(mut spec, mut layout, special, r, w, h)| {
		// PMTiles: equal payloads on the last tile of a level and the first tiles of the next, stored
		// once and addressed by one run-length entry
		if let (Layout::Pmtiles(l), true, false) = (&mut layout, special == 0, big) {
			gen::border_run(&mut spec, r, w, h);
			l.runs = true;
			l.share = true;
		}
		Case { spec, layout }
	})
}

fn oracle(case: &Case, obs: &mut Obs) -> Result<(), Fail> {
	let set = case.spec.materialise();
	let target = case.layout.target();
	let path = target.fresh_path();
	let _g = TmpGuard(path.clone());
	let mut features: Vec<String> = vec![];
	// encode with the harness encoder
	let enc: Result<(), String> = match &case.layout {
		Layout::Versatiles(l) => {
			let blocks: std::collections::BTreeSet<(u8, u32, u32)> = set.tiles.keys().map(|c| (c.z, c.x >> 8, c.y >> 8)).collect();
			let boxes = set.tight_boxes();
			let grid: u64 = boxes.values().map(|b| ((b.2 >> 8) - (b.0 >> 8) + 1) as u64 * ((b.3 >> 8) - (b.1 >> 8) + 1) as u64).sum();
			if (blocks.len() as u64) < grid {
				features.push("sparse-block-index".into());
			}
			if l.block_order != 0 && blocks.len() > 1 {
				features.push("block-order".into());
			}
			if l.tile_order != 0 {
				features.push("tile-blob-order".into());
			}
			if l.share_all && set.tiles.values().any(|b| b.len() >= 1000) && set.distinct_payloads() < set.tiles.len() {
				features.push("shared-offsets>=1000B".into());
			}
			if l.gaps {
				features.push("gaps".into());
			}
			if !l.tight_blocks && l.widen > 0 {
				features.push("widened-block-coverage".into());
			}
			if l.tight_blocks {
				features.push("partial-blocks".into());
			}
			if !l.with_meta || set.meta.is_none() {
				features.push("no-metadata".into());
			}
			std::fs::write(&path, codec::versatiles::encode(&set, l)).map_err(|e| e.to_string())
		}
		Layout::Pmtiles(l) => {
			let (bytes, used) = codec::pmtiles::encode(&set, l);
			features.extend(used.iter().map(|s| s.to_string()));
			std::fs::write(&path, bytes).map_err(|e| e.to_string())
		}
		Layout::Mbtiles(l) => {
			if l.as_view {
				features.push("tiles-view".into());
			}
			if !l.with_index {
				features.push("no-index".into());
			}
			if l.extra_meta {
				features.push("extra-metadata-rows".into());
			}
			if set.has_zoom_gap() {
				features.push("zoom-gap".into());
			}
			codec::mbtiles::encode(&set, l, &path)
		}
		Layout::Tar(l) => {
			if !l.dot_slash {
				features.push("no-dot-slash".into());
			}
			if l.dir_members {
				features.push("directory-members".into());
			}
			if l.order != 0 {
				features.push("member-order".into());
			}
			if l.meta_pos != 0 || l.meta_name != 0 {
				features.push("metadata-member-elsewhere".into());
			}
			if l.ustar {
				features.push("ustar-magic".into());
			}
			if l.extra_member {
				features.push("extra-member".into());
			}
			std::fs::write(&path, codec::tar::encode(&set, l)).map_err(|e| e.to_string())
		}
		Layout::Dir(l) => {
			if l.extra_files {
				features.push("extra-files".into());
			}
			if l.meta_name != 0 {
				features.push("other-metadata-name".into());
			}
			codec::dir::encode(&set, l, &path)
		}
	};
	enc.map_err(|e| Fail::new("harness:encode", format!("harness encoder failed: {e}")))?;

	// self-check: the harness's own decoder reads back the model (an encoder bug must not be
	// mistaken for a reader bug)
	let dec = decode_independent(target, &path).map_err(|e| Fail::new("harness:self-check", format!("harness decoder rejects the harness encoder's output: {e}")))?;
	compare_decoded_with_model(&dec, &set, "self-check").map_err(|f| Fail::new("harness:self-check", f.what))?;
	if dec.format != Some(set.format) || dec.comp != Some(set.comp) {
		fail!("harness:self-check", "self-check: declared {:?}/{:?}", dec.format, dec.comp);
	}

	// the repository's reader
	let ctx = format!("{} [{}]", target.name(), features.join(","));
	let reader = open_with_repo(&path).map_err(|f| Fail::new(f.sig, format!("{ctx}: {}", f.what)))?;
	let p = reader.get_parameters().clone();
	ensure_prop!(vt::model::Fmt::from_vt(p.tile_format) == set.format, "accept:format", "{ctx}: reader reports format {:?}, file declares {:?}", p.tile_format, set.format);
	ensure_prop!(Comp::from_vt(p.tile_compression) == set.comp, "accept:compression", "{ctx}: reader reports {:?}, file declares {:?}", p.tile_compression, set.comp);
	let probes = set.probes(2, 200);
	let n = compare_reader_with_model(reader.as_ref(), &set, &probes, &ctx)?;
	obs.count("lookups", n);
	coverage_contains_model(reader.as_ref(), &set, &ctx)?;
	let cov = vt::model::pyramid_boxes(&p.bbox_pyramid);
	if target != Target::Versatiles {
		ensure_prop!(cov == set.tight_boxes(), "accept:coverage-not-exact", "{ctx}: advertised coverage {:?}, stored tiles span {:?}", cov, set.tight_boxes());
	}
	// streams over the advertised level boxes deliver exactly the model's tiles
	let source = Source::Reader(reader);
	for (z, b) in &cov {
		let area = (b.2 - b.0 + 1) as u64 * (b.3 - b.1 + 1) as u64;
		let slow = matches!(target, Target::Pmtiles | Target::Tar | Target::Dir);
		if slow && area > 4096 {
			continue;
		}
		let bbox = TileBBox::new(*z, b.0, b.1, b.2, b.3).unwrap();
		let got = match source.stream(bbox) {
			Ok(v) => v,
			Err(pi) => return Err(Fail::from_panic(&format!("{ctx}: stream over level {z}"), &pi)),
		};
		let want: Vec<(&Coord, &Vec<u8>)> = set.nonempty().filter(|(c, _)| c.z == *z).collect();
		ensure_prop!(got.len() == want.len(), "accept:stream-count", "{ctx}: stream over level {z} delivers {} tiles, the file holds {}", got.len(), want.len());
		let m: std::collections::BTreeMap<Coord, Vec<u8>> = got.into_iter().collect();
		for (c, b) in want {
			ensure_prop!(m.get(c) == Some(b), "accept:stream-content", "{ctx}: stream over level {z}: tile {c} wrong or missing");
		}
	}
	// metadata present in the file is handed out
	if let Some(m) = &set.meta {
		let stored = match &case.layout {
			Layout::Versatiles(l) => l.with_meta,
			Layout::Pmtiles(l) => l.with_meta,
			Layout::Mbtiles(_) => false,
			Layout::Tar(l) => l.meta_pos < 4 && l.meta_pos != 3,
			Layout::Dir(l) => l.meta_name < 3,
		};
		if stored {
			let want: serde_json::Value = serde_json::from_str(m).unwrap();
			let got: serde_json::Value = serde_json::from_str(&source.tilejson_string()).unwrap_or(serde_json::Value::Null);
			for (k, v) in want.as_object().unwrap() {
				ensure_prop!(got.get(k) == Some(v), "accept:metadata", "{ctx}: metadata key {k:?} is {:?}, file holds {v:?}", got.get(k));
			}
		}
	}

	obs.label(format!("target:{}", target.name()));
	for f in &features {
		obs.label(format!("feature:{}:{f}", target.name()));
	}
	obs.label_if(set.tiles.len() > 16384, "tiles>16384");
	// features the repository's writers never emit
	let never: &[&str] = &[
		"sparse-block-index", "block-order", "tile-blob-order", "shared-offsets>=1000B", "gaps", "widened-block-coverage", "no-metadata", "run-lengths", "shared-offsets", "two-leaf-levels", "mixed-root", "leaves-reversed",
		"internal-none", "internal-brotli", "unclustered", "tiles-view", "no-index", "extra-metadata-rows", "no-dot-slash", "directory-members", "member-order", "metadata-member-elsewhere", "ustar-magic", "extra-member", "extra-files",
		"other-metadata-name", "leaf-directories",
	];
	obs.nontrivial(features.iter().any(|f| never.contains(&f.as_str())));
	Ok(())
}

fn main() {
	let mut check = Check::from_args(
		"C16",
		"exploration",
		"tile-set specs x harness encoders with generated layout choices: versatiles v02 (sparse block index, partial or widened block coverage, shuffled block/blob order, shared offsets of any size, gaps, no metadata), PMTiles v3 (run lengths, shared offsets, root only / one / two leaf levels, root mixing tile and leaf entries, reversed leaf section, internal compression none/gzip/brotli, unclustered data), MBTiles (tiles as view over map/images, no index, zoom gaps, extra metadata rows, insertion order), tar (with/without './', directory members, member order, metadata member name/position, ustar magic, extra member), directory (extra files, metadata name); each file is first decoded by the harness's own decoder (self-check), then the repository reader must open it, return exactly the model mapping over all tiles + probes, advertise a coverage containing the tiles (exact for derived formats) and stream exactly the tiles per level; non-trivial = the file uses at least one feature the repository's writers never emit",
	);
	check.assume("at most two PMTiles leaf levels; tile ids < 2^62");
	vt::engine::watchdog(3600);
	codec::pmtiles::self_test();
	for t in Target::ALL {
		let name = format!("accept-{}", t.name());
		let reg: Vec<Case> = check.regression_cases(&name);
		check.enumerate(&format!("regress-{}", t.name()), reg, false, oracle);
		let n = if t == Target::Dir { check.cases(300, 6000) } else { check.cases(1200, 40_000) };
		check.phase(&name, n, || strategy(t, false), oracle);
		if matches!(t, Target::Versatiles | Target::Pmtiles) {
			check.phase(&format!("big-{}", t.name()), check.cases(3, 40), || strategy(t, true).prop_filter("big", |c| c.spec.levels.iter().any(|l| l.w >= 130)), oracle);
		}
	}
	check.finish();
}

//! C03 — the advertised coverage pyramid contains every tile a source can return; for the
//! formats that derive coverage from the stored tiles it is exactly their bounding box.

use proptest::prelude::*;
use serde::{Deserialize, Serialize};
use vt::containers::Target;
use vt::engine::{Check, Fail, Obs};
use vt::gen::{self, GenCfg};
use vt::model::{Advert, Coord, LevelSpec, SetSpec, Shape};
use vt::sources::*;
use vt::util::TmpGuard;
use vt::{ensure_prop, fail};

#[derive(Clone, Debug, Serialize, Deserialize)]
enum Src {
	Leaf(Leaf),
	Pipeline(Node),
}

#[derive(Clone, Debug, Serialize, Deserialize)]
struct Case {
	src: Src,
}

/// tile sets steered towards the shapes the statement names
fn spec_for(target: Target) -> impl Strategy<Value = SetSpec> {
	let mut cfg = GenCfg::small(target.pairs());
	cfg.max_side = 30;
	cfg.heavy_payloads = false;
	cfg.adverts = vec![Advert::Tight, Advert::Loose(2)];
	(gen::set_spec(cfg), 0u8..10, any::<u32>(), 5u32..40, 3u32..30).prop_map(|(mut spec, special, r, w, h)| {
		match special {
			// a level whose extreme rows occur only in off-centre columns
			0..=2 => {
				for l in spec.levels.iter_mut() {
					if l.z >= 6 {
						l.shape = Shape::OffCentre;
						l.w = w;
						l.h = h;
						let size = Coord::size(l.z) as u32;
						l.x0 = l.x0.min(size.saturating_sub(w));
						l.y0 = l.y0.min(size.saturating_sub(h));
					}
				}
			}
			// border coordinates of level 0 and level 31
			3 => {
				spec.levels = vec![
					LevelSpec { z: 0, x0: 0, y0: 0, w: 1, h: 1, shape: Shape::Dense, seed: r },
					LevelSpec { z: 31, x0: (1u32 << 31) - 3, y0: (1u32 << 31) - 2, w: 3, h: 2, shape: Shape::Corners, seed: r },
				];
			}
			4 => {
				spec.levels = vec![LevelSpec { z: 31, x0: 0, y0: (1u32 << 31) - 1, w: 2, h: 1, shape: Shape::Dense, seed: r }, LevelSpec { z: 30, x0: (1u32 << 30) - 1, y0: 0, w: 1, h: 1, shape: Shape::Dense, seed: r }];
			}
			// the last tile of level z on the Hilbert curve and the first tiles of level z+1 with equal
			// payloads (one PMTiles run over the level border, when the encoder merges runs)
			5 | 6 => gen::border_run(&mut spec, r, w, h),
			_ => {}
		}
		spec
	})
}

fn strategy() -> impl Strategy<Value = Case> {
	let leafs = (0usize..5, any::<bool>(), any::<u32>()).prop_flat_map(|(t, enc, seed)| {
		let target = Target::ALL[t];
		spec_for(target).prop_map(move |spec| Leaf { spec, kind: if enc { LeafKind::Enc(target, seed) } else { LeafKind::Repo(target) } })
	});
	let border = (spec_for(Target::Pmtiles), any::<u32>(), any::<u32>(), 1u32..4, 1u32..3).prop_map(|(mut spec, seed, r, w, h)| {
		gen::border_run(&mut spec, r, w, h);
		Leaf { spec, kind: LeafKind::Enc(Target::Pmtiles, seed) }
	});
	prop_oneof![
		5 => leafs.prop_map(|l| Case { src: Src::Leaf(l) }),
		1 => border.prop_map(|l| Case { src: Src::Leaf(l) }),
		2 => node(31, 3).prop_map(|n| Case { src: Src::Pipeline(n) }),
	]
}

fn oracle(case: &Case, obs: &mut Obs) -> Result<(), Fail> {
	let mut guards: Vec<TmpGuard> = vec![];
	let (source, sets, exact_target, model): (Source, Vec<vt::model::TileSet>, Option<Target>, Option<MNode>) = match &case.src {
		Src::Leaf(leaf) => {
			let set = leaf.spec.materialise();
			let r = leaf.open(&set, &mut guards)?;
			obs.label(leaf.label());
			let t = match leaf.kind {
				LeafKind::Repo(t) | LeafKind::Enc(t, _) => Some(t),
				_ => None,
			};
			(Source::Reader(r), vec![set], t.filter(|t| *t != Target::Versatiles), None)
		}
		Src::Pipeline(root) => {
			let b = build_pipeline(root)?;
			let mut l = vec![];
			root.labels(&mut l);
			l.into_iter().for_each(|x| obs.label(x));
			guards.extend(b.guards);
			let sets = b.model.sets().into_iter().cloned().collect();
			(Source::Op(b.op), sets, None, Some(b.model))
		}
	};
	let cov = source.coverage();
	let inside = |c: &Coord| cov.get(&c.z).map(|b| c.x >= b.0 && c.x <= b.2 && c.y >= b.1 && c.y <= b.3).unwrap_or(false);

	// every readable tile lies inside the advertised coverage
	let mut readable = 0u64;
	let mut coords = std::collections::BTreeSet::new();
	for s in &sets {
		coords.extend(s.tiles.keys().copied());
		for p in s.probes(2, 40) {
			coords.insert(p);
		}
	}
	for c in &coords {
		match source.lookup(c) {
			Ok(Ok(Some(b))) if !b.is_empty() => {
				readable += 1;
				ensure_prop!(inside(c), "coverage:readable-tile-outside", "tile {c} is returned by the source but lies outside its advertised coverage {:?}", cov.get(&c.z));
			}
			Ok(Ok(_)) => {}
			Ok(Err(e)) => {
				if model.is_none() {
					fail!("coverage:lookup-error", "lookup of {c} failed: {e}");
				}
			}
			Err(p) => return Err(Fail::from_panic(&format!("lookup of {c}"), &p)),
		}
	}
	obs.count("readable-tiles", readable);

	// derived formats: exact bounding boxes, nothing on levels without tiles
	let mut special = false;
	if let Some(t) = exact_target {
		let want = sets[0].tight_boxes();
		ensure_prop!(cov == want, "coverage:not-exact", "{}: advertised coverage {:?} differs from the bounding boxes of the stored tiles {:?}", t.name(), cov, want);
	}
	// shape classes for the evidence
	for s in &sets {
		let boxes = s.tight_boxes();
		for (z, b) in &boxes {
			let (x0, x1) = (b.0, b.2);
			let mid = (x0 as u64 + x1 as u64) / 2;
			let rows_at = |y: u32| -> Vec<u32> { s.tiles.keys().filter(|c| c.z == *z && c.y == y).map(|c| c.x).collect() };
			let off = |xs: &Vec<u32>| !xs.is_empty() && xs.iter().all(|x| *x != x0 && *x != x1 && *x as u64 != mid);
			if off(&rows_at(b.1)) && off(&rows_at(b.3)) {
				obs.label("extreme-rows-off-centre");
				special = true;
			}
			if *z == 0 || *z == 31 {
				obs.label(format!("level-{z}"));
				special = true;
			}
		}
		let last = |z: u8| Coord::new(z, (1u32 << z) - 1, 0);
		if (1u8..31).any(|z| s.tiles.get(&last(z)).is_some_and(|a| s.tiles.get(&Coord::new(z + 1, 0, 0)) == Some(a))) {
			obs.label("equal-payloads-across-level-border");
			if let Src::Leaf(Leaf { kind: LeafKind::Enc(Target::Pmtiles, seed), .. }) = &case.src {
				let l = layout_pmtiles(*seed);
				obs.label_if(l.runs && l.share, "pmtiles-run-across-level-border");
			}
		}
		if s.has_zoom_gap() {
			obs.label("zoom-gap");
			special = true;
		}
		obs.label_if(s.tiles.len() == 1, "single-tile");
	}
	obs.nontrivial(special && readable >= 1);
	Ok(())
}

fn main() {
	let mut check = Check::from_args(
		"C03",
		"exploration",
		"tile sets steered to the shapes of the statement (extreme rows only in off-centre columns, single tiles, border coordinates of levels 0/30/31, zoom gaps, sparse and diamond shapes, equal payloads on the last tile of a level and the first of the next in Hilbert order) as containers of all five formats (written by the repository or by the harness's independent encoders) and as pipelines (overlay, merge, filters, nested); oracle: every coordinate at which a lookup returns a tile lies inside the advertised pyramid, and for mbtiles/pmtiles/tar/directory the advertised level boxes equal the bounding boxes of the stored tiles exactly; non-trivial = source with an off-centre extreme row, a zoom gap or a level 0/31 tile",
	);
	check.assume("tiles with empty payloads are not generated (several formats cannot tell them from absent tiles)");
	vt::engine::watchdog(3600);
	// pipelines only: the direct container leaves of this check keep their MBTiles share
	vt::sources::MBTILES_THINNING.store(4, std::sync::atomic::Ordering::Relaxed);
	let reg: Vec<Case> = check.regression_cases("coverage");
	check.enumerate("regressions", reg, false, oracle);
	check.phase("coverage", check.cases(12_000, 300_000), strategy, oracle);
	check.finish();
}

//! C17 — JSON values survive stringify -> parse (own parser and serde_json), TileJSON documents
//! survive TileJSON::try_from -> as_string, and containers hand back the TileJSON they were given
//! (zoom range and bounds only ever narrowed to the stored coverage).
//!
//! The served `tiles.json` part runs against the server binary (see `server_phase`).

use proptest::collection::vec;
use proptest::prelude::*;
use proptest::sample::select;
use serde::{Deserialize, Serialize};
use serde_json::Value;
use std::collections::BTreeMap;
use versatiles_core::json::{parse_json_str, JsonArray, JsonObject, JsonValue};
use versatiles_core::tilejson::TileJSON;
use vt::engine::{guard, Check, Fail, Obs};
use vt::model::{georef, Advert, Fmt, LevelSpec, MemReader, Pay, SetSpec, Shape};
use vt::util::{block_on, tmp_dir, tmp_path, Comp, TmpGuard};
use vt::{ensure_prop, fail};

// =======================================================================================
// canonical value used for every comparison (objects as maps, numbers as f64)
// =======================================================================================

#[derive(Clone, Debug, PartialEq)]
enum N {
	Null,
	Bool(bool),
	Num(f64),
	Str(String),
	Arr(Vec<N>),
	Obj(BTreeMap<String, N>),
}

impl N {
	fn from_own(v: &JsonValue) -> N {
		match v {
			JsonValue::Null => N::Null,
			JsonValue::Boolean(b) => N::Bool(*b),
			JsonValue::Number(n) => N::Num(*n),
			JsonValue::String(s) => N::Str(s.clone()),
			JsonValue::Array(a) => N::Arr(a.0.iter().map(N::from_own).collect()),
			JsonValue::Object(o) => N::Obj(o.0.iter().map(|(k, v)| (k.clone(), N::from_own(v))).collect()),
		}
	}
	fn from_serde(v: &Value) -> N {
		match v {
			Value::Null => N::Null,
			Value::Bool(b) => N::Bool(*b),
			// integers serde_json read as u64 / i64 are compared through their f64 value
			Value::Number(n) => N::Num(n.as_f64().unwrap_or(f64::NAN)),
			Value::String(s) => N::Str(s.clone()),
			Value::Array(a) => N::Arr(a.iter().map(N::from_serde).collect()),
			Value::Object(o) => N::Obj(o.iter().map(|(k, v)| (k.clone(), N::from_serde(v))).collect()),
		}
	}
	fn kind(&self) -> &'static str {
		match self {
			N::Null => "null",
			N::Bool(_) => "boolean",
			N::Num(_) => "number",
			N::Str(_) => "string",
			N::Arr(_) => "array",
			N::Obj(_) => "object",
		}
	}
	fn as_f64(&self) -> Option<f64> {
		match self {
			N::Num(x) => Some(*x),
			_ => None,
		}
	}
}

fn show_str(s: &str) -> String {
	let mut out = String::from("\"");
	for (i, c) in s.chars().enumerate() {
		if i >= 48 {
			out.push('…');
			break;
		}
		if c == '"' || c == '\\' {
			out.push('\\');
			out.push(c);
		} else if (' '..='~').contains(&c) {
			out.push(c);
		} else {
			out.push_str(&format!("\\u{{{:x}}}", c as u32));
		}
	}
	out.push('"');
	out
}

fn show(n: &N) -> String {
	match n {
		N::Null => "null".into(),
		N::Bool(b) => b.to_string(),
		N::Num(x) => format!("{x:e}"),
		N::Str(s) => show_str(s),
		N::Arr(a) => format!("array[{}]", a.len()),
		N::Obj(o) => format!("object{{{}}}", o.keys().take(6).map(|k| show_str(k)).collect::<Vec<_>>().join(",")),
	}
}

/// first difference between two canonical values: `Some("<path>: expected … got …")`
fn diff(path: &str, want: &N, got: &N) -> Option<String> {
	match (want, got) {
		(N::Null, N::Null) => None,
		(N::Bool(a), N::Bool(b)) if a == b => None,
		// f64 equality: +0 == -0; NaN never occurs on the expected side
		(N::Num(a), N::Num(b)) if a == b => None,
		(N::Str(a), N::Str(b)) if a == b => None,
		(N::Arr(a), N::Arr(b)) => {
			if a.len() != b.len() {
				return Some(format!("{path}: expected an array of {} elements, got {}", a.len(), b.len()));
			}
			a.iter().zip(b).enumerate().find_map(|(i, (x, y))| diff(&format!("{path}[{i}]"), x, y))
		}
		(N::Obj(a), N::Obj(b)) => {
			for (k, x) in a {
				match b.get(k) {
					None => return Some(format!("{path}: key {} is missing (got {})", show_str(k), show(got))),
					Some(y) => {
						if let Some(d) = diff(&format!("{path}.{}", show_str(k)), x, y) {
							return Some(d);
						}
					}
				}
			}
			b.keys().find(|k| !a.contains_key(*k)).map(|k| format!("{path}: unexpected key {}", show_str(k)))
		}
		_ => Some(format!("{path}: expected {} {}, got {} {}", want.kind(), show(want), got.kind(), show(got))),
	}
}

fn short(text: &str) -> String {
	let mut s: String = text.chars().take(400).flat_map(|c| c.escape_debug()).collect();
	if text.chars().count() > 400 {
		s.push_str(&format!("… ({} bytes)", text.len()));
	}
	s
}

// =======================================================================================
// generators: characters, strings, keys, numbers
// =======================================================================================

fn cp(r: std::ops::RangeInclusive<u32>) -> impl Strategy<Value = char> {
	r.prop_map(|c| char::from_u32(c).unwrap_or('\u{fffd}'))
}

fn chr() -> BoxedStrategy<char> {
	prop_oneof![
		6 => proptest::char::range(' ', '~'),
		3 => select(vec!['"', '\\', '/', '\'']),
		3 => cp(0..=0x1f),
		1 => Just('\u{7f}'),
		2 => cp(0x80..=0x9f),
		1 => select(vec!['\u{2028}', '\u{2029}']),
		1 => select(vec!['\u{d7ff}', '\u{e000}', '\u{fffe}', '\u{ffff}', '\u{feff}', '\u{fffd}', '\u{a0}', '\u{ad}', '\u{200b}', '\u{200e}', '\u{ff}', '\u{100}', '\u{7ff}', '\u{800}']),
		2 => cp(0xa0..=0xd7ff),
		1 => cp(0xe000..=0xffff),
		2 => select(vec!['\u{1f600}', '\u{10000}', '\u{10ffff}', '\u{1f1e9}', '\u{e0001}', '\u{1d11e}', '\u{2f800}', '\u{fffff}', '\u{100000}', '\u{1fffe}']),
		1 => cp(0x10000..=0x10ffff),
		1 => any::<char>(),
	]
	.boxed()
}

/// literal snippets that look like escapes or terminators (they are *content*, not escapes)
const SNIPPETS: &[&str] = &[
	"\\u0041", "\\n", "\\\"", "\\\\", "\\ud83d\\ude00", "\\u", "\\", "\"", "\"}", "\"]", "\",\"", "</script>", "\r\n", "\\/", "\\b", "\\u000b", "{\"a\":1}", "[", "null",
	"\u{0}\u{0}", "\u{1b}[0m", "ä\u{308}", "👩\u{200d}💻", "\u{feff}",
];

fn text(max: usize) -> BoxedStrategy<String> {
	let frag = prop_oneof![
		12 => chr().prop_map(|c| c.to_string()),
		1 => select(SNIPPETS.to_vec()).prop_map(|s| s.to_string()),
	];
	vec(frag, 0..=max).prop_map(|v| v.concat()).boxed()
}

const COMMON_KEYS: &[&str] = &[
	"name", "description", "attribution", "version", "scheme", "tiles", "data", "grids", "legend", "template", "fillzoom", "type", "format", "author", "license", "tilejson", "id", "a", "b", "key",
];
const TRICKY_KEYS: &[&str] = &[
	"", " ", "__proto__", "constructor", "a\"b", "\\", "\u{0}", "key\nline", "🔑", "a.b", "a/b", "0", "-1", "true", "null", "\u{2028}", "\u{7f}", "\u{85}", "\u{10ffff}", "A", "Name", "name ",
];

fn key() -> BoxedStrategy<String> {
	prop_oneof![
		3 => select(COMMON_KEYS.to_vec()).prop_map(|s| s.to_string()),
		3 => text(6),
		1 => select(TRICKY_KEYS.to_vec()).prop_map(|s| s.to_string()),
	]
	.boxed()
}

fn finite(x: f64) -> f64 {
	if x.is_finite() {
		x
	} else if x.is_sign_negative() {
		f64::MIN
	} else {
		f64::MAX
	}
}

fn number() -> BoxedStrategy<f64> {
	let sign = |x: f64, neg: bool| if neg { -x } else { x };
	prop_oneof![
		4 => (-1000i32..=1000).prop_map(|i| i as f64),
		1 => select(vec![0.0f64, -0.0]),
		3 => any::<u64>().prop_map(|b| finite(f64::from_bits(b))),
		// subnormals
		2 => (1u64..(1u64 << 52), any::<bool>()).prop_map(move |(b, n)| sign(f64::from_bits(b), n)),
		2 => (select(vec![1e308f64, f64::MAX, f64::MIN_POSITIVE, 5e-324, 1e-308, 2.2250738585072011e-308, 1e-323, 1.7976931348623157e308, 1e21, 1e22, 1e23, 9.999999999999999e20, 1e-7, 1e-6, 123456789012345680000.0, 0.1, 0.2, 0.30000000000000004, 1.0 / 3.0, 2.0 / 3.0, 4.35, 0.000001, 1e15, 1e16, 1e17]), any::<bool>())
			.prop_map(move |(x, n)| sign(x, n)),
		// integers beyond 2^53
		2 => (select(vec![9007199254740992.0f64, 9007199254740994.0, 9007199254740993.0, 9223372036854775808.0, 18446744073709551616.0, 18446744073709551615.0, 1e19, 1e20, 4294967296.0, 9007199254740991.0]), any::<bool>())
			.prop_map(move |(x, n)| sign(x, n)),
		1 => any::<u64>().prop_map(|u| u as f64),
		1 => any::<i64>().prop_map(|u| u as f64),
		// mantissa * 10^k with k >= 21
		3 => (1u32..100_000, 21i32..=308, any::<bool>()).prop_map(move |(m, k, n)| sign(finite(m as f64 * 10f64.powi(k)), n)),
		// tiny fractions
		3 => (1u32..100_000, 1i32..=330, any::<bool>()).prop_map(move |(m, k, n)| sign(m as f64 / 10f64.powi(k.min(300)) / 10f64.powi((k - 300).max(0)), n)),
		// ordinary decimal fractions
		3 => (-100_000_000i64..100_000_000, 0i32..=9).prop_map(|(m, k)| m as f64 / 10f64.powi(k)),
	]
	.boxed()
}

// =======================================================================================
// phase (a): JSON values
// =======================================================================================

/// a generated JSON value; `Rep(unit, n)` is the string `unit` repeated n times (long texts,
/// kept compact in the replay file); objects never contain a key twice (first one wins)
#[derive(Clone, Debug, Serialize, Deserialize)]
enum J {
	Null,
	Bool(bool),
	Num(f64),
	Str(String),
	Rep(String, u16),
	Arr(Vec<J>),
	Obj(Vec<(String, J)>),
}

fn jvalue(depth: u32, size: u32, width: usize, maxstr: usize, rep_max: u16) -> BoxedStrategy<J> {
	let leaf = prop_oneof![
		2 => Just(J::Null),
		2 => any::<bool>().prop_map(J::Bool),
		10 => number().prop_map(J::Num),
		10 => text(maxstr).prop_map(J::Str),
		1 => (vec(chr(), 1..=3).prop_map(|v| v.into_iter().collect::<String>()), 0..=rep_max).prop_map(|(u, n)| J::Rep(u, n)),
	];
	let tree = leaf.prop_recursive(depth, size, width as u32, move |inner| {
		prop_oneof![
			vec(inner.clone(), 0..=width).prop_map(J::Arr),
			vec((key(), inner), 0..=width).prop_map(J::Obj),
		]
	});
	// prop_recursive rarely gets deep: wrap some trees into a chain of single-element containers
	let wraps = prop_oneof![3 => Just(vec![]), 1 => vec(proptest::option::of(key()), 0..=depth as usize)];
	(tree, wraps)
		.prop_map(|(mut v, wraps)| {
			for w in wraps {
				v = match w {
					None => J::Arr(vec![v]),
					Some(k) => J::Obj(vec![(k, v)]),
				};
			}
			v
		})
		.boxed()
}

#[derive(Default)]
struct Stats {
	depth: usize,
	nodes: u64,
	control_c0: bool,
	del_c1: bool,
	quote_backslash: bool,
	non_bmp: bool,
	line_sep: bool,
	surrogate_adjacent: bool,
	noncharacter: bool,
	exp21: bool,
	subnormal: bool,
	big_int: bool,
	neg_zero: bool,
	tiny: bool,
	fraction: bool,
	empty_container: bool,
	tricky_key: bool,
}

impl Stats {
	fn string(&mut self, s: &str) {
		for c in s.chars() {
			let u = c as u32;
			self.control_c0 |= u < 0x20;
			self.del_c1 |= (0x7f..=0x9f).contains(&u);
			self.quote_backslash |= c == '"' || c == '\\';
			self.non_bmp |= u > 0xffff;
			self.line_sep |= u == 0x2028 || u == 0x2029;
			self.surrogate_adjacent |= u == 0xd7ff || u == 0xe000;
			self.noncharacter |= (u & 0xfffe) == 0xfffe;
		}
	}
	fn number(&mut self, x: f64) {
		let a = x.abs();
		self.exp21 |= a >= 1e21;
		self.subnormal |= a > 0.0 && a < f64::MIN_POSITIVE;
		self.big_int |= a > 9007199254740992.0 && a < 1e21;
		self.neg_zero |= x == 0.0 && x.is_sign_negative();
		self.tiny |= a > 0.0 && a < 1e-7;
		self.fraction |= x.fract() != 0.0;
	}
}

/// model -> (canonical expected value, value handed to the code under test)
fn build(j: &J, depth: usize, st: &mut Stats) -> (N, JsonValue) {
	st.depth = st.depth.max(depth);
	st.nodes += 1;
	match j {
		J::Null => (N::Null, JsonValue::Null),
		J::Bool(b) => (N::Bool(*b), JsonValue::Boolean(*b)),
		J::Num(x) => {
			let x = finite(*x);
			st.number(x);
			(N::Num(x), JsonValue::Number(x))
		}
		J::Str(s) => {
			st.string(s);
			(N::Str(s.clone()), JsonValue::String(s.clone()))
		}
		J::Rep(u, n) => {
			let s = u.repeat(*n as usize);
			st.string(&s);
			(N::Str(s.clone()), JsonValue::String(s))
		}
		J::Arr(a) => {
			st.empty_container |= a.is_empty();
			let (n, v): (Vec<N>, Vec<JsonValue>) = a.iter().map(|x| build(x, depth + 1, st)).unzip();
			(N::Arr(n), JsonValue::Array(JsonArray(v)))
		}
		J::Obj(o) => {
			st.empty_container |= o.is_empty();
			let mut n = BTreeMap::new();
			let mut v = BTreeMap::new();
			for (k, x) in o {
				if n.contains_key(k) {
					continue; // no duplicate keys within one object
				}
				st.string(k);
				st.tricky_key |= k.is_empty() || k.chars().any(|c| !c.is_ascii_alphanumeric());
				let (a, b) = build(x, depth + 1, st);
				n.insert(k.clone(), a);
				v.insert(k.clone(), b);
			}
			(N::Obj(n), JsonValue::Object(JsonObject(v)))
		}
	}
}

fn oracle_value(case: &J, obs: &mut Obs) -> Result<(), Fail> {
	let mut st = Stats::default();
	let (want, value) = build(case, 0, &mut st);

	let text = guard(|| value.stringify()).map_err(|p| Fail::from_panic("stringify", &p))?;

	// (1) the repository's own parser reads the same value
	let back = guard(|| parse_json_str(&text)).map_err(|p| Fail::from_panic(&format!("parse_json_str of stringify output {}", short(&text)), &p))?;
	let back = match back {
		Ok(v) => v,
		Err(e) => fail!("json:own-parser-rejects-stringify-output", "parse_json_str rejects the text stringify produced: {} — error: {}", short(&text), short(&format!("{e:#}"))),
	};
	if let Some(d) = diff("$", &want, &N::from_own(&back)) {
		fail!("json:own-parser-reads-different-value", "stringify -> parse_json_str changed the value at {d}; text: {}", short(&text));
	}

	// (2) a standard parser accepts the text with the same meaning
	let std: Value = match serde_json::from_str(&text) {
		Ok(v) => v,
		Err(e) => fail!("json:std-parser-rejects-stringify-output", "serde_json rejects the text stringify produced ({e}): {}", short(&text)),
	};
	if let Some(d) = diff("$", &want, &N::from_serde(&std)) {
		fail!("json:std-parser-reads-different-value", "serde_json reads a different value at {d}; text: {}", short(&text));
	}

	obs.label(format!("depth={}", if st.depth > 8 { ">8".to_string() } else { st.depth.to_string() }));
	obs.label(format!("top:{}", want.kind()));
	obs.label_if(st.control_c0, "str:control-c0");
	obs.label_if(st.del_c1, "str:del-or-c1");
	obs.label_if(st.quote_backslash, "str:quote-or-backslash");
	obs.label_if(st.non_bmp, "str:non-bmp");
	obs.label_if(st.line_sep, "str:u2028-u2029");
	obs.label_if(st.surrogate_adjacent, "str:surrogate-adjacent");
	obs.label_if(st.noncharacter, "str:noncharacter-fffe-ffff");
	obs.label_if(st.exp21, "num:exponent>=21");
	obs.label_if(st.subnormal, "num:subnormal");
	obs.label_if(st.big_int, "num:>2^53");
	obs.label_if(st.neg_zero, "num:negative-zero");
	obs.label_if(st.tiny, "num:tiny<1e-7");
	obs.label_if(st.fraction, "num:fraction");
	obs.label_if(st.empty_container, "empty-array-or-object");
	obs.label_if(st.tricky_key, "key:non-alphanumeric");
	obs.label_if(text.len() > 4096, "text>4096-bytes");
	obs.nontrivial(st.control_c0 || st.del_c1 || st.quote_backslash || st.non_bmp || st.exp21);
	obs.count("nodes", st.nodes);
	obs.count("text_bytes", text.len() as u64);
	Ok(())
}

/// hand-picked values (always run): every C0/C1 control on its own, borders of the escaper
fn fixed_values() -> Vec<J> {
	let mut v = vec![];
	for u in (0u32..=0xa0).chain([0x2028, 0x2029, 0xd7ff, 0xe000, 0xfffe, 0xffff, 0x10000, 0x1f600, 0x10ffff]) {
		let c = char::from_u32(u).unwrap();
		v.push(J::Str(c.to_string()));
		v.push(J::Obj(vec![(format!("k{c}"), J::Str(format!("a{c}b")))]));
	}
	for s in SNIPPETS {
		v.push(J::Str(s.to_string()));
	}
	for x in [0.0, -0.0, 1.0, -1.0, 0.5, 1e21, 1e22, 1e300, 1e308, f64::MAX, f64::MIN, f64::MIN_POSITIVE, 5e-324, -5e-324, 1e-7, 9007199254740993.0, 18446744073709551616.0, 1e-320] {
		v.push(J::Num(x));
		v.push(J::Arr(vec![J::Num(x), J::Num(-x)]));
	}
	v.push(J::Arr(vec![]));
	v.push(J::Obj(vec![]));
	v.push(J::Obj(vec![(String::new(), J::Null)]));
	// texts that cross the parser's 4096-byte read buffer at every alignment of a multi-byte character
	for n in 1360..1372u16 {
		v.push(J::Rep("€".into(), n));
		v.push(J::Arr(vec![J::Rep("😀".into(), n * 3 / 4), J::Str("x".into())]));
	}
	// deep nesting
	let mut deep = J::Num(1.0);
	for i in 0..100 {
		deep = if i % 2 == 0 { J::Arr(vec![deep]) } else { J::Obj(vec![("k".into(), deep)]) };
	}
	v.push(deep);
	// counts beyond 2^8, 2^10, 2^12 and 2^16 of the same small thing side by side (empty arrays,
	// empty objects, empty strings, nulls, one-element arrays): whatever a parser counts or stacks
	// per element must not run out
	for n in [300usize, 1100, 4200, 70_000] {
		for unit in [J::Arr(vec![]), J::Obj(vec![]), J::Str(String::new()), J::Null, J::Arr(vec![J::Num(1.0)])] {
			v.push(J::Arr(vec![unit.clone(); n]));
		}
		v.push(J::Obj((0..n.min(4200)).map(|i| (format!("k{i}"), if i % 2 == 0 { J::Arr(vec![]) } else { J::Obj(vec![]) })).collect()));
	}
	// nesting next to siblings (the reference parser serde_json stops at 128 levels)
	let mut deep = J::Arr(vec![]);
	for _ in 0..100 {
		deep = J::Arr(vec![J::Arr(vec![]), deep]);
	}
	v.push(deep);
	v
}

// =======================================================================================
// phase (b): TileJSON documents expressible by the TileJSON type
// =======================================================================================

#[derive(Clone, Debug, Serialize, Deserialize)]
enum Val {
	Str(String),
	List(Vec<String>),
	Byte(u8),
}

#[derive(Clone, Debug, Serialize, Deserialize)]
struct Layer {
	id: String,
	fields: Vec<(String, String)>,
	description: Option<String>,
	minzoom: Option<u8>,
	maxzoom: Option<u8>,
}

/// What `TileJSON` can hold: string / list-of-strings / byte values under arbitrary keys
/// (other than the five structured ones), bounds, center, byte minzoom/maxzoom, vector layers
/// keyed by id with string fields, optional description and byte zooms.
#[derive(Clone, Debug, Serialize, Deserialize)]
struct Doc {
	entries: Vec<(String, Val)>,
	bounds: Option<[f64; 4]>,
	center: Option<(f64, f64, u8)>,
	minzoom: Option<u8>,
	maxzoom: Option<u8>,
	layers: Vec<Layer>,
	/// spelling of the text handed to the code under test
	pretty: bool,
	float_bytes: bool,
	/// 0 = the text as serde_json writes it; otherwise the seed of a re-spelling (`respell`)
	#[serde(default)]
	spell: u32,
}

const RESERVED: [&str; 5] = ["bounds", "center", "vector_layers", "minzoom", "maxzoom"];

fn coord(lo: f64, hi: f64) -> BoxedStrategy<f64> {
	prop_oneof![
		2 => (lo as i32..=hi as i32).prop_map(|i| i as f64),
		1 => Just(lo),
		1 => Just(hi),
		3 => lo..=hi,
		2 => ((lo * 1e7) as i64..=(hi * 1e7) as i64).prop_map(|i| i as f64 / 1e7),
		1 => select(vec![0.0f64, -0.0, 1e-9, -1e-9, 85.0511287798066, -85.0511287798066, 85.05112877980659, 13.404954, 52.520008]).prop_map(move |x| x.clamp(lo, hi)),
	]
	.boxed()
}

fn bounds() -> BoxedStrategy<[f64; 4]> {
	prop_oneof![
		1 => Just([-180.0, -90.0, 180.0, 90.0]),
		1 => Just([-180.0, -85.05112877980659, 180.0, 85.05112877980659]),
		6 => (coord(-180.0, 180.0), coord(-90.0, 90.0), coord(-180.0, 180.0), coord(-90.0, 90.0)).prop_map(|(a, b, c, d)| [a.min(c), b.min(d), a.max(c), b.max(d)]),
		// large boxes (cover most low-zoom tiles)
		2 => (coord(-180.0, -60.0), coord(-90.0, -30.0), coord(60.0, 180.0), coord(30.0, 90.0)).prop_map(|(a, b, c, d)| [a, b, c, d]),
	]
	.boxed()
}

fn val() -> BoxedStrategy<Val> {
	prop_oneof![
		4 => text(12).prop_map(Val::Str),
		3 => vec(text(8), 0..=4).prop_map(Val::List),
		2 => any::<u8>().prop_map(Val::Byte),
		1 => select(vec!["3.0.0", "2.2.0", "1.0.0", "xyz", "tms", "https://example.org/{z}/{x}/{y}.pbf", "<a href=\"https://osm.org/copyright\">© OSM</a>"]).prop_map(|s| Val::Str(s.to_string())),
	]
	.boxed()
}

fn layer() -> BoxedStrategy<Layer> {
	let id = prop_oneof![
		3 => "[a-z][a-z0-9_]{0,8}".prop_map(|s| s),
		2 => text(6),
		1 => select(TRICKY_KEYS.to_vec()).prop_map(|s| s.to_string()),
	];
	let field_type = prop_oneof![
		3 => select(vec!["String", "Number", "Boolean"]).prop_map(|s| s.to_string()),
		1 => text(6),
	];
	(id, vec((key(), field_type), 0..=4), proptest::option::of(text(10)), proptest::option::of(0u8..=30), proptest::option::of(0u8..=30))
		.prop_map(|(id, fields, description, minzoom, maxzoom)| Layer { id, fields, description, minzoom, maxzoom })
		.boxed()
}

fn doc(max_entries: usize) -> BoxedStrategy<Doc> {
	(
		vec((key(), val()), 0..=max_entries),
		proptest::option::weighted(0.6, bounds()),
		proptest::option::weighted(0.5, (coord(-180.0, 180.0), coord(-90.0, 90.0), 0u8..=30)),
		proptest::option::weighted(0.5, prop_oneof![4 => 0u8..=12, 1 => 0u8..=30, 1 => any::<u8>()]),
		proptest::option::weighted(0.5, prop_oneof![4 => 0u8..=12, 1 => 0u8..=30, 1 => any::<u8>()]),
		prop_oneof![2 => Just(vec![]), 3 => vec(layer(), 1..=4)],
		any::<bool>(),
		proptest::bool::weighted(0.25),
		prop_oneof![2 => Just(0u32), 3 => 1u32..],
	)
		.prop_map(|(entries, bounds, center, minzoom, maxzoom, layers, pretty, float_bytes, spell)| Doc { entries, bounds, center, minzoom, maxzoom, layers, pretty, float_bytes, spell })
		.boxed()
}

struct DocInfo {
	/// expected object
	want: BTreeMap<String, N>,
	text: String,
	keys: usize,
	has_list: bool,
	has_layers: bool,
	stats: Stats,
}

/// The document as an independent serde_json value and its text (built without repository code).
fn doc_model(d: &Doc) -> DocInfo {
	let byte = |b: u8| if d.float_bytes { Value::from(b as f64) } else { Value::from(b as u64) };
	let mut st = Stats::default();
	let mut map = serde_json::Map::new();
	let mut has_list = false;
	for (k, v) in &d.entries {
		if RESERVED.contains(&k.as_str()) || map.contains_key(k) {
			continue;
		}
		st.string(k);
		let v = match v {
			Val::Str(s) => {
				st.string(s);
				Value::from(s.clone())
			}
			Val::List(l) => {
				has_list = true;
				l.iter().for_each(|s| st.string(s));
				Value::from(l.clone())
			}
			Val::Byte(b) => byte(*b),
		};
		map.insert(k.clone(), v);
	}
	if let Some(b) = d.bounds {
		map.insert("bounds".into(), Value::from(b.iter().map(|x| finite(*x)).collect::<Vec<f64>>()));
	}
	if let Some((lon, lat, z)) = d.center {
		map.insert("center".into(), Value::Array(vec![Value::from(finite(lon)), Value::from(finite(lat)), byte(z)]));
	}
	if let Some(z) = d.minzoom {
		map.insert("minzoom".into(), byte(z));
	}
	if let Some(z) = d.maxzoom {
		map.insert("maxzoom".into(), byte(z));
	}
	let mut layers: Vec<Value> = vec![];
	let mut seen: Vec<&str> = vec![];
	for l in &d.layers {
		if seen.contains(&l.id.as_str()) {
			continue; // layers are keyed by id
		}
		seen.push(&l.id);
		st.string(&l.id);
		let mut o = serde_json::Map::new();
		o.insert("id".into(), Value::from(l.id.clone()));
		let mut f = serde_json::Map::new();
		for (k, t) in &l.fields {
			if !f.contains_key(k) {
				st.string(k);
				st.string(t);
				f.insert(k.clone(), Value::from(t.clone()));
			}
		}
		o.insert("fields".into(), Value::Object(f));
		if let Some(s) = &l.description {
			st.string(s);
			o.insert("description".into(), Value::from(s.clone()));
		}
		if let Some(z) = l.minzoom {
			o.insert("minzoom".into(), byte(z));
		}
		if let Some(z) = l.maxzoom {
			o.insert("maxzoom".into(), byte(z));
		}
		layers.push(Value::Object(o));
	}
	let has_layers = !layers.is_empty();
	if has_layers {
		map.insert("vector_layers".into(), Value::Array(layers));
	}
	let keys = map.len();
	let value = Value::Object(map);
	let text = if d.pretty { serde_json::to_string_pretty(&value) } else { serde_json::to_string(&value) }.expect("serde_json serialises its own value");
	let text = vt::gen::respell(&text, d.spell);
	debug_assert_eq!(serde_json::from_str::<Value>(&text).ok().as_ref(), Some(&value), "respell changed the meaning of {text}");
	let want = match N::from_serde(&value) {
		N::Obj(m) => m,
		_ => unreachable!(),
	};
	DocInfo { want, text, keys, has_list, has_layers, stats: st }
}

/// stored coverage of a container: zoom range and the geographic box of every level
struct Coverage {
	zmin: u8,
	zmax: u8,
	/// [west, south, east, north] per level
	boxes: Vec<[f64; 4]>,
}

const EPS_DOC: f64 = 1e-9;
const EPS_COV: f64 = 1e-6;

fn layers_by_id(ctx: &str, side: &str, v: &N) -> Result<BTreeMap<String, N>, Fail> {
	let N::Arr(a) = v else {
		return Err(Fail::new(format!("{ctx}:vector_layers-changed"), format!("{side} vector_layers is a {} and not an array", v.kind())));
	};
	let mut m = BTreeMap::new();
	for l in a {
		let id = match l {
			N::Obj(o) => match o.get("id") {
				Some(N::Str(id)) => id.clone(),
				_ => return Err(Fail::new(format!("{ctx}:vector_layers-changed"), format!("{side} vector layer without a string id: {}", show(l)))),
			},
			_ => return Err(Fail::new(format!("{ctx}:vector_layers-changed"), format!("{side} vector layer is a {}", l.kind()))),
		};
		if m.insert(id.clone(), l.clone()).is_some() {
			return Err(Fail::new(format!("{ctx}:vector_layers-changed"), format!("{side} vector_layers lists id {} twice", show_str(&id))));
		}
	}
	Ok(m)
}

fn check_zoom(ctx: &str, which: &str, doc: Option<&N>, out: Option<&N>, cov: &Coverage) -> Result<(), Fail> {
	let Some(out) = out else {
		ensure_prop!(doc.is_none(), format!("{ctx}:{which}-dropped"), "the document's {which} {} is missing from the returned TileJSON", show(doc.unwrap()));
		return Ok(());
	};
	let Some(o) = out.as_f64() else {
		fail!(format!("{ctx}:{which}-changed"), "returned {which} is a {} ({}), document had {:?}", out.kind(), show(out), doc.map(show));
	};
	let d = doc.and_then(|d| d.as_f64());
	// the allowed interval: from the document's value (or the unconstrained end) towards the coverage, never past it
	let (lo, hi) = if which == "minzoom" {
		let lo = d.unwrap_or(0.0);
		(lo, lo.max(cov.zmin as f64))
	} else {
		let hi = d.unwrap_or(255.0);
		(hi.min(cov.zmax as f64), hi)
	};
	let widened = if which == "minzoom" { o < lo } else { o > hi };
	ensure_prop!(!widened, format!("{ctx}:{which}-widened"), "returned {which} {o} widens the document's {:?} (stored levels {}..={})", d, cov.zmin, cov.zmax);
	ensure_prop!(
		o >= lo && o <= hi && o.fract() == 0.0,
		format!("{ctx}:{which}-not-narrowed-to-coverage"),
		"returned {which} {o}, document {:?}, stored levels {}..={}: allowed {lo}..={hi}",
		d,
		cov.zmin,
		cov.zmax
	);
	Ok(())
}

fn four(v: &N) -> Option<[f64; 4]> {
	match v {
		N::Arr(a) if a.len() == 4 => {
			let x: Vec<f64> = a.iter().filter_map(|n| n.as_f64()).filter(|x| x.is_finite()).collect();
			(x.len() == 4).then(|| [x[0], x[1], x[2], x[3]])
		}
		_ => None,
	}
}

fn check_bounds(ctx: &str, doc: Option<&N>, out: Option<&N>, cov: &Coverage) -> Result<(), Fail> {
	let Some(out) = out else {
		ensure_prop!(doc.is_none(), format!("{ctx}:bounds-dropped"), "the document's bounds {:?} are missing from the returned TileJSON", doc.and_then(four));
		return Ok(());
	};
	let Some(o) = four(out) else {
		fail!(format!("{ctx}:bounds-changed"), "returned bounds are not four finite numbers: {}", show(out));
	};
	let b = match doc {
		Some(d) => four(d).expect("generated bounds are four finite numbers"),
		None => [-180.0, -90.0, 180.0, 90.0],
	};
	// never widened: contained in the document's box
	let inside = o[0] >= b[0] - EPS_DOC && o[1] >= b[1] - EPS_DOC && o[2] <= b[2] + EPS_DOC && o[3] <= b[3] + EPS_DOC;
	ensure_prop!(inside, format!("{ctx}:bounds-widened"), "returned bounds {o:?} are not contained in the document's bounds {b:?} (document had bounds: {})", doc.is_some());
	// never narrowed past the coverage: every edge lies between the document's edge and the
	// coverage's edge (the most permissive level box, since "the coverage's box" may be taken from any level)
	let gw = cov.boxes.iter().map(|g| g[0]).fold(f64::MIN, f64::max);
	let gs = cov.boxes.iter().map(|g| g[1]).fold(f64::MIN, f64::max);
	let ge = cov.boxes.iter().map(|g| g[2]).fold(f64::MAX, f64::min);
	let gn = cov.boxes.iter().map(|g| g[3]).fold(f64::MAX, f64::min);
	let ok = o[0] <= b[0].max(gw) + EPS_COV && o[1] <= b[1].max(gs) + EPS_COV && o[2] >= b[2].min(ge) - EPS_COV && o[3] >= b[3].min(gn) - EPS_COV;
	ensure_prop!(ok, format!("{ctx}:bounds-not-narrowed-to-coverage"), "returned bounds {o:?} cut off more than the stored coverage does: document {b:?}, level boxes {:?}", cov.boxes);
	Ok(())
}

/// `got` must be the document `want`; with `cov` given, minzoom / maxzoom / bounds may be
/// narrowed towards the coverage. A `tilejson` version key may be added.
fn check_document(ctx: &str, want: &BTreeMap<String, N>, got: &N, cov: Option<&Coverage>) -> Result<(), Fail> {
	let N::Obj(got) = got else {
		fail!(format!("{ctx}:not-an-object"), "returned TileJSON is a {}", got.kind());
	};
	let narrowable = |k: &str| cov.is_some() && (k == "bounds" || k == "minzoom" || k == "maxzoom");
	for (k, w) in want {
		if narrowable(k) {
			continue;
		}
		let Some(g) = got.get(k) else {
			fail!(format!("{ctx}:key-dropped"), "key {} (a {}: {}) of the document is missing; returned keys: {}", show_str(k), w.kind(), show(w), show(&N::Obj(got.clone())));
		};
		if k == "vector_layers" {
			let a = layers_by_id(ctx, "document", w)?;
			let b = layers_by_id(ctx, "returned", g)?;
			if let Some(d) = diff("$.vector_layers", &N::Obj(a), &N::Obj(b)) {
				fail!(format!("{ctx}:vector_layers-changed"), "vector layers differ at {d}");
			}
		} else if let Some(d) = diff(&format!("$.{}", show_str(k)), w, g) {
			fail!(format!("{ctx}:value-changed"), "value differs at {d}");
		}
	}
	for (k, g) in got {
		if want.contains_key(k) || narrowable(k) {
			continue;
		}
		if k == "tilejson" {
			ensure_prop!(matches!(g, N::Str(_)), format!("{ctx}:key-added"), "added tilejson key is a {}", g.kind());
			continue;
		}
		fail!(format!("{ctx}:key-added"), "returned TileJSON has key {} = {} which the document does not have", show_str(k), show(g));
	}
	if let Some(cov) = cov {
		check_zoom(ctx, "minzoom", want.get("minzoom"), got.get("minzoom"), cov)?;
		check_zoom(ctx, "maxzoom", want.get("maxzoom"), got.get("maxzoom"), cov)?;
		check_bounds(ctx, want.get("bounds"), got.get("bounds"), cov)?;
	}
	Ok(())
}

fn parse_std(ctx: &str, what: &str, text: &str) -> Result<N, Fail> {
	match serde_json::from_str::<Value>(text) {
		Ok(v) => Ok(N::from_serde(&v)),
		Err(e) => Err(Fail::new(format!("{ctx}:output-not-json"), format!("{what} is not accepted by serde_json ({e}): {}", short(text)))),
	}
}

fn doc_labels(info: &DocInfo, d: &Doc, obs: &mut Obs) {
	obs.label(match info.keys {
		0 => "keys=0",
		1..=2 => "keys=1..2",
		3..=5 => "keys=3..5",
		_ => "keys>5",
	});
	obs.label_if(info.has_list, "doc:list-value");
	obs.label_if(info.has_layers, "doc:vector_layers");
	obs.label_if(d.bounds.is_some(), "doc:bounds");
	obs.label_if(d.center.is_some(), "doc:center");
	obs.label_if(d.minzoom.is_some() || d.maxzoom.is_some(), "doc:zoom");
	obs.label_if(info.want.contains_key("tilejson"), "doc:own-tilejson-key");
	obs.label_if(d.entries.iter().any(|(_, v)| matches!(v, Val::Byte(_))), "doc:byte-value");
	obs.label_if(d.entries.iter().any(|(_, v)| matches!(v, Val::List(l) if l.is_empty())), "doc:empty-list");
	let st = &info.stats;
	obs.label_if(st.control_c0 || st.del_c1, "str:control");
	obs.label_if(st.quote_backslash, "str:quote-or-backslash");
	obs.label_if(st.non_bmp, "str:non-bmp");
	obs.label_if(st.line_sep, "str:u2028-u2029");
	obs.nontrivial(info.keys >= 3 && (info.has_list || info.has_layers));
}

fn oracle_doc(d: &Doc, obs: &mut Obs) -> Result<(), Fail> {
	let info = doc_model(d);
	let tj = guard(|| TileJSON::try_from(info.text.as_str())).map_err(|p| Fail::from_panic(&format!("TileJSON::try_from({})", short(&info.text)), &p))?;
	let tj = match tj {
		Ok(t) => t,
		Err(e) => fail!("tilejson:document-rejected", "TileJSON::try_from rejects a document of the model: {} — {}", short(&info.text), short(&format!("{e:#}"))),
	};
	let out = guard(|| tj.as_string()).map_err(|p| Fail::from_panic("TileJSON::as_string", &p))?;
	let got = parse_std("tilejson", "TileJSON::as_string()", &out)?;
	check_document("tilejson", &info.want, &got, None)?;

	// stringify() is the documented synonym; as_object() is the structured form of the same thing
	let out2 = guard(|| tj.stringify()).map_err(|p| Fail::from_panic("TileJSON::stringify", &p))?;
	ensure_prop!(out2 == out, "tilejson:stringify-differs-from-as_string", "as_string {} vs stringify {}", short(&out), short(&out2));
	let obj = guard(|| N::from_own(&JsonValue::Object(tj.as_object()))).map_err(|p| Fail::from_panic("TileJSON::as_object", &p))?;
	if let Some(df) = diff("$", &got, &obj) {
		fail!("tilejson:as_object-differs-from-as_string", "as_object and as_string disagree at {df}");
	}

	// parsing the serialised document again gives an equal object
	let again = guard(|| TileJSON::try_from(out.as_str())).map_err(|p| Fail::from_panic(&format!("TileJSON::try_from({})", short(&out)), &p))?;
	let again = match again {
		Ok(t) => t,
		Err(e) => fail!("tilejson:own-output-rejected", "TileJSON::try_from rejects TileJSON::as_string output {} — {}", short(&out), short(&format!("{e:#}"))),
	};
	let out3 = guard(|| again.as_string()).map_err(|p| Fail::from_panic("TileJSON::as_string", &p))?;
	let got3 = parse_std("tilejson", "TileJSON::as_string() of the re-parsed document", &out3)?;
	if let Some(df) = diff("$", &got, &got3) {
		fail!("tilejson:second-round-trip-differs", "parse(as_string(doc)) re-serialises differently at {df}");
	}

	doc_labels(&info, d, obs);
	obs.label(if d.pretty { "text:pretty" } else { "text:compact" });
	obs.label_if(d.spell != 0, "text:respelled");
	obs.label_if(d.spell != 0 && (d.spell >> 2) % 3 == 2, "text:upper-case-hex-escapes");
	obs.label(match info.text.len() { 0..=4096 => "text<=4KiB", 4097..=8192 => "text:4-8KiB", _ => "text>8KiB" });
	obs.label_if(d.float_bytes, "text:bytes-spelled-as-floats");
	obs.count("text_bytes", info.text.len() as u64);
	Ok(())
}

fn fixed_docs() -> Vec<Doc> {
	let empty = Doc { entries: vec![], bounds: None, center: None, minzoom: None, maxzoom: None, layers: vec![], pretty: false, float_bytes: false, spell: 0 };
	let mut v = vec![empty.clone()];
	v.push(Doc {
		entries: vec![
			("tilejson".into(), Val::Str("2.2.0".into())),
			("name".into(), Val::Str("Straße \"A\" \\ 😀 \u{2028}\u{7f}\u{85}\u{0}".into())),
			("tiles".into(), Val::List(vec!["https://example.org/{z}/{x}/{y}".into(), "".into()])),
			("grids".into(), Val::List(vec![])),
			("fillzoom".into(), Val::Byte(255)),
			("".into(), Val::Byte(0)),
		],
		bounds: Some([-180.0, -85.05112877980659, 180.0, 85.05112877980659]),
		center: Some((13.404954, 52.520008, 30)),
		minzoom: Some(0),
		maxzoom: Some(14),
		layers: vec![
			Layer { id: "water".into(), fields: vec![("class".into(), "String".into())], description: Some("d".into()), minzoom: Some(0), maxzoom: Some(14) },
			Layer { id: "Äther 😀".into(), fields: vec![], description: None, minzoom: None, maxzoom: None },
			Layer { id: "a".into(), fields: vec![("".into(), "".into())], description: Some("".into()), minzoom: Some(30), maxzoom: Some(0) },
		],
		pretty: true,
		float_bytes: true,
		spell: 0,
	});
	// the same document in other spellings: white space runs that push it beyond 4 and 8 KiB,
	// lower- and upper-case hex escapes
	let rich = v[1].clone();
	for spell in [1u32, 2, 3, 6, 10, 5, 9, 14, 22, 26, 102, 1002, 70002] {
		v.push(Doc { spell, ..rich.clone() });
	}
	for k in RESERVED.iter().chain(["tilejson", "tiles", "name"].iter()) {
		// the structured keys next to look-alikes
		v.push(Doc { entries: vec![(format!("{k} "), Val::Str("x".into())), (k.to_uppercase(), Val::Byte(7))], ..empty.clone() });
	}
	v
}

// =======================================================================================
// phase (c): containers
// =======================================================================================

#[derive(Clone, Copy, Debug, PartialEq, Eq, Serialize, Deserialize)]
enum Target {
	Versatiles,
	Pmtiles,
	Tar,
	Directory,
}

impl Target {
	const ALL: [Target; 4] = [Target::Versatiles, Target::Pmtiles, Target::Tar, Target::Directory];
	fn name(self) -> &'static str {
		match self {
			Target::Versatiles => "versatiles",
			Target::Pmtiles => "pmtiles",
			Target::Tar => "tar",
			Target::Directory => "directory",
		}
	}
	/// a fresh absolute path of this kind (directories are created, as the writer selects the
	/// directory layout for existing directories)
	fn fresh(self) -> TmpGuard {
		TmpGuard(match self {
			Target::Versatiles => tmp_path(".versatiles"),
			Target::Pmtiles => tmp_path(".pmtiles"),
			Target::Tar => tmp_path(".tar"),
			Target::Directory => tmp_dir(),
		})
	}
}

#[derive(Clone, Debug, Serialize, Deserialize)]
struct Lvl {
	z: u8,
	x: u32,
	y: u32,
	w: u8,
	h: u8,
}

#[derive(Clone, Debug, Serialize, Deserialize)]
struct CCase {
	doc: Doc,
	target: Target,
	comp: Comp,
	png: bool,
	levels: Vec<Lvl>,
	/// convert the written container once more into this target and look at the result, too
	chain: Option<Target>,
}

fn ccase(max_entries: usize) -> BoxedStrategy<CCase> {
	let lvl = (prop_oneof![3 => 0u8..=4, 3 => 5u8..=10], any::<u32>(), any::<u32>(), 1u8..=3, 1u8..=3).prop_map(|(z, x, y, w, h)| {
		let n = 1u64 << z;
		Lvl { z, x: (x as u64 % n) as u32, y: (y as u64 % n) as u32, w, h }
	});
	(
		doc(max_entries),
		select(Target::ALL.to_vec()),
		select(Comp::ALL.to_vec()),
		any::<bool>(),
		vec(lvl, 1..=3),
		proptest::option::weighted(0.3, select(Target::ALL.to_vec())),
		proptest::bool::weighted(0.4),
	)
		.prop_map(|(doc, target, comp, png, mut levels, chain, align)| {
			// independent boxes rarely overlap: now and then put the tiles onto the north-west
			// corner of the document's bounds, so that the coverage cuts the bounds
			if let (true, Some(b)) = (align, doc.bounds) {
				for l in levels.iter_mut() {
					let max = ((1u64 << l.z) - 1) as f64;
					l.x = georef::tx(b[0], l.z).floor().clamp(0.0, max) as u32;
					l.y = georef::ty(b[3].clamp(-85.0, 85.0), l.z).floor().clamp(0.0, max) as u32;
				}
			}
			CCase { doc, target, comp, png, levels, chain: chain.filter(|c| *c != target) }
		})
		.boxed()
}

fn tile_set(c: &CCase, text: &str) -> SetSpec {
	let mut levels: Vec<LevelSpec> = vec![];
	for l in &c.levels {
		let z = l.z.min(12);
		if levels.iter().any(|x| x.z == z) {
			continue;
		}
		levels.push(LevelSpec { z, x0: l.x, y0: l.y, w: l.w.clamp(1, 4) as u32, h: l.h.clamp(1, 4) as u32, shape: Shape::Dense, seed: 0 });
	}
	SetSpec {
		tag: "c17".into(),
		levels,
		pay: Pay::CoordText,
		format: if c.png { Fmt::Png } else { Fmt::Pbf },
		comp: c.comp,
		really_compressed: true,
		advert: Advert::Tight,
		meta: Some(text.to_string()),
	}
}

fn open_and_check(target: Target, path: &std::path::Path, what: &str, want: &BTreeMap<String, N>, cov: &Coverage) -> Result<Box<dyn versatiles_core::types::TilesReaderTrait>, Fail> {
	let p = path.to_str().expect("utf-8 temp path").to_string();
	let reader = guard(|| block_on(versatiles_container::get_reader(&p))).map_err(|p| Fail::from_panic(&format!("opening {what}"), &p))?;
	let reader = match reader {
		Ok(r) => r,
		Err(e) => fail!("container:open-failed", "{what}: get_reader fails on the container just written: {}", short(&format!("{e:#}"))),
	};
	let text = guard(|| reader.get_tilejson().as_string()).map_err(|p| Fail::from_panic("get_tilejson().as_string()", &p))?;
	let got = parse_std("container", &format!("{what}: get_tilejson().as_string()"), &text)?;
	check_document("container", want, &got, Some(cov)).map_err(|f| Fail::new(f.sig, format!("{what} ({}): {}", target.name(), f.what)))?;
	Ok(reader)
}

fn oracle_container(c: &CCase, obs: &mut Obs) -> Result<(), Fail> {
	let info = doc_model(&c.doc);
	let spec = tile_set(c, &info.text);
	let set = spec.materialise();
	let boxes = set.all_boxes();
	let cov = Coverage {
		zmin: *boxes.keys().next().expect("at least one level"),
		zmax: *boxes.keys().next_back().expect("at least one level"),
		boxes: boxes.iter().map(|(z, b)| [georef::lon(b.0 as f64, *z), georef::lat(b.3 as f64 + 1.0, *z), georef::lon(b.2 as f64 + 1.0, *z), georef::lat(b.1 as f64, *z)]).collect(),
	};

	let mut source = MemReader::new(&set, "c17");
	let first = c.target.fresh();
	let p = first.0.to_str().expect("utf-8 temp path").to_string();
	let what = format!("{}/{}", c.target.name(), c.comp.name());
	let r = guard(|| block_on(versatiles_container::write_to_filename(&mut source, &p))).map_err(|p| Fail::from_panic(&format!("writing {what}"), &p))?;
	if let Err(e) = r {
		fail!("container:write-failed", "{what}: write_to_filename fails: {}", short(&format!("{e:#}")));
	}
	let mut reader = open_and_check(c.target, &first.0, &what, &info.want, &cov)?;

	if let Some(second_target) = c.chain {
		let second = second_target.fresh();
		let p2 = second.0.to_str().expect("utf-8 temp path").to_string();
		let what2 = format!("{what} -> {}", second_target.name());
		let r = guard(|| block_on(versatiles_container::write_to_filename(&mut *reader, &p2))).map_err(|p| Fail::from_panic(&format!("writing {what2}"), &p))?;
		if let Err(e) = r {
			fail!("container:write-failed", "{what2}: write_to_filename fails: {}", short(&format!("{e:#}")));
		}
		drop(reader);
		open_and_check(second_target, &second.0, &what2, &info.want, &cov)?;
		obs.label(format!("chain:{}->{}", c.target.name(), second_target.name()));
		obs.count("round_trips", 2);
	} else {
		obs.count("round_trips", 1);
	}

	obs.label(format!("{}x{}", c.target.name(), c.comp.name()));
	obs.label(format!("levels={}", boxes.len()));
	doc_labels(&info, &c.doc, obs);
	if let Some(b) = c.doc.bounds {
		// how the document's bounds relate to the coverage of the highest level (what the repository uses)
		let g = cov.boxes.last().unwrap();
		let disjoint = b[2] < g[0] || b[0] > g[2] || b[3] < g[1] || b[1] > g[3];
		let contains = b[0] <= g[0] && b[1] <= g[1] && b[2] >= g[2] && b[3] >= g[3];
		obs.label(if disjoint {
			"bounds:disjoint-from-coverage"
		} else if contains {
			"bounds:contain-coverage"
		} else {
			"bounds:cut-coverage"
		});
	}
	if let Some(z) = c.doc.minzoom {
		obs.label(if z < cov.zmin { "minzoom:below-coverage" } else { "minzoom:at-or-above-coverage" });
	}
	if let Some(z) = c.doc.maxzoom {
		obs.label(if z > cov.zmax { "maxzoom:above-coverage" } else { "maxzoom:at-or-below-coverage" });
	}
	obs.count("tiles", set.tiles.len() as u64);
	Ok(())
}

/// every target x compression once with a fixed rich document, plus every ordered pair as a chain
fn fixed_containers() -> Vec<CCase> {
	let rich = fixed_docs().remove(1);
	let mut v = vec![];
	for t in Target::ALL {
		for comp in Comp::ALL {
			v.push(CCase { doc: rich.clone(), target: t, comp, png: false, levels: vec![Lvl { z: 1, x: 0, y: 0, w: 1, h: 1 }, Lvl { z: 3, x: 2, y: 3, w: 2, h: 2 }], chain: None });
		}
		for t2 in Target::ALL {
			if t2 != t {
				v.push(CCase { doc: rich.clone(), target: t, comp: Comp::Gzip, png: true, levels: vec![Lvl { z: 2, x: 1, y: 1, w: 2, h: 1 }], chain: Some(t2) });
			}
		}
		// a document whose bounds and zoom range are smaller than / cut by / disjoint from the coverage
		for (bounds, minzoom, maxzoom) in [([1.0, 1.0, 10.0, 10.0], 2, 2), ([-20.0, -20.0, 20.0, 20.0], 0, 9), ([-170.0, -80.0, -160.0, -70.0], 5, 1)] {
			let doc = Doc { bounds: Some(bounds), minzoom: Some(minzoom), maxzoom: Some(maxzoom), ..rich.clone() };
			v.push(CCase { doc, target: t, comp: Comp::None, png: false, levels: vec![Lvl { z: 1, x: 1, y: 0, w: 1, h: 2 }, Lvl { z: 3, x: 4, y: 3, w: 2, h: 2 }], chain: None });
		}
	}
	v
}

// =======================================================================================
// served tiles.json
// =======================================================================================

// The statement's last sentence: the tiles.json served for a source is valid JSON carrying the
// metadata plus a tiles URL template and bounds/zoom consistent with the coverage. Observed at
// the `versatiles serve` binary over raw HTTP (`vt::server`).

#[derive(Clone, Debug, Serialize, Deserialize)]
struct SSource {
	c: CCase,
	/// None = the repository's writer, Some(seed) = the harness's independent encoder (the
	/// document's text is stored verbatim)
	enc: Option<u32>,
	/// 0 `path[id]`, 1 `[id]path`, 2 `path#id`, 3 derived from the file name
	id_style: u8,
	id: u8,
	/// Accept-Encoding of the two requests
	accept: u8,
}

#[derive(Clone, Debug, Serialize, Deserialize)]
struct SCase {
	sources: Vec<SSource>,
	fast: bool,
}

const SERVED_IDS: [&str; 5] = ["a", "osm", "my.id", "x-y_z", "T"];
const SERVED_ACCEPT: [Option<&str>; 4] = [None, Some("gzip"), Some("br"), Some("gzip, deflate, br")];

fn scase(max_entries: usize) -> BoxedStrategy<SCase> {
	let src = (ccase(max_entries), proptest::option::weighted(0.4, any::<u32>()), 0u8..4, 0u8..SERVED_IDS.len() as u8, 0u8..SERVED_ACCEPT.len() as u8).prop_map(|(c, enc, id_style, id, accept)| SSource { c, enc, id_style, id, accept });
	(vec(src, 1..=3), any::<bool>()).prop_map(|(sources, fast)| SCase { sources, fast }).boxed()
}

/// The set written by the harness's independent encoder (layout features from the seed), always
/// with its metadata document stored verbatim and with a tight advertised coverage (a versatiles
/// block index may advertise more than the tiles it holds; then the coverage the server narrows
/// to would not be the one of the generated set).
fn encode_with_document(set: &vt::model::TileSet, t: Target, seed: u32) -> Result<std::path::PathBuf, Fail> {
	use vt::{codec, sources};
	let g = t.fresh();
	let path = g.0.clone();
	std::mem::forget(g); // the caller guards the path
	let r: Result<(), String> = match t {
		Target::Versatiles => std::fs::write(&path, codec::versatiles::encode(set, &codec::versatiles::Layout { with_meta: true, tight_blocks: true, widen: 0, ..sources::layout_versatiles(seed) })).map_err(|e| e.to_string()),
		Target::Pmtiles => std::fs::write(&path, codec::pmtiles::encode(set, &codec::pmtiles::Layout { with_meta: true, ..sources::layout_pmtiles(seed) }).0).map_err(|e| e.to_string()),
		Target::Tar => {
			let l = sources::layout_tar(seed);
			std::fs::write(&path, codec::tar::encode(set, &codec::tar::Layout { meta_pos: l.meta_pos % 3, ..l })).map_err(|e| e.to_string())
		}
		Target::Directory => {
			let l = sources::layout_dir(seed);
			codec::dir::encode(set, &codec::dir::Layout { meta_name: l.meta_name % 3, ..l }, &path)
		}
	};
	r.map_err(|e| Fail::new("harness:encode", format!("harness encoder failed: {e}")))?;
	Ok(path)
}

fn oracle_served(case: &SCase, obs: &mut Obs) -> Result<(), Fail> {
	use vt::server::{Exchange, Server};
	struct Built {
		id: String,
		info: DocInfo,
		cov: Coverage,
		what: String,
	}
	let mut guards: Vec<TmpGuard> = vec![];
	let mut built: Vec<Built> = vec![];
	let mut args: Vec<String> = vec![];
	if case.fast {
		args.push("--fast".into());
	}
	for (i, s) in case.sources.iter().enumerate() {
		let c = &s.c;
		let info = doc_model(&c.doc);
		let spec = tile_set(c, &info.text);
		let set = spec.materialise();
		let boxes = set.all_boxes();
		let cov = Coverage {
			zmin: *boxes.keys().next().expect("at least one level"),
			zmax: *boxes.keys().next_back().expect("at least one level"),
			boxes: boxes.iter().map(|(z, b)| [georef::lon(b.0 as f64, *z), georef::lat(b.3 as f64 + 1.0, *z), georef::lon(b.2 as f64 + 1.0, *z), georef::lat(b.1 as f64, *z)]).collect(),
		};
		let what = format!("{}/{}/{}", c.target.name(), c.comp.name(), if s.enc.is_some() { "harness-encoder" } else { "repo-writer" });
		let path = match s.enc {
			None => {
				let g = c.target.fresh();
				let p = g.0.to_str().expect("utf-8 temp path").to_string();
				let mut source = MemReader::new(&set, "c17");
				let r = guard(|| block_on(versatiles_container::write_to_filename(&mut source, &p))).map_err(|p| Fail::from_panic(&format!("writing {what}"), &p))?;
				if let Err(e) = r {
					fail!("container:write-failed", "{what}: write_to_filename fails: {}", short(&format!("{e:#}")));
				}
				let path = g.0.clone();
				guards.push(g);
				path
			}
			Some(seed) => {
				let path = encode_with_document(&set, c.target, seed)?;
				guards.push(TmpGuard(path.clone()));
				path
			}
		};
		let p = path.to_str().expect("utf-8 temp path").to_string();
		let explicit = format!("{}{}", SERVED_IDS[s.id as usize % SERVED_IDS.len()], i);
		let (arg, id) = match s.id_style % 4 {
			0 => (format!("{p}[{explicit}]"), explicit),
			1 => (format!("[{explicit}]{p}"), explicit),
			2 => (format!("{p}#{explicit}"), explicit),
			_ => (p.clone(), path.file_name().unwrap().to_str().unwrap().split('.').next().unwrap().to_string()),
		};
		args.push(arg);
		built.push(Built { id, info, cov, what });
	}
	let mut server = Server::start(&args);

	for (s, b) in case.sources.iter().zip(&built) {
		let hdr: Vec<(&str, &str)> = match SERVED_ACCEPT[s.accept as usize % SERVED_ACCEPT.len()] {
			Some(v) => vec![("Accept-Encoding", v)],
			None => vec![],
		};
		for name in ["tiles.json", "meta.json"] {
			let target = format!("/tiles/{}/{name}", b.id);
			let ctx = format!("{} GET {target}", b.what);
			let resp = match server.get(&target, &hdr) {
				Exchange::Response(r) => r,
				Exchange::Dropped(e) => fail!("served:connection-dropped", "{ctx}: no complete HTTP response ({e}); the server still answers /status"),
			};
			ensure_prop!(resp.status == 200, "served:status", "{ctx}: status {} instead of 200; {}", resp.status, resp.summary());
			let body = resp.decoded_body().map_err(|e| Fail::new("served:output-not-json", format!("{ctx}: body does not decode per Content-Encoding: {e}")))?;
			let text = String::from_utf8(body).map_err(|_| Fail::new("served:output-not-json", format!("{ctx}: body is not UTF-8")))?;
			let got = parse_std("served", &ctx, &text)?;
			let N::Obj(mut got) = got else {
				fail!("served:not-an-object", "{ctx}: the served document is a {}", got.kind());
			};
			// the URL template
			let prefix = format!("/tiles/{}/", b.id);
			match got.remove("tiles") {
				Some(N::Arr(list)) if !list.is_empty() => {
					for t in &list {
						let N::Str(t) = t else {
							fail!("served:tiles-template", "{ctx}: an entry of `tiles` is a {}", t.kind());
						};
						ensure_prop!(t.starts_with(&prefix) && t.contains("{z}") && t.contains("{x}") && t.contains("{y}"), "served:tiles-template", "{ctx}: tiles entry {} does not start with {prefix} or lacks {{z}}/{{x}}/{{y}}", show_str(t));
					}
				}
				other => fail!("served:tiles-template", "{ctx}: `tiles` is {} instead of a non-empty list", other.as_ref().map(show).unwrap_or("missing".into())),
			}
			// the server sets type, name and format itself: their values may differ from the
			// document's, the keys must be there if the document had them
			let mut want = b.info.want.clone();
			want.remove("tiles");
			for k in ["type", "name", "format"] {
				let had = want.remove(k).is_some();
				let has = got.remove(k).is_some();
				ensure_prop!(has || !had, "served:key-dropped", "{ctx}: key {k} of the document is missing from the served document");
			}
			// every other key of the document unchanged; bounds / minzoom / maxzoom only narrowed
			// towards the coverage. Keys the server adds on its own are not the statement's concern
			// ("carries this metadata plus …"): they are left out of the comparison.
			got.retain(|k, _| want.contains_key(k) || k == "bounds" || k == "minzoom" || k == "maxzoom");
			let got = N::Obj(got);
			check_document("served", &want, &got, Some(&b.cov)).map_err(|f| Fail::new(f.sig, format!("{ctx}: {}", f.what)))?;
			// zoom range and bounds consistent with the coverage
			let N::Obj(g) = &got else { unreachable!() };
			let zmin = g.get("minzoom").and_then(|v| v.as_f64());
			let zmax = g.get("maxzoom").and_then(|v| v.as_f64());
			let (Some(zmin), Some(zmax)) = (zmin, zmax) else {
				fail!("served:zoom-missing", "{ctx}: served document has minzoom {:?}, maxzoom {:?}", g.get("minzoom").map(show), g.get("maxzoom").map(show));
			};
			// a document whose own range lies beyond the stored levels cannot be narrowed into them
			let doc_min = want.get("minzoom").and_then(|v| v.as_f64()).unwrap_or(0.0);
			let doc_max = want.get("maxzoom").and_then(|v| v.as_f64()).unwrap_or(255.0);
			ensure_prop!(
				zmin >= b.cov.zmin as f64 && zmin <= (b.cov.zmax as f64).max(doc_min) && zmax <= b.cov.zmax as f64 && zmax >= (b.cov.zmin as f64).min(doc_max),
				"served:zoom-outside-coverage",
				"{ctx}: served zoom range {zmin}..={zmax}, stored levels {}..={}, document {:?}..={:?}",
				b.cov.zmin,
				b.cov.zmax,
				want.get("minzoom").map(show),
				want.get("maxzoom").map(show)
			);
			let Some(o) = g.get("bounds").and_then(four) else {
				fail!("served:bounds-missing", "{ctx}: served document has bounds {:?}", g.get("bounds").map(show));
			};
			// inside the hull of the stored levels' geographic boxes (containment in the document's
			// bounds is part of check_document)
			let hw = b.cov.boxes.iter().map(|g| g[0]).fold(f64::MAX, f64::min);
			let hs = b.cov.boxes.iter().map(|g| g[1]).fold(f64::MAX, f64::min);
			let he = b.cov.boxes.iter().map(|g| g[2]).fold(f64::MIN, f64::max);
			let hn = b.cov.boxes.iter().map(|g| g[3]).fold(f64::MIN, f64::max);
			let eps = 1e-9;
			ensure_prop!(o[0] >= hw - eps && o[1] >= hs - eps && o[2] <= he + eps && o[3] <= hn + eps, "served:bounds-outside-coverage", "{ctx}: served bounds {o:?} are not contained in the stored coverage [{hw}, {hs}, {he}, {hn}]");
		}
		obs.label(format!("served:{}", b.what));
		obs.label(match s.id_style % 4 {
			3 => "id:derived",
			_ => "id:explicit",
		});
		doc_labels(&b.info, &s.c.doc, obs);
		obs.count("documents_served", 2);
	}
	obs.label(format!("sources={}", built.len()));
	Ok(())
}

fn fixed_served() -> Vec<SCase> {
	let mut sources = vec![];
	for (i, c) in fixed_containers().into_iter().enumerate() {
		if c.chain.is_some() {
			continue;
		}
		sources.push(SSource { c, enc: if i % 3 == 2 { Some(i as u32) } else { None }, id_style: (i % 4) as u8, id: (i % 5) as u8, accept: (i % 4) as u8 });
	}
	sources.chunks(3).enumerate().map(|(i, s)| SCase { sources: s.to_vec(), fast: i % 2 == 1 }).collect()
}

fn server_phase(check: &mut Check) {
	let workers = check.workers;
	check.workers = workers.min(6);
	let thorough = check.cases(0, 1) == 1;
	let max_entries = if thorough { 16 } else { 8 };
	let reg: Vec<SCase> = check.regression_cases("served");
	check.enumerate("served-regressions", reg, false, oracle_served);
	check.enumerate("served-fixed", fixed_served(), false, oracle_served);
	check.phase("served", check.cases(400, 12_000), || scase(max_entries), oracle_served);
	check.workers = workers;
}

fn main() {
	let mut check = Check::from_args(
		"C17",
		"exploration",
		"(a) proptest JSON value trees (depth <= 6 quick / <= 16 thorough; strings over all of Unicode biased to quotes, backslashes, C0/C1 controls, DEL, U+2028/9, surrogate-adjacent, non-characters and non-BMP code points; finite f64 incl. +-0, subnormals, 1e+-308, integers beyond 2^53, exponents >= 21, tiny fractions) -> stringify -> parse_json_str and serde_json; non-trivial = the value contains a character that needs escaping (quote, backslash, control) or lies outside the BMP, or a number >= 1e21. (b) TileJSON documents of the type's domain (string/list/byte values under arbitrary keys, bounds, center, byte zooms, vector layers with fields) -> TileJSON::try_from -> as_string; (c) the same documents written through the versatiles/pmtiles/tar/directory writers x 3 compressions and read back, some converted once more into a second target; (d) 1-3 such containers (repository writer or harness encoder) served by one `versatiles serve` process (best / --fast, four id syntaxes, four Accept-Encoding headers): GET /tiles/<id>/tiles.json and meta.json; non-trivial for (b),(c),(d) = document with >= 3 keys including a list value or vector_layers; distinct = distinct serialised cases",
	);
	check.assume("serde_json 1.0 with float_roundtrip is the standard JSON parser; numbers are compared through their f64 value (so -0 equals 0)");
	check.assume("TileJSON documents enter as text spelled by serde_json (control characters as \\u00XX escapes, everything else literal UTF-8); vector layers are compared as a set keyed by id because the TileJSON type keys them by id; an empty vector_layers array, non-integer bytes and nested values under free keys are outside the type's domain and are not generated");
	check.assume("coverage = the levels and tight tile boxes of the generated set; an edge of the returned bounds may lie anywhere between the document's edge and the nearest such edge of any stored level's geographic box (tolerance 1e-6 degrees), the document's own box is a hard limit (tolerance 1e-9)");
	check.assume("served tiles.json / meta.json: observed at the `versatiles serve` binary built from the working tree over raw HTTP; the server sets `type`, `name`, `format` and `tiles` itself, so only the presence of these keys is compared; zoom range must lie within the stored levels (unless the document's own range lies beyond them), bounds within the document's bounds and the hull of the stored levels' geographic boxes (1e-9 degrees)");
	vt::engine::watchdog(3600);

	let thorough = check.cases(0, 1) == 1;
	let (depth, size, width, maxstr, rep) = if thorough { (16, 160, 10, 24, 3000) } else { (6, 48, 6, 12, 2000) };

	// (a)
	let reg: Vec<J> = check.regression_cases("json-values");
	check.enumerate("json-values-regressions", reg, false, oracle_value);
	check.enumerate("json-values-fixed", fixed_values(), false, oracle_value);
	check.phase("json-values", check.cases(600_000, 12_000_000), || jvalue(depth, size, width, maxstr, rep), oracle_value);

	// (b)
	let max_entries = if thorough { 16 } else { 8 };
	let reg: Vec<Doc> = check.regression_cases("tilejson-docs");
	check.enumerate("tilejson-docs-regressions", reg, false, oracle_doc);
	check.enumerate("tilejson-docs-fixed", fixed_docs(), false, oracle_doc);
	check.phase("tilejson-docs", check.cases(60_000, 1_500_000), || doc(max_entries), oracle_doc);

	// (c)
	let reg: Vec<CCase> = check.regression_cases("containers");
	check.enumerate("containers-regressions", reg, false, oracle_container);
	check.enumerate("containers-fixed", fixed_containers(), false, oracle_container);
	check.phase("containers", check.cases(6000, 150_000), || ccase(max_entries), oracle_container);

	server_phase(&mut check);
	check.finish();
}

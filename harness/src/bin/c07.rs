//! C07 — static file serving never leaves the configured root.
//!
//! One case = one `versatiles serve -s <root>` process (folder or tar root, optional URL prefix)
//! inside a sandbox directory that also holds canary files (parents, siblings, a sibling whose
//! name has the root's name as a string prefix; same file names as inside), plus 1–299 raw
//! request targets.

use proptest::collection::vec;
use proptest::prelude::*;
use serde::{Deserialize, Serialize};
use std::collections::{BTreeMap, BTreeSet};
use std::path::PathBuf;
use vt::engine::{Check, Fail, Obs};
use vt::server::{Exchange, Server};
use vt::util::{self, pick, TmpGuard};
use vt::{ensure_prop, fail};

// ---------------------------------------------------------------------------------------
// case
// ---------------------------------------------------------------------------------------

const ROOT_NAMES: [&str; 3] = ["root", "www", "r"];
const DIRS: [&str; 5] = ["", "sub", "sub/deep", "css", "sub/deep/er"];
const NAMES: [&str; 7] = ["a.txt", "index.html", "b.json", "c.css", "d", "e.bin", "f.html"];
const PREFIXES: [&str; 4] = ["assets", "a/b", "p", "static/v1"];
/// spellings used in place of `..` (index 0 is the real thing)
const DOTS: [&str; 10] = ["..", "%2e%2e", "%2E%2E", ".%2e", "%2e.", "%252e%252e", "..;", "...", "%c0%ae%c0%ae", "..%00"];
/// encoded separators glued to a `..`
const GLUED: [&str; 4] = ["..%2f", "..%2F", "..%5c", "%2e%2e%2f"];
const SEPS: [&str; 3] = ["/", "//", "/./"];
/// odd but NUL-free segments; the last three contain bytes no URI may contain (the HTTP layer
/// itself answers 400 for some of them)
const ODD: [&str; 12] = ["a;b", "a\\b", "..\\..", "~", "a:b", "$&+,=@!()*'", "{x}", "a|b", "a^b", "a<b>", "a b", "ä€"];
const ACCEPT: [Option<&str>; 6] = [None, Some("gzip"), Some("br"), Some("gzip, br"), Some("identity"), Some("br;q=0.5, gzip;q=1.0, deflate")];

#[derive(Clone, Debug, Serialize, Deserialize, PartialEq, Eq)]
struct FileSpec {
	dir: u8,
	name: u8,
	/// 0 plain, 1 plain + .br, 2 plain + .gz, 3 only .br, 4 only .gz, 5 all three
	variant: u8,
}

#[derive(Clone, Debug, Serialize, Deserialize, PartialEq, Eq)]
enum Kind {
	Folder,
	/// tar built from the same tree; packed: 0 `.tar`, 1 `.tar.gz`, 2 `.tar.br`
	Tar { dot_slash: bool, dir_members: bool, packed: u8 },
}

#[derive(Clone, Debug, Serialize, Deserialize, PartialEq, Eq)]
enum Seg {
	/// index into the name pool (inside dir / file names, canary names, root / sibling names)
	Name(u8),
	Dot,
	DotDot,
	Empty,
	Dots(u8),
	Glued(u8),
	Long(u16),
	Odd(u8),
}

#[derive(Clone, Debug, Serialize, Deserialize, PartialEq, Eq)]
enum Tgt {
	/// the path of a known file as seen from the root (`outside`: a canary, addressed by its
	/// path relative to the directory it lies in … i.e. by name, as if it were inside)
	Plain { outside: bool, file: u16, drop_ext: bool, as_dir: u8 },
	/// go `down` directories into the root, then `ups` times up, then to a known file
	/// (`as_dir`: 0 the file itself, 1 the directory holding it without / 2 with a trailing slash —
	/// every canary directory holds an `index.html`)
	Climb {
		down: u8,
		ups: u8,
		outside: bool,
		file: u16,
		dots: u8,
		sep: u8,
		#[serde(default)]
		as_dir: u8,
	},
	/// `slashes` slashes followed by the absolute path of a known file (or its directory, see `as_dir`)
	Abs {
		outside: bool,
		file: u16,
		slashes: u8,
		lead: u8,
		#[serde(default)]
		as_dir: u8,
	},
	/// `slashes` slashes, the absolute path of the root spelled as ordinary segments, then a climb
	/// as in `Climb` (always aimed at a canary)
	AbsClimb {
		slashes: u8,
		down: u8,
		ups: u8,
		file: u16,
		dots: u8,
		as_dir: u8,
	},
	Segs(Vec<Seg>, bool),
}

#[derive(Clone, Debug, Serialize, Deserialize, PartialEq, Eq)]
struct Req {
	tgt: Tgt,
	/// 0 = with the configured prefix, 1 = without, 2 = with a prefix that is not configured
	pfx: u8,
	accept: u8,
}

#[derive(Clone, Debug, Serialize, Deserialize, PartialEq, Eq)]
struct Case {
	root_name: u8,
	kind: Kind,
	files: Vec<FileSpec>,
	/// (index into PREFIXES, syntax: 0 `[/p]path`, 1 `path[/p]`, 2 `[p]path`, 3 `[/p/]path`)
	prefix: Option<(u8, u8)>,
	fast: bool,
	requests: Vec<Req>,
}

fn file_spec() -> impl Strategy<Value = FileSpec> {
	(prop_oneof![3 => Just(0u8), 3 => Just(1u8), 2 => Just(2u8), 1 => Just(3u8), 1 => Just(4u8)], 0u8..NAMES.len() as u8, prop_oneof![5 => Just(0u8), 1 => Just(1u8), 1 => Just(2u8), 1 => Just(3u8), 1 => Just(4u8), 1 => Just(5u8)])
		.prop_map(|(dir, name, variant)| FileSpec { dir, name, variant })
}

fn seg() -> impl Strategy<Value = Seg> {
	prop_oneof![
		10 => any::<u8>().prop_map(Seg::Name),
		2 => Just(Seg::Dot),
		6 => Just(Seg::DotDot),
		2 => Just(Seg::Empty),
		3 => (1u8..DOTS.len() as u8).prop_map(Seg::Dots),
		1 => (0u8..GLUED.len() as u8).prop_map(Seg::Glued),
		1 => prop_oneof![Just(255u16), Just(256u16), 300u16..3000].prop_map(Seg::Long),
		2 => (0u8..ODD.len() as u8).prop_map(Seg::Odd),
	]
}

fn as_dir() -> impl Strategy<Value = u8> {
	prop_oneof![5 => Just(0u8), 3 => Just(1u8), 2 => Just(2u8)]
}

/// the path of a known file, or of the directory holding it
fn file_or_dir(path: &str, as_dir: u8) -> String {
	match (as_dir % 3, path.rsplit_once('/')) {
		(1, Some((d, _))) => d.to_string(),
		(2, Some((d, _))) => format!("{d}/"),
		_ => path.to_string(),
	}
}

fn tgt() -> impl Strategy<Value = Tgt> {
	prop_oneof![
		3 => (any::<bool>(), any::<u16>(), any::<bool>(), 0u8..3).prop_map(|(outside, file, drop_ext, as_dir)| Tgt::Plain { outside, file, drop_ext, as_dir }),
		8 => (0u8..4, 1u8..5, prop::bool::weighted(0.7), any::<u16>(), prop_oneof![6 => Just(0u8), 4 => 1u8..DOTS.len() as u8], prop_oneof![4 => Just(0u8), 1 => Just(1u8), 1 => Just(2u8)], as_dir())
			.prop_map(|(down, ups, outside, file, dots, sep, as_dir)| Tgt::Climb { down, ups, outside, file, dots, sep, as_dir }),
		5 => (prop::bool::weighted(0.7), any::<u16>(), 2u8..5, 0u8..3, as_dir()).prop_map(|(outside, file, slashes, lead, as_dir)| Tgt::Abs { outside, file, slashes, lead, as_dir }),
		3 => (2u8..5, 0u8..4, 1u8..5, any::<u16>(), prop_oneof![6 => Just(0u8), 2 => 1u8..DOTS.len() as u8], as_dir()).prop_map(|(slashes, down, ups, file, dots, as_dir)| Tgt::AbsClimb { slashes, down, ups, file, dots, as_dir }),
		6 => (vec(seg(), 1..7), any::<bool>()).prop_map(|(s, t)| Tgt::Segs(s, t)),
	]
}

fn req() -> impl Strategy<Value = Req> {
	(tgt(), prop_oneof![8 => Just(0u8), 2 => Just(1u8), 1 => Just(2u8)], 0u8..ACCEPT.len() as u8).prop_map(|(tgt, pfx, accept)| Req { tgt, pfx, accept })
}

fn strategy() -> impl Strategy<Value = Case> {
	(
		0u8..ROOT_NAMES.len() as u8,
		prop_oneof![
			3 => Just(Kind::Folder),
			2 => (any::<bool>(), any::<bool>(), prop_oneof![3 => Just(0u8), 1 => Just(1u8), 1 => Just(2u8)]).prop_map(|(dot_slash, dir_members, packed)| Kind::Tar { dot_slash, dir_members, packed }),
		],
		vec(file_spec(), 2..12),
		proptest::option::weighted(0.5, (0u8..PREFIXES.len() as u8, 0u8..4)),
		any::<bool>(),
		vec(req(), 1..300),
	)
		.prop_map(|(root_name, kind, files, prefix, fast, requests)| Case { root_name, kind, files, prefix, fast, requests })
}

// ---------------------------------------------------------------------------------------
// the world of a case: files inside the root, canaries outside
// ---------------------------------------------------------------------------------------

struct KFile {
	/// absolute path (for a tar root: the path the member would have if the tree were unpacked
	/// where the folder root lies)
	abs: String,
	/// path relative to the root (inside) / to the directory the canary tree mirrors (outside)
	rel: String,
}

struct World {
	root_abs: String,
	/// what is passed to `--static`
	root_arg: String,
	inside: Vec<KFile>,
	canaries: Vec<KFile>,
	/// every byte string the server may return with status 200 -> description
	inside_contents: BTreeMap<Vec<u8>, String>,
	canary_contents: BTreeMap<Vec<u8>, String>,
	/// absolute paths of all known files (inside: true)
	known: BTreeMap<String, bool>,
	/// absolute paths of everything that exists inside the root: files (also without their
	/// .br/.gz suffix) and directories, the root itself included
	exists_inside: BTreeSet<String>,
	names: Vec<String>,
	_guard: TmpGuard,
}

fn filler(n: usize) -> String {
	let words = ["lorem", "ipsum", "dolor", "sit", "amet", "tile", "static", "content"];
	let mut s = String::new();
	let mut i = n;
	while s.len() < (n * 37) % 1800 {
		s.push_str(words[i % words.len()]);
		s.push(' ');
		i += 3;
	}
	s
}

fn write_file(path: &std::path::Path, data: &[u8]) {
	if let Some(p) = path.parent() {
		std::fs::create_dir_all(p).expect("create dir");
	}
	std::fs::write(path, data).expect("write file");
}

fn build_world(case: &Case) -> World {
	let sandbox: PathBuf = util::tmp_dir();
	let sandbox = sandbox.canonicalize().expect("canonical sandbox");
	let sb = sandbox.to_str().unwrap().to_string();
	let root_name = ROOT_NAMES[case.root_name as usize % ROOT_NAMES.len()];
	let root_abs = format!("{sb}/outer/{root_name}");
	let is_folder = case.kind == Kind::Folder;

	// inside files: (relative path, bytes on disk / in the archive, decoded token if a variant)
	let mut seen = BTreeSet::new();
	let mut members: Vec<(String, Vec<u8>)> = vec![];
	let mut inside_contents = BTreeMap::new();
	let mut rels: Vec<String> = vec![];
	let mut n = 0usize;
	for f in &case.files {
		let dir = DIRS[f.dir as usize % DIRS.len()];
		let name = NAMES[f.name as usize % NAMES.len()];
		let rel = if dir.is_empty() { name.to_string() } else { format!("{dir}/{name}") };
		if !seen.insert(rel.clone()) {
			continue;
		}
		let exts: &[&str] = match f.variant % 6 {
			0 => &[""],
			1 => &["", ".br"],
			2 => &["", ".gz"],
			3 => &[".br"],
			4 => &[".gz"],
			_ => &["", ".br", ".gz"],
		};
		for ext in exts {
			n += 1;
			let token = format!("INSIDE {rel}{ext} #{n} {}\n", filler(n)).into_bytes();
			let stored = match *ext {
				".br" => util::brotli_c(&token),
				".gz" => util::gzip(&token),
				_ => token.clone(),
			};
			inside_contents.insert(token, format!("{rel}{ext} (decoded)"));
			inside_contents.insert(stored.clone(), format!("{rel}{ext}"));
			members.push((format!("{rel}{ext}"), stored));
			rels.push(format!("{rel}{ext}"));
		}
	}
	let inside: Vec<KFile> = rels.iter().map(|r| KFile { abs: format!("{root_abs}/{r}"), rel: r.clone() }).collect();

	// canaries: mirrors of the inside tree next to and above the root, plus a few fixed names
	let mut canaries: Vec<KFile> = vec![];
	let mut canary_contents = BTreeMap::new();
	let mut c = 0usize;
	let mut add_canary = |abs: String, rel: String| {
		c += 1;
		let token = format!("CANARY {abs} #{c} {}\n", filler(c + 5)).into_bytes();
		let stored = if abs.ends_with(".br") {
			util::brotli_c(&token)
		} else if abs.ends_with(".gz") {
			util::gzip(&token)
		} else {
			token.clone()
		};
		write_file(std::path::Path::new(&abs), &stored);
		canary_contents.insert(token, abs.clone());
		canary_contents.insert(stored, abs.clone());
		canaries.push(KFile { abs, rel });
	};
	for base in [format!("{sb}/outer"), format!("{sb}/outer/sib"), format!("{sb}/outer/{root_name}x"), sb.clone()] {
		for r in &rels {
			add_canary(format!("{base}/{r}"), r.clone());
		}
		for r in ["canary.txt", "secret.txt", "index.html", "a.txt"] {
			if !rels.iter().any(|x| x == r) {
				add_canary(format!("{base}/{r}"), r.to_string());
			}
		}
	}

	let root_arg = match &case.kind {
		Kind::Folder => {
			for (rel, data) in &members {
				write_file(std::path::Path::new(&format!("{root_abs}/{rel}")), data);
			}
			root_abs.clone()
		}
		Kind::Tar { dot_slash, dir_members, packed } => {
			let m: Vec<(String, Vec<u8>)> = members.iter().map(|(r, d)| (if *dot_slash { format!("./{r}") } else { r.clone() }, d.clone())).collect();
			let tar = vt::server::tar_archive(&m, *dir_members);
			let (path, data) = match packed % 3 {
				0 => (format!("{root_abs}.tar"), tar),
				1 => (format!("{root_abs}.tar.gz"), util::gzip(&tar)),
				_ => (format!("{root_abs}.tar.br"), util::brotli_c(&tar)),
			};
			write_file(std::path::Path::new(&path), &data);
			path
		}
	};
	let _ = is_folder;

	let mut known = BTreeMap::new();
	for k in &inside {
		known.insert(k.abs.clone(), true);
	}
	for k in &canaries {
		known.insert(k.abs.clone(), false);
	}
	let mut exists_inside = BTreeSet::new();
	exists_inside.insert(root_abs.clone());
	for k in &inside {
		let mut p = k.abs.clone();
		exists_inside.insert(p.clone());
		if let Some(s) = p.strip_suffix(".br").or_else(|| p.strip_suffix(".gz")) {
			exists_inside.insert(s.to_string());
		}
		while let Some((d, _)) = p.rsplit_once('/') {
			if d.len() < root_abs.len() {
				break;
			}
			exists_inside.insert(d.to_string());
			p = d.to_string();
		}
	}
	// name pool for free-form targets
	let mut names: BTreeSet<String> = BTreeSet::new();
	for r in &rels {
		for s in r.split('/') {
			names.insert(s.to_string());
			if let Some(stripped) = s.strip_suffix(".br").or_else(|| s.strip_suffix(".gz")) {
				names.insert(stripped.to_string());
			}
		}
	}
	for s in ["canary.txt", "secret.txt", "sib", "outer", "index.html", "a.txt", "sub"] {
		names.insert(s.to_string());
	}
	names.insert(root_name.to_string());
	names.insert(format!("{root_name}x"));
	names.insert(format!("{root_name}.tar"));
	names.insert(sandbox.file_name().unwrap().to_str().unwrap().to_string());
	World { root_abs, root_arg, inside, canaries, inside_contents, canary_contents, known, exists_inside, names: names.into_iter().collect(), _guard: TmpGuard(sandbox) }
}

// ---------------------------------------------------------------------------------------
// target expansion and the harness's own resolution
// ---------------------------------------------------------------------------------------

fn split_abs(p: &str) -> Vec<String> {
	p.split('/').filter(|s| !s.is_empty()).map(|s| s.to_string()).collect()
}

/// Expand a request into the raw target (without the URL prefix), always starting with `/`.
fn expand(w: &World, t: &Tgt) -> String {
	let known = |outside: bool, sel: u16| -> &KFile {
		let list = if outside || w.inside.is_empty() { &w.canaries } else { &w.inside };
		&list[pick(sel as u32, list.len())]
	};
	match t {
		Tgt::Plain { outside, file, drop_ext, as_dir } => {
			let k = known(*outside, *file);
			let mut rel = k.rel.clone();
			if *drop_ext {
				if let Some(s) = rel.strip_suffix(".br").or_else(|| rel.strip_suffix(".gz")) {
					rel = s.to_string();
				}
			}
			match as_dir % 3 {
				0 => format!("/{rel}"),
				1 => match rel.rsplit_once('/') {
					Some((d, _)) => format!("/{d}/"),
					None => "/".to_string(),
				},
				_ => match rel.rsplit_once('/') {
					Some((d, _)) => format!("/{d}"),
					None => "/".to_string(),
				},
			}
		}
		Tgt::Climb { down, ups, outside, file, dots, sep, as_dir } => {
			let k = known(*outside, *file);
			let chain = ["sub", "deep", "er"];
			let down = (*down as usize).min(chain.len());
			let mut cur = split_abs(&w.root_abs);
			let mut out = String::new();
			for d in &chain[..down] {
				out.push('/');
				out.push_str(d);
				cur.push(d.to_string());
			}
			let sep = SEPS[*sep as usize % SEPS.len()];
			let dots = DOTS[*dots as usize % DOTS.len()];
			for _ in 0..*ups {
				out.push_str(sep);
				out.push_str(dots);
				cur.pop();
			}
			let target = split_abs(&k.abs);
			let rel: Vec<String> = if target.len() > cur.len() && target[..cur.len()] == cur[..] { target[cur.len()..].to_vec() } else { vec![target.last().cloned().unwrap_or_default()] };
			out.push_str(sep);
			out.push_str(&file_or_dir(&rel.join("/"), if rel.len() > 1 { *as_dir } else { 0 }));
			out
		}
		Tgt::Abs { outside, file, slashes, lead, as_dir } => {
			let k = known(*outside, *file);
			let lead = match lead % 3 {
				0 => "",
				1 => "/sub",
				_ => "/.",
			};
			format!("{lead}{}{}", "/".repeat((*slashes).max(1) as usize), file_or_dir(&k.abs[1..], *as_dir))
		}
		Tgt::AbsClimb { slashes, down, ups, file, dots, as_dir } => {
			let climb = expand(w, &Tgt::Climb { down: *down, ups: *ups, outside: true, file: *file, dots: *dots, sep: 0, as_dir: *as_dir });
			format!("{}{}{}", "/".repeat((*slashes).max(1) as usize), &w.root_abs[1..], climb)
		}
		Tgt::Segs(segs, trailing) => {
			let mut out = String::new();
			for s in segs {
				out.push('/');
				match s {
					Seg::Name(i) => out.push_str(&w.names[*i as usize % w.names.len()]),
					Seg::Dot => out.push('.'),
					Seg::DotDot => out.push_str(".."),
					Seg::Empty => {}
					Seg::Dots(i) => out.push_str(DOTS[*i as usize % DOTS.len()]),
					Seg::Glued(i) => {
						// glued to the next segment: no slash of its own follows
						out.push_str(GLUED[*i as usize % GLUED.len()]);
						out.push_str("canary.txt");
					}
					Seg::Long(n) => out.push_str(&"x".repeat(*n as usize)),
					Seg::Odd(i) => out.push_str(ODD[*i as usize % ODD.len()]),
				}
			}
			if *trailing {
				out.push('/');
			}
			out
		}
	}
}

#[derive(Clone, Copy, PartialEq, Eq, Debug)]
enum Loc {
	Inside,
	Outside,
}

/// Segment-wise resolution of `rest` (what follows the root's URL directory) with file-system
/// semantics: `.` and empty segments stay where they are, `..` goes to the parent, names descend;
/// a leading `/` makes the whole path absolute. Returns the location reached and its path.
fn resolve(root_abs: &str, rest: &str) -> (Loc, String) {
	let root = split_abs(root_abs);
	let mut cur: Vec<String> = if rest.starts_with('/') { vec![] } else { root.clone() };
	for s in rest.split('/') {
		match s {
			"" | "." => {}
			".." => {
				cur.pop();
			}
			name => cur.push(name.to_string()),
		}
	}
	let inside = cur.len() >= root.len() && cur[..root.len()] == root[..];
	(if inside { Loc::Inside } else { Loc::Outside }, format!("/{}", cur.join("/")))
}

fn percent_decode_dots(s: &str) -> String {
	let mut t = s.to_string();
	for _ in 0..2 {
		t = t.replace("%252e", "%2e").replace("%252E", "%2e");
		t = t.replace("%2e", ".").replace("%2E", ".").replace("%2f", "/").replace("%2F", "/").replace("%5c", "/").replace("%5C", "/");
	}
	t
}

fn is_uri_byte(b: u8) -> bool {
	b.is_ascii_alphanumeric() || b"-._~!$&'()*+,;=:@/%?".contains(&b)
}

// ---------------------------------------------------------------------------------------
// oracle
// ---------------------------------------------------------------------------------------

fn oracle(case: &Case, obs: &mut Obs) -> Result<(), Fail> {
	let w = build_world(case);
	let (tile_path, tile_id) = vt::server::tiny_tile_source();
	let prefix_dir: String = match case.prefix {
		Some((i, _)) => format!("/{}/", PREFIXES[i as usize % PREFIXES.len()]),
		None => "/".to_string(),
	};
	let static_arg = match case.prefix {
		None => w.root_arg.clone(),
		Some((i, syntax)) => {
			let p = PREFIXES[i as usize % PREFIXES.len()];
			match syntax % 4 {
				0 => format!("[/{p}]{}", w.root_arg),
				1 => format!("{}[/{p}]", w.root_arg),
				2 => format!("[{p}]{}", w.root_arg),
				_ => format!("[/{p}/]{}", w.root_arg),
			}
		}
	};
	let mut args: Vec<String> = vec![];
	if case.fast {
		args.push("--fast".into());
	}
	args.push("-s".into());
	args.push(static_arg.clone());
	args.push(vt::server::source_arg(&tile_path, tile_id));
	let mut server = Server::start(&args);

	let kind = match &case.kind {
		Kind::Folder => "folder".to_string(),
		Kind::Tar { packed, .. } => format!("tar{}", ["", ".gz", ".br"][*packed as usize % 3]),
	};
	let ctx = format!("--static {static_arg} ({kind})");
	let mut n200 = 0u64;
	let mut n_outside = 0u64;
	let mut n_nontrivial = 0u64;
	let mut n_400 = 0u64;
	let mut classes: BTreeSet<&'static str> = BTreeSet::new();

	for r in &case.requests {
		let bare = expand(&w, &r.tgt);
		let target = match (r.pfx % 3, case.prefix.is_some()) {
			(0, true) => format!("{}{}", &prefix_dir[..prefix_dir.len() - 1], bare),
			(2, _) => format!("/nope{bare}"),
			_ => bare.clone(),
		};
		// ----- the harness's own resolution
		let literal = target.starts_with(&prefix_dir);
		let (loc, reached) = if literal { resolve(&w.root_abs, &target[prefix_dir.len()..]) } else { (Loc::Outside, String::new()) };
		let must_404 = if !literal {
			// not below the configured URL prefix: the target is not mapped onto the root at all, so
			// it does not "resolve" to any place relative to it; only the leak clause applies
			false
		} else if loc == Loc::Outside && target[prefix_dir.len()..].starts_with('/') {
			// absolute component: outside when read as an absolute path. Read with the repeated
			// slashes collapsed it is a path below the root: 404 is demanded unless that path exists
			let (l2, p2) = resolve(&w.root_abs, target[prefix_dir.len()..].trim_start_matches('/'));
			!(l2 == Loc::Inside && w.exists_inside.contains(&p2))
		} else {
			loc == Loc::Outside
		};
		let has_dotdot = target.split('/').any(|s| s == "..");
		let has_encoded = !has_dotdot && (target.contains("%2e") || target.contains("%2E") || target.contains("%252e") || target.contains("..%"));
		let hits_known = if has_dotdot && literal {
			w.known.get(&reached).copied()
		} else if has_encoded && literal {
			let dec = percent_decode_dots(&target[prefix_dir.len()..]);
			if dec.split('/').any(|s| s == "..") {
				w.known.get(&resolve(&w.root_abs, &dec).1).copied()
			} else {
				None
			}
		} else {
			None
		};
		if let Some(inside) = hits_known {
			n_nontrivial += 1;
			classes.insert(match (has_dotdot, inside) {
				(true, true) => "dotdot->inside-file",
				(true, false) => "dotdot->canary",
				(false, true) => "encoded-dotdot->inside-file",
				(false, false) => "encoded-dotdot->canary",
			});
		}
		if must_404 {
			n_outside += 1;
		}
		if let Tgt::AbsClimb { .. } = &r.tgt {
			classes.insert("absolute-root-then-dotdot");
		}
		if let Tgt::Abs { outside, as_dir, .. } = &r.tgt {
			classes.insert(match (*outside, as_dir % 3) {
				(true, 0) => "absolute->canary",
				(true, _) => "absolute->canary-directory",
				(false, 0) => "absolute->inside-file",
				(false, _) => "absolute->inside-directory",
			});
		}
		let valid_uri = target.bytes().all(is_uri_byte);
		if !valid_uri {
			classes.insert("non-uri-bytes");
		}

		// ----- the exchange
		let hdr: Vec<(&str, &str)> = match ACCEPT[r.accept as usize % ACCEPT.len()] {
			Some(v) => vec![("Accept-Encoding", v)],
			None => vec![],
		};
		let resp = match server.get(&target, &hdr) {
			Exchange::Response(resp) => resp,
			Exchange::Dropped(e) => fail!("static:connection-dropped", "{ctx}: GET {target:?} got no complete HTTP response ({e}); the server still answers /status"),
		};
		if resp.status == 400 {
			n_400 += 1;
		}
		if resp.status == 200 {
			n200 += 1;
			let body = resp.decoded_body().map_err(|e| Fail::new("static:body-undecodable", format!("{ctx}: GET {target:?} -> {}: body does not decode per Content-Encoding: {e}", resp.summary())))?;
			if !w.inside_contents.contains_key(&body) {
				if let Some(path) = w.canary_contents.get(&body) {
					fail!("static:outside-file-served", "{ctx}: GET {target:?} -> 200 with the content of {path}, a file outside the root {}", w.root_abs);
				}
				fail!("static:foreign-content", "{ctx}: GET {target:?} -> {} is not the content of any file inside the root; decoded body starts {:?}", resp.summary(), String::from_utf8_lossy(&body[..body.len().min(80)]));
			}
		}
		if must_404 {
			// a target with bytes no URI may contain can be refused by the HTTP layer before any
			// handler runs (400)
			let ok = resp.status == 404 || (!valid_uri && resp.status == 400);
			ensure_prop!(
				ok,
				"static:outside-not-404",
				"{ctx}: GET {target:?} resolves outside the root ({}) but the status is {} instead of 404",
				format!("to {reached}"),
				resp.status
			);
		}
	}

	obs.label(format!("root:{kind}"));
	obs.label(if case.prefix.is_some() { "prefix:yes" } else { "prefix:no" });
	obs.label(if case.fast { "mode:fast" } else { "mode:best" });
	for c in classes {
		obs.label(format!("has:{c}"));
	}
	obs.label_if(n200 == 0, "no-200-at-all");
	obs.count("requests", case.requests.len() as u64);
	obs.count("status-200-inside-content", n200);
	obs.count("status-400", n_400);
	obs.count("targets-resolving-outside", n_outside);
	obs.count("nontrivial-requests", n_nontrivial);
	obs.nontrivial(n_nontrivial > 0);
	Ok(())
}

/// hand-written cases: the historical traversal and its relatives on a fixed tree
fn fixed_cases() -> Vec<Case> {
	let files = vec![
		FileSpec { dir: 0, name: 0, variant: 0 },
		FileSpec { dir: 0, name: 1, variant: 1 },
		FileSpec { dir: 1, name: 0, variant: 3 },
		FileSpec { dir: 1, name: 1, variant: 0 },
		FileSpec { dir: 2, name: 2, variant: 4 },
		FileSpec { dir: 3, name: 3, variant: 5 },
	];
	let mut requests = vec![];
	for outside in [true, false] {
		for file in [0u16, 9000, 20000, 30000, 41000, 52000, 65535] {
			for (down, ups) in [(0u8, 1u8), (0, 2), (1, 2), (2, 3), (1, 1), (2, 1), (3, 4)] {
				for dots in [0u8, 1, 2, 5] {
					requests.push(Req { tgt: Tgt::Climb { down, ups, outside, file, dots, sep: dots % 3, as_dir: (down + ups + dots) % 3 }, pfx: 0, accept: (file % 6) as u8 });
				}
			}
			for slashes in 2u8..5 {
				for (down, ups) in [(0u8, 1u8), (1, 2), (0, 2)] {
					requests.push(Req { tgt: Tgt::AbsClimb { slashes, down, ups, file, dots: 0, as_dir: (slashes + ups) % 3 }, pfx: 0, accept: 0 });
				}
				for as_dir in 0u8..3 {
					requests.push(Req { tgt: Tgt::Abs { outside, file, slashes, lead: (slashes + as_dir) % 3, as_dir }, pfx: 0, accept: 0 });
				}
			}
			requests.push(Req { tgt: Tgt::Plain { outside, file, drop_ext: true, as_dir: 0 }, pfx: 0, accept: (file % 5) as u8 });
			requests.push(Req { tgt: Tgt::Plain { outside, file, drop_ext: false, as_dir: 1 }, pfx: 1, accept: 2 });
		}
	}
	let mut out = vec![];
	for kind in [Kind::Folder, Kind::Tar { dot_slash: true, dir_members: false, packed: 0 }] {
		for prefix in [None, Some((0u8, 0u8))] {
			out.push(Case { root_name: 0, kind: kind.clone(), files: files.clone(), prefix, fast: false, requests: requests.clone() });
		}
	}
	out
}

fn main() {
	let mut check = Check::from_args(
		"C07",
		"exploration",
		"case = one `versatiles serve --static` process: generated tree (2-11 files over 5 directories, .br/.gz variants, index.html) served as folder or as tar (.tar/.tar.gz/.tar.br, with/without ./ and directory members), optional URL prefix in 4 syntaxes, best/fast mode, inside a sandbox with canary files above and beside the root (mirrors with the same names, sibling `<root>x`); 1-299 raw request targets per case: direct paths, climbs (`down` dirs, 1-4 `..` in 10 spellings, 3 separators) aimed at a known inside/canary file, absolute paths behind 2-4 slashes (of a file, or of the directory holding it — every canary directory has an index.html — with and without trailing slash), the root's own absolute path behind 2-4 slashes followed by a climb, free segment sequences over {names, ., .., empty, encoded dots, glued %2f, 255-3000 byte segments, odd bytes}, with / without / wrong prefix, 6 Accept-Encoding headers; oracle: complete HTTP response; 200 => body decoded per Content-Encoding is the content of a file inside the root; target resolving outside (file-system semantics from the root after literal prefix strip) => 404; non-trivial request = contains `..` (or an encoded spelling) and resolves to an existing inside or canary file; distinct = distinct cases containing such a request",
	);
	check.assume("percent-encoded segments are not decoded by the server (http::Uri::path is used verbatim): `%2e%2e` is a file name; only the leak clause applies to such targets");
	check.assume("a target containing bytes that no URI may contain may be answered 400 by the HTTP layer (hyper) before the static handler runs; accepted in place of 404");
	check.assume("the 404 clause is applied to targets that literally start with the configured URL prefix (resolution starts at the root after that prefix); for all other targets only the leak clause (200 => inside content) is asserted");
	check.assume("a target whose remainder starts with a further slash is outside when read as an absolute path; 404 is demanded unless the same remainder, read with the repeated slashes collapsed, names something that exists below the root (e.g. `//` = the root's index.html)");
	check.assume("flate2 / brotli crates as reference decoders of Content-Encoding");
	vt::engine::watchdog(3000);
	check.workers = check.workers.min(6);
	vt::cli::build_binary();

	let reg: Vec<Case> = check.regression_cases("serve");
	check.enumerate("regressions", reg, false, oracle);
	check.enumerate("fixed", fixed_cases(), false, oracle);
	check.phase("serve", check.cases(1500, 50_000), strategy, oracle);
	check.finish();
}

//! C02 — a bounding-box tile stream delivers exactly the tiles that single-tile lookups return
//! for the coordinates inside the box.

use proptest::prelude::*;
use serde::{Deserialize, Serialize};
use std::collections::{BTreeMap, BTreeSet};
use versatiles_container::{TilesConvertReader, TilesConverterParameters};
use versatiles_core::types::{TileBBox, TileBBoxPyramid};
use vt::containers::Target;
use vt::engine::{Check, Fail, Obs};
use vt::model::Coord;
use vt::sources::*;
use vt::util::{self, Comp, TmpGuard};
use vt::{ensure_prop, fail};

#[derive(Clone, Debug, Serialize, Deserialize)]
enum Src {
	Leaf(Leaf),
	Convert { leaf: Leaf, flip: bool, swap: bool, comp: Option<Comp>, force: bool, zoom: Option<(u8, u8)> },
	Pipeline(Node),
}

#[derive(Clone, Debug, Serialize, Deserialize)]
enum BoxChoice {
	Spec(BoxSpec),
	/// explicit box (exhaustive phase); `empty`: 0 = not empty, 1 = new_empty, 2 = set_empty
	Exact { z: u8, x0: u32, y0: u32, x1: u32, y1: u32, empty: u8 },
	/// a consumer that opens the stream over this box, takes `take` tiles and drops it; nothing
	/// is asserted about it, the boxes after it are checked on the same source
	Abandon { spec: BoxSpec, take: u8 },
	/// like `Abandon`, but the consumer polls the stream that many times, ready or not, and then
	/// drops it: the stream may be in the middle of assembling its next tiles
	AbandonPolls { spec: BoxSpec, polls: u8 },
}

#[derive(Clone, Debug, Serialize, Deserialize)]
struct Case {
	src: Src,
	boxes: Vec<BoxChoice>,
}

// ---------------------------------------------------------------------------------------
// generators
// ---------------------------------------------------------------------------------------

fn src(max_zoom: u8) -> impl Strategy<Value = Src> {
	prop_oneof![
		3 => leaf(max_zoom, false, false, 20).prop_map(Src::Leaf),
		3 => leaf_any_pair(max_zoom, 20).prop_map(Src::Leaf),
		3 => (leaf(max_zoom, false, true, 20), any::<bool>(), any::<bool>(), proptest::option::of(0usize..3), any::<bool>(), proptest::option::of((0u8..6, 0u8..14)))
			.prop_map(|(leaf, flip, swap, comp, force, zoom)| Src::Convert { leaf, flip, swap, comp: comp.map(|i| Comp::ALL[i]), force, zoom }),
		4 => node(max_zoom, 3).prop_map(Src::Pipeline),
		1 => leaf_chunky(max_zoom).prop_map(Src::Leaf),
		1 => (leaf_chunky(max_zoom), any::<bool>(), any::<bool>()).prop_map(|(leaf, flip, swap)| Src::Convert { leaf, flip, swap, comp: None, force: false, zoom: None }),
	]
}

fn strategy() -> impl Strategy<Value = Case> {
	let one = prop_oneof![
		6 => box_spec().prop_map(BoxChoice::Spec),
		1 => (box_spec(), 0u8..6).prop_map(|(spec, take)| BoxChoice::Abandon { spec, take }),
		1 => (box_spec(), 1u8..12).prop_map(|(spec, polls)| BoxChoice::AbandonPolls { spec, polls }),
	];
	(src(31), proptest::collection::vec(one, 1..6), box_spec()).prop_map(|(src, mut boxes, last)| {
		// an abandoned stream is followed by a checked one
		if matches!(boxes.last(), Some(BoxChoice::Abandon { .. } | BoxChoice::AbandonPolls { .. })) {
			boxes.push(BoxChoice::Spec(last));
		}
		Case { src, boxes }
	})
}

// ---------------------------------------------------------------------------------------
// oracle
// ---------------------------------------------------------------------------------------

struct BuiltSrc {
	source: Source,
	/// coordinates at which some leaf holds a tile, with all transforms applied
	candidates: Vec<Coord>,
	max_side: u32,
	distinct_tiles: usize,
	_guards: Vec<TmpGuard>,
	labels: Vec<String>,
}

fn build(src: &Src) -> Result<BuiltSrc, Fail> {
	let mut guards = vec![];
	let mut labels = vec![];
	match src {
		Src::Leaf(leaf) => {
			let set = leaf.spec.materialise();
			let reader = leaf.open(&set, &mut guards)?;
			labels.push(leaf.label());
			let slow = matches!(leaf.kind, LeafKind::Mem(true) | LeafKind::Repo(Target::Pmtiles | Target::Tar | Target::Dir) | LeafKind::Enc(Target::Pmtiles | Target::Tar | Target::Dir, _));
			Ok(BuiltSrc { source: Source::Reader(reader), candidates: set.tiles.keys().copied().collect(), max_side: if slow { 48 } else { 600 }, distinct_tiles: set.distinct_payloads(), _guards: guards, labels })
		}
		Src::Convert { leaf, flip, swap, comp, force, zoom } => {
			let set = leaf.spec.materialise();
			let reader = leaf.open(&set, &mut guards)?;
			let pyramid = zoom.map(|(a, b)| {
				let mut p = TileBBoxPyramid::new_full(31);
				p.set_zoom_min(a.min(b));
				p.set_zoom_max(a.max(b));
				p
			});
			let cp = TilesConverterParameters::new(comp.map(|c| c.to_vt()), pyramid, *force, *flip, *swap);
			let conv = match vt::guard(|| TilesConvertReader::new_from_reader(reader, cp)) {
				Ok(Ok(c)) => c,
				Ok(Err(e)) => fail!("convert:build-error", "building the converting reader failed: {e:#}"),
				Err(p) => return Err(Fail::from_panic("building the converting reader", &p)),
			};
			labels.push(format!("convert:flip={flip},swap={swap}"));
			labels.push(format!("convert-over-{}", leaf.label()));
			if comp.is_some() || *force {
				labels.push("convert:recompress".into());
			}
			let mut cand = BTreeSet::new();
			for c in set.tiles.keys() {
				for t in [*c, c.flip(), c.swap(), c.flip().swap(), c.swap().flip()] {
					cand.insert(t);
				}
			}
			Ok(BuiltSrc { source: Source::Reader(Box::new(conv)), candidates: cand.into_iter().collect(), max_side: 48, distinct_tiles: set.distinct_payloads(), _guards: guards, labels })
		}
		Src::Pipeline(root) => {
			let b = build_pipeline(root)?;
			root.labels(&mut labels);
			labels.push(format!("pipeline-depth={}", root.depth()));
			let has_debug = labels.iter().any(|l| l == "op:from_debug");
			let candidates = b.model.candidate_coords();
			let distinct = b.model.sets().iter().map(|s| s.distinct_payloads()).sum();
			Ok(BuiltSrc { source: Source::Op(b.op), candidates, max_side: if has_debug { 10 } else { 64 }, distinct_tiles: distinct, _guards: b.guards, labels })
		}
	}
}

fn oracle(case: &Case, obs: &mut Obs) -> Result<(), Fail> {
	let b = build(&case.src)?;
	for l in &b.labels {
		obs.label(l.clone());
	}
	let cov = b.source.coverage();
	let mut nontrivial = false;
	let mut after_abandon = false;
	for choice in &case.boxes {
		let bbox = match choice {
			BoxChoice::Abandon { spec, take } => {
				let bbox = resolve_box(spec, &cov, b.max_side);
				let desc = format!("{bbox:?}");
				match b.source.stream_abandon(bbox, *take as usize) {
					Ok(n) => {
						obs.label(if n == *take as usize && n > 0 { "abandoned-stream:midway" } else if n == 0 { "abandoned-stream:before-first-tile" } else { "abandoned-stream:at-its-end" }.to_string());
						after_abandon = true;
					}
					Err(p) => return Err(Fail::from_panic(&format!("stream over box {desc}, dropped after {take} tiles"), &p)),
				}
				continue;
			}
			BoxChoice::AbandonPolls { spec, polls } => {
				let bbox = resolve_box(spec, &cov, b.max_side);
				let desc = format!("{bbox:?}");
				match b.source.stream_abandon_polls(bbox, *polls as usize) {
					Ok((_, pending)) => {
						obs.label(if pending > 0 { "abandoned-stream:while-pending" } else { "abandoned-stream:never-pending" }.to_string());
						after_abandon = true;
					}
					Err(p) => return Err(Fail::from_panic(&format!("stream over box {desc}, dropped after {polls} polls"), &p)),
				}
				continue;
			}
			BoxChoice::Spec(s) => resolve_box(s, &cov, b.max_side),
			BoxChoice::Exact { z, x0, y0, x1, y1, empty } => match empty {
				1 => TileBBox::new_empty(*z).unwrap(),
				2 => {
					let mut e = TileBBox::new_full(*z).unwrap();
					e.set_empty();
					e
				}
				_ => TileBBox::new(*z, *x0, *y0, *x1, *y1).map_err(|e| Fail::new("harness:bad-box", format!("{e}")))?,
			},
		};
		let rel = relation(&bbox, cov.get(&bbox.level));
		obs.label(format!("box:{rel}"));
		let desc = format!("{bbox:?}");
		// (i) the stream finishes without failure
		let stream = if DETECT_DEADLOCK.load(std::sync::atomic::Ordering::Relaxed) {
			match b.source.stream_detecting_deadlock(bbox.clone()) {
				Ok(Ok(s)) => s,
				Ok(Err(why)) => fail!("stream:never-finishes", "box {desc}, {} CPU(s) visible to the process: the stream does not finish: {why}", num_cpus::get()),
				Err(p) => return Err(Fail::from_panic(&format!("stream over box {desc}"), &p)),
			}
		} else {
			match b.source.stream(bbox.clone()) {
				Ok(s) => s,
				Err(p) => return Err(Fail::from_panic(&format!("stream over box {desc}"), &p)),
			}
		};
		obs.count("streamed-tiles", stream.len() as u64);
		if after_abandon && !stream.is_empty() {
			obs.label("stream-after-abandoned-stream".to_string());
		}
		// (ii) everything delivered lies inside, once, and equals the lookup
		let mut seen: BTreeMap<Coord, &Vec<u8>> = BTreeMap::new();
		for (c, bytes) in &stream {
			ensure_prop!(!bbox.is_empty() && c.z == bbox.level && c.x >= bbox.x_min && c.x <= bbox.x_max && c.y >= bbox.y_min && c.y <= bbox.y_max, "stream:tile-outside-box", "box {desc}: the stream delivers {c}, which is outside the box");
			ensure_prop!(seen.insert(*c, bytes).is_none(), "stream:duplicate", "box {desc}: the stream delivers {c} twice");
			match b.source.lookup(c) {
				Ok(Ok(Some(l))) => ensure_prop!(&l == bytes, "stream:bytes-differ-from-lookup", "box {desc}: stream delivers {} bytes ({}) for {c}, the lookup {} bytes ({})", bytes.len(), util::hex_short(bytes), l.len(), util::hex_short(&l)),
				Ok(Ok(None)) => fail!("stream:tile-not-in-lookup", "box {desc}: the stream delivers {c} ({} bytes) but the lookup returns nothing", bytes.len()),
				Ok(Err(e)) => fail!("stream:lookup-error", "box {desc}: lookup of streamed tile {c} fails: {e}"),
				Err(p) => return Err(Fail::from_panic(&format!("lookup of {c}"), &p)),
			}
		}
		// (iii) every coordinate of the box with a lookup result is delivered
		let mut lookups = 0u64;
		if !bbox.is_empty() {
			let coords: Vec<Coord> = if bbox.count_tiles() <= 4096 {
				bbox.iter_coords().map(|c| Coord::from_vt(&c)).collect()
			} else {
				let mut v: Vec<Coord> = b.candidates.iter().filter(|c| c.z == bbox.level && c.x >= bbox.x_min && c.x <= bbox.x_max && c.y >= bbox.y_min && c.y <= bbox.y_max).copied().collect();
				// plus the corners
				for (x, y) in [(bbox.x_min, bbox.y_min), (bbox.x_max, bbox.y_min), (bbox.x_min, bbox.y_max), (bbox.x_max, bbox.y_max)] {
					v.push(Coord::new(bbox.level, x, y));
				}
				v
			};
			for c in coords {
				if seen.contains_key(&c) {
					continue;
				}
				lookups += 1;
				match b.source.lookup(&c) {
					Ok(Ok(None)) => {}
					// an empty payload cannot be told from "no tile" in several formats: don't care
					Ok(Ok(Some(l))) if l.is_empty() => {}
					Ok(Ok(Some(l))) => fail!("stream:tile-missing", "box {desc}: the lookup returns {} bytes for {c}, the stream over the box does not deliver it", l.len()),
					Ok(Err(_)) => {}
					Err(p) => return Err(Fail::from_panic(&format!("lookup of {c}"), &p)),
				}
			}
		}
		obs.count("lookups", lookups + stream.len() as u64);
		if matches!(rel, "partial-overlap" | "contains" | "empty-box@level-without-data" | "level-without-data") {
			nontrivial = true;
		}
	}
	obs.nontrivial(nontrivial && b.distinct_tiles >= 2);
	Ok(())
}

// ---------------------------------------------------------------------------------------
// one visible CPU: the same oracle in a child process restricted to a single core
// ---------------------------------------------------------------------------------------

static DETECT_DEADLOCK: std::sync::atomic::AtomicBool = std::sync::atomic::AtomicBool::new(false);

fn one_cpu_oracle(case: &Case, obs: &mut Obs) -> Result<(), Fail> {
	vt::onecpu::run_in_child("C02_ONE_CPU_CHILD", &serde_json::to_vec(case).unwrap(), obs)
}

// ---------------------------------------------------------------------------------------
// exhaustive small-zoom phase
// ---------------------------------------------------------------------------------------

fn all_boxes(z: u8) -> Vec<BoxChoice> {
	let n = 1u32 << z;
	let mut v = vec![BoxChoice::Exact { z, x0: 0, y0: 0, x1: 0, y1: 0, empty: 1 }, BoxChoice::Exact { z, x0: 0, y0: 0, x1: 0, y1: 0, empty: 2 }];
	for x0 in 0..n {
		for x1 in x0..n {
			for y0 in 0..n {
				for y1 in y0..n {
					v.push(BoxChoice::Exact { z, x0, y0, x1, y1, empty: 0 });
				}
			}
		}
	}
	v
}

fn main() {
	vt::onecpu::child_entry("C02_ONE_CPU_CHILD", |bytes, obs| {
		DETECT_DEADLOCK.store(true, std::sync::atomic::Ordering::Relaxed);
		let case: Case = serde_json::from_slice(bytes).map_err(|e| Fail::new("harness:case", format!("{e}")))?;
		oracle(&case, obs)
	});
	let mut check = Check::from_args(
		"C02",
		"exploration",
		"sources: container readers over fixtures (written by the repository's writers or the harness's independent encoders incl. sparse/partial versatiles blocks, PMTiles runs/leaves, MBTiles views), the converting reader (4 flag combinations, recompression, zoom selection), pipelines rendered to VPL (from_container, from_debug, from_overlayed, from_vectortiles_merged, filter_zoom, filter_bbox, nested to depth 3); boxes positioned relative to the advertised coverage (inside, overlapping an edge, outside, containing, row/column, whole 256-blocks +-1, both empty encodings, levels without data; now and then a consumer that opens a stream, takes 0-5 tiles (or polls it 1-11 times, ready or not) and drops it, before the next checked box on the same source), exhaustively all boxes at zoom <= 2, one versatiles block with > 64 MiB of tile data, and a phase in which each case runs in a child process restricted to one CPU (num_cpus::get() = 1; a stream whose future is pending, never woken again and without live tasks in the runtime counts as 'does not finish'); oracle: stream terminates, every delivered tile is inside the box, unique and equal to the lookup, and every coordinate of the box (all of them up to 4096, else all model-tile coordinates and corners) with a lookup result is delivered; non-trivial = box partially overlapping / containing the coverage or on a level without data, on a source with >= 2 distinct tiles",
	);
	check.assume("multi-thread tokio runtime with 3 workers per runner thread; lookups with empty payloads are not distinguished from absent tiles");
	vt::engine::watchdog(3600);
	vt::codec::pmtiles::self_test();

	let reg: Vec<Case> = check.regression_cases("sampled");
	check.enumerate("regressions", reg, false, oracle);

	// exhaustive boxes at zoom <= 2 over a fixed family of sources (generated from fixed seeds)
	let n_sources = check.cases(10, 60) as u64;
	let mut cases = vec![];
	for i in 0..n_sources {
		let s = vt::engine::sample_one(&src(2), 1000 + i + 1000 * check.seed);
		for z in 0..=2u8 {
			// all boxes of one level form one case (the source is built once)
			cases.push(Case { src: s.clone(), boxes: all_boxes(z) });
		}
	}
	check.enumerate("exhaustive-zoom<=2", cases, false, oracle);

	// one versatiles block with more than 64 MiB of tile data (the reader splits its range reads
	// at that size and at gaps of more than 32 KiB): written by the repository and by the harness
	let big = vt::model::SetSpec {
		tag: "big".into(),
		levels: vec![vt::model::LevelSpec { z: 9, x0: 256, y0: 256, w: 34, h: 34, shape: vt::model::Shape::Dense, seed: check.seed as u32 }],
		pay: vt::model::Pay::Random { lo: 60_000, hi: 72_000 },
		format: vt::model::Fmt::Png,
		comp: Comp::None,
		really_compressed: false,
		advert: vt::model::Advert::Tight,
		meta: None,
	};
	let big_boxes = vec![
		BoxChoice::Exact { z: 9, x0: 256, y0: 256, x1: 289, y1: 289, empty: 0 },
		BoxChoice::Exact { z: 9, x0: 258, y0: 256, x1: 259, y1: 289, empty: 0 },
		BoxChoice::Exact { z: 9, x0: 0, y0: 270, x1: 511, y1: 289, empty: 0 },
	];
	let big_cases: Vec<Case> = [LeafKind::Repo(Target::Versatiles), LeafKind::Enc(Target::Versatiles, check.seed as u32)].into_iter().map(|kind| Case { src: Src::Leaf(Leaf { spec: big.clone(), kind }), boxes: big_boxes.clone() }).collect();
	let w = check.workers;
	check.workers = 2;
	check.enumerate("block>64MiB", big_cases, false, oracle);
	check.workers = w;

	check.phase("sampled", check.cases(6000, 150_000), strategy, oracle);
	// the parallel stream stages size themselves by the number of CPUs: the same oracle with one
	// CPU visible (child process per case, sched_setaffinity); there a stream that can never
	// finish is recognised by quiescence, not by a time limit
	check.phase("one-cpu", check.cases(150, 3000), strategy, one_cpu_oracle);
	check.finish();
}

//! C11 — vectortiles_update_properties changes only the property sets of the features in the
//! named layer, as the join with the data file says; decoding and re-encoding a valid vector
//! tile preserves its content. Oracle: the harness's independent MVT codec (vt::mvt).

use proptest::prelude::*;
use serde::{Deserialize, Serialize};
use std::collections::{BTreeMap, BTreeSet};
use std::path::Path;
use versatiles_core::types::{Blob, TileBBox};
use versatiles_geometry::vector_tile::VectorTile;
use vt::engine::{guard, Check, Fail, Obs};
use vt::model::{Coord, Fmt, MemReader, Mix, TileSet};
use vt::mvt::{self, CanonValue, Props, SemLayer, Tile, Value};
use vt::sources::{factory_with, Source};
use vt::util::{self, Comp, TmpGuard};
use vt::{ensure_prop, fail};

// ---------------------------------------------------------------------------------------
// phase 1: decode / re-encode round trip
// ---------------------------------------------------------------------------------------

#[derive(Clone, Debug, Serialize, Deserialize)]
struct RtCase {
	tile: Tile,
	layout: u32,
}

fn rt_strategy() -> impl Strategy<Value = RtCase> {
	(mvt::tile(0, 4, 6), any::<u32>()).prop_map(|(mut tile, layout)| {
		mvt::sanitise(&mut [&mut tile]);
		RtCase { tile, layout }
	})
}

fn label_tile(t: &Tile, obs: &mut Obs) {
	let mut l = BTreeSet::new();
	mvt::labels(t, &mut l);
	for x in l {
		obs.label(x);
	}
}

/// `want` and `got` must be the same tile content: same layers in order, each with the same
/// extent, version and features (id, type, geometry words, property map).
fn same_content(ctx: &str, sig: &str, want: &[SemLayer], got: &[SemLayer]) -> Result<(), Fail> {
	let wn: Vec<&String> = want.iter().map(|l| &l.name).collect();
	let gn: Vec<&String> = got.iter().map(|l| &l.name).collect();
	ensure_prop!(wn == gn, format!("{sig}:layer-list-changed"), "{ctx}: layers {wn:?} became {gn:?}");
	for (w, g) in want.iter().zip(got) {
		if let Some(d) = mvt::diff_layer(w, g) {
			fail!(format!("{sig}:content-changed"), "{ctx}: {d}");
		}
	}
	Ok(())
}

fn rt_oracle(case: &RtCase, obs: &mut Obs) -> Result<(), Fail> {
	let (bytes, want) = mvt::checked_encode(&case.tile, case.layout)?;
	let decoded = match guard(|| VectorTile::from_blob(&Blob::from(bytes.clone()))) {
		Ok(Ok(t)) => t,
		Ok(Err(e)) => fail!("roundtrip:decode-error", "a valid vector tile ({} bytes, {}) is rejected: {e:#}", bytes.len(), util::hex_short(&bytes)),
		Err(p) => return Err(Fail::from_panic("VectorTile::from_blob on a valid tile", &p)),
	};
	let out = match guard(|| decoded.to_blob()) {
		Ok(Ok(b)) => b.into_vec(),
		Ok(Err(e)) => fail!("roundtrip:encode-error", "re-encoding a decoded tile fails: {e:#}"),
		Err(p) => return Err(Fail::from_panic("VectorTile::to_blob", &p)),
	};
	let got = mvt::decode_sem(&out).map_err(|e| Fail::new("roundtrip:output-not-a-valid-tile", format!("the re-encoded tile ({} bytes, {}) is not a valid vector tile: {e}", out.len(), util::hex_short(&out))))?;
	same_content("decode + re-encode", "roundtrip", &want, &got)?;
	label_tile(&case.tile, obs);
	let l = &case.tile.layers;
	obs.nontrivial(l.iter().any(|l| !l.features.is_empty() && (l.has_duplicate_entries() || l.has_unused_entries())));
	obs.count("features", l.iter().map(|l| l.features.len() as u64).sum());
	Ok(())
}

// ---------------------------------------------------------------------------------------
// phase 2: the update stage
// ---------------------------------------------------------------------------------------

#[derive(Clone, Debug, Serialize, Deserialize)]
struct Csv {
	header: Vec<String>,
	rows: Vec<Vec<String>>,
	crlf: bool,
	final_newline: bool,
	quote_all: bool,
}

#[derive(Clone, Debug, Serialize, Deserialize)]
struct UpCase {
	z: u8,
	comp: Comp,
	default_stream: bool,
	/// (dx, dy, tile, layout): tile at (1 + dx, 1 + dy); the first one wins on equal coordinates
	tiles: Vec<(u8, u8, Tile, u32)>,
	csv: Csv,
	/// column of the header that is `id_field_data`
	id_col: usize,
	layer_name: String,
	id_field_tiles: String,
	/// None = parameter not written
	replace: Option<bool>,
	remove: Option<bool>,
	include_id: Option<bool>,
}

const ID_CELLS: [&str; 20] = ["0", "1", "2", "3", "4", "5", "6", "-1", "-2", "a", "b", "c", "d", "x y", "1.5", "-2.25", "true", "0.1", "2.3", "-3.14159"];

/// How the data file's cells are typed (the documented rule of the CSV import): empty -> empty
/// string, true/false -> bool, [-]digits*.digits+ -> double, -digits+ -> int, digits+ -> uint,
/// anything else -> string.
fn parse_cell(s: &str) -> CanonValue {
	match s {
		"" => return CanonValue::Str(String::new()),
		"true" => return CanonValue::Bool(true),
		"false" => return CanonValue::Bool(false),
		_ => {}
	}
	let digits = |t: &str| !t.is_empty() && t.bytes().all(|b| b.is_ascii_digit());
	let (neg, rest) = match s.strip_prefix('-') {
		Some(r) => (true, r),
		None => (false, s),
	};
	if let Some((a, b)) = rest.split_once('.') {
		if (a.is_empty() || digits(a)) && digits(b) {
			return CanonValue::F64(s.parse::<f64>().expect("harness: double cell").to_bits());
		}
	}
	if neg && digits(rest) {
		return CanonValue::I64(s.parse::<i64>().expect("harness: int cell beyond 64 bits generated"));
	}
	if !neg && digits(s) {
		return CanonValue::U64(s.parse::<u64>().expect("harness: uint cell beyond 64 bits generated"));
	}
	CanonValue::Str(s.to_string())
}

/// keep generated free-form cells inside what the importer is documented to accept
fn clean_cell(s: String) -> String {
	let s: String = s.chars().map(|c| if c == '\r' { ' ' } else if c.is_numeric() && !c.is_ascii_digit() { 'x' } else { c }).collect();
	match parse_cell(&s) {
		// no zero doubles from the table (see mvt::sanitise: +0.0 / -0.0 in one layer)
		CanonValue::F64(b) if f64::from_bits(b) == 0.0 => "1.5".to_string(),
		_ => s,
	}
}

fn cell() -> impl Strategy<Value = String> {
	let fixed = |v: &'static [&'static str]| (0usize..v.len()).prop_map(move |i| v[i].to_string());
	prop_oneof![
		2 => Just(String::new()),
		2 => fixed(&["true", "false"]),
		3 => prop_oneof![
			(0u64..20).prop_map(|x| x.to_string()),
			fixed(&["007", "00", "18446744073709551615", "9223372036854775808", "4611686018427387904"]),
			any::<u64>().prop_map(|x| x.to_string()),
		],
		2 => prop_oneof![
			fixed(&["-1", "-0", "-9223372036854775808", "-007", "-4611686018427387904", "-4611686018427387905"]),
			(i64::MIN..0).prop_map(|x| x.to_string()),
		],
		3 => fixed(&["1.5", "-2.25", ".5", "-.5", "10.0", "3.14159", "0.1", "123456789.125", "1.50"]),
		4 => fixed(&["abc", "x y", "a,b", "say \"hi\"", "line\nbreak", "ä中", " lead", "trail ", "1e5", "+5", "1.", "TRUE", "-", ".", "-.", "5 ", "0x10", "1,5", "null", "NaN", "inf", "\"", "--1", "1-", "1.2.3"]),
		1 => proptest::collection::vec(prop_oneof![4 => proptest::char::range('a', 'z'), 1 => Just(' '), 1 => Just('"'), 1 => Just(','), 1 => Just('\n'), 1 => any::<char>()], 0..6).prop_map(|v| clean_cell(v.into_iter().collect())),
	]
}

fn csv() -> impl Strategy<Value = (Csv, usize)> {
	(
		prop_oneof![3 => Just("id"), 2 => Just("key"), 1 => Just("ID code")],
		proptest::collection::vec(0usize..mvt::KEYS.len(), 0..4),
		any::<u16>(),
		proptest::collection::vec((0usize..ID_CELLS.len(), proptest::collection::vec(cell(), 4)), 0..7),
		any::<bool>(),
		any::<bool>(),
		proptest::bool::weighted(0.2),
	)
		.prop_map(|(idname, others, at, rows, crlf, final_newline, quote_all)| {
			let mut header: Vec<String> = vec![];
			for o in others {
				let n = mvt::KEYS[o].to_string();
				if n != idname && !header.contains(&n) {
					header.push(n);
				}
			}
			let id_col = util::pick(at as u32, header.len() + 1);
			let n_other = header.len();
			header.insert(id_col, idname.to_string());
			let mut seen = BTreeSet::new();
			let mut out_rows = vec![];
			for (id, cells) in rows {
				if !seen.insert(id) {
					continue;
				}
				let mut r: Vec<String> = cells.into_iter().take(n_other).collect();
				r.insert(id_col, ID_CELLS[id].to_string());
				out_rows.push(r);
			}
			(Csv { header, rows: out_rows, crlf, final_newline, quote_all }, id_col)
		})
}

fn up_strategy() -> impl Strategy<Value = UpCase> {
	(
		(2u8..=12, 0usize..3, any::<bool>()),
		proptest::collection::vec((0u8..2, 0u8..2, mvt::tile(1, 4, 6), any::<u32>()), 1..=4),
		csv(),
		prop_oneof![5 => 0usize..2, 2 => 0usize..mvt::LAYER_NAMES.len(), 1 => Just(usize::MAX)],
		prop_oneof![7 => Just(0usize), 1 => 1usize..mvt::KEYS.len(), 1 => Just(usize::MAX)],
		(proptest::option::weighted(0.8, any::<bool>()), proptest::option::weighted(0.8, any::<bool>()), proptest::option::weighted(0.8, any::<bool>())),
		any::<u64>(),
	)
		.prop_map(|((z, comp, default_stream), tiles, (csv, id_col), layer, idf, (replace, remove, include_id), steer_seed)| {
			let mut case = UpCase {
				z,
				comp: Comp::ALL[comp],
				default_stream,
				tiles,
				csv,
				id_col,
				layer_name: mvt::LAYER_NAMES.get(layer).copied().unwrap_or("no such layer").to_string(),
				id_field_tiles: mvt::KEYS.get(idf).copied().unwrap_or("nokey").to_string(),
				replace,
				remove,
				include_id,
			};
			steer(&mut case, steer_seed);
			let mut refs: Vec<&mut Tile> = case.tiles.iter_mut().map(|t| &mut t.2).collect();
			mvt::sanitise(&mut refs);
			case
		})
}

/// a table value whose canonical text is the text of the (canonical) id cell
fn value_for_cell(cell: &str, m: &mut Mix) -> Value {
	let pickv = m.below(3);
	match parse_cell(cell) {
		CanonValue::Str(s) => Value::Str(s),
		CanonValue::Bool(b) => Value::Bool(b),
		CanonValue::U64(u) => match pickv {
			0 => Value::Sint(u as i64),
			1 => Value::Int(u as i64),
			_ => Value::Uint(u),
		},
		CanonValue::I64(i) => {
			if pickv == 0 {
				Value::Int(i)
			} else {
				Value::Sint(i)
			}
		}
		CanonValue::F64(b) => {
			let f = f64::from_bits(b);
			// an f32 whose own shortest text is the cell's text (0.1 as f32 prints as 0.1 although it
			// is not the double 0.1): the join goes by the text
			if pickv == 0 && (f as f32).to_string() == cell {
				Value::Float((f as f32).to_bits())
			} else {
				Value::Double(b)
			}
		}
		CanonValue::F32(b) => Value::Float(b),
	}
}

/// Steer the generated tiles towards the join: most features of the named layer get the id
/// field, most of those a value whose text occurs in the data table. A pure function of the
/// generated case and seed; appends to the tables only (existing tags keep their meaning).
fn steer(case: &mut UpCase, seed: u64) {
	let mut m = Mix::new(seed);
	let id_cells: Vec<String> = case.csv.rows.iter().map(|r| r[case.id_col].clone()).collect();
	let field = case.id_field_tiles.clone();
	for (_, _, tile, _) in case.tiles.iter_mut() {
		for l in tile.layers.iter_mut() {
			if l.name != case.layer_name || m.below(8) == 0 {
				continue;
			}
			let mvt::Layer { keys, values, features, .. } = l;
			for f in features.iter_mut() {
				let has = f.tags.chunks(2).any(|p| keys[p[0] as usize] == field);
				if has || m.below(5) == 0 {
					continue;
				}
				let kpos: Vec<usize> = keys.iter().enumerate().filter(|(_, k)| **k == field).map(|(i, _)| i).collect();
				let ki = if kpos.is_empty() {
					keys.push(field.clone());
					keys.len() - 1
				} else {
					kpos[m.below(kpos.len() as u64) as usize]
				};
				let vi = if !id_cells.is_empty() && m.below(3) != 0 {
					let cell = &id_cells[m.below(id_cells.len() as u64) as usize];
					let cands: Vec<usize> = values.iter().enumerate().filter(|(_, v)| &v.canon().text() == cell).map(|(i, _)| i).collect();
					if !cands.is_empty() && m.below(2) == 0 {
						cands[m.below(cands.len() as u64) as usize]
					} else {
						values.push(value_for_cell(cell, &mut m));
						values.len() - 1
					}
				} else if !values.is_empty() {
					m.below(values.len() as u64) as usize
				} else {
					continue;
				};
				if m.below(2) == 0 {
					f.tags.push(ki as u32);
					f.tags.push(vi as u32);
				} else {
					f.tags.splice(0..0, [ki as u32, vi as u32]);
				}
			}
		}
	}
}

fn render_csv(c: &Csv) -> String {
	let eol = if c.crlf { "\r\n" } else { "\n" };
	let cell = |s: &String| -> String {
		if c.quote_all || s.contains([',', '"', '\n', '\r']) {
			format!("\"{}\"", s.replace('"', "\"\""))
		} else {
			s.clone()
		}
	};
	let mut lines: Vec<String> = vec![c.header.iter().map(cell).collect::<Vec<_>>().join(",")];
	for r in &c.rows {
		lines.push(r.iter().map(cell).collect::<Vec<_>>().join(","));
	}
	let mut s = lines.join(eol);
	if c.final_newline {
		s.push_str(eol);
	}
	s
}

fn vpl_quote(s: &str) -> String {
	format!("\"{}\"", s.replace('\\', "\\\\").replace('"', "\\\""))
}

#[derive(Default)]
struct JoinStats {
	matched: usize,
	unmatched: usize,
	without_id: usize,
	overridden: usize,
}

/// The tile the stage must deliver for `input`.
fn expected(input: &[SemLayer], case: &UpCase, table: &BTreeMap<String, Props>, st: &mut JoinStats) -> Vec<SemLayer> {
	let replace = case.replace.unwrap_or(false);
	let remove = case.remove.unwrap_or(false);
	input
		.iter()
		.map(|l| {
			if l.name != case.layer_name {
				return l.clone();
			}
			let mut out = l.clone();
			out.features.clear();
			for f in &l.features {
				let mut f = f.clone();
				match f.props.get(&case.id_field_tiles) {
					None => st.without_id += 1,
					Some(idv) => match table.get(&idv.text()) {
						Some(row) => {
							st.matched += 1;
							if replace {
								f.props = row.clone();
							} else {
								for (k, v) in row {
									if f.props.insert(k.clone(), v.clone()).is_some_and(|old| &old != v) {
										st.overridden += 1;
									}
								}
							}
						}
						None => {
							st.unmatched += 1;
							if remove {
								continue;
							}
						}
					},
				}
				out.features.push(f);
			}
			out
		})
		.collect()
}

fn compare_updated(ctx: &str, named: &str, want: &[SemLayer], got: &[SemLayer]) -> Result<(), Fail> {
	let wn: Vec<&String> = want.iter().map(|l| &l.name).collect();
	let gn: Vec<&String> = got.iter().map(|l| &l.name).collect();
	ensure_prop!(wn == gn, "update:layer-list-changed", "{ctx}: layers {wn:?} became {gn:?}");
	for (w, g) in want.iter().zip(got) {
		if w.name != named {
			if let Some(d) = mvt::diff_layer(w, g) {
				fail!("update:other-layer-changed", "{ctx}: a layer other than {named:?} changed: {d}");
			}
			continue;
		}
		ensure_prop!(w.extent == g.extent && w.version == g.version, "update:named-layer-header-changed", "{ctx}: layer {named:?}: extent/version {}/{} became {}/{}", w.extent, w.version, g.extent, g.version);
		let ws: Vec<_> = w.features.iter().map(|f| f.shell()).collect();
		let gs: Vec<_> = g.features.iter().map(|f| f.shell()).collect();
		ensure_prop!(ws == gs, "update:retained-features-differ", "{ctx}: layer {named:?}: the retained features (id, type, geometry) must be {ws:?} in this order, found {gs:?}");
		for (i, (wf, gf)) in w.features.iter().zip(&g.features).enumerate() {
			ensure_prop!(wf.props == gf.props, "update:properties-wrong", "{ctx}: layer {named:?} feature {i} (id {:?}): properties must be {}, found {}", wf.id, mvt::fmt_props(&wf.props), mvt::fmt_props(&gf.props));
		}
	}
	Ok(())
}

fn up_oracle(case: &UpCase, obs: &mut Obs) -> Result<(), Fail> {
	// --- the source: harness-encoded tiles, really compressed
	let mut raw: BTreeMap<Coord, Vec<u8>> = BTreeMap::new();
	let mut sem: BTreeMap<Coord, Vec<SemLayer>> = BTreeMap::new();
	let mut models: BTreeMap<Coord, &Tile> = BTreeMap::new();
	for (dx, dy, tile, layout) in &case.tiles {
		let c = Coord::new(case.z, 1 + *dx as u32, 1 + *dy as u32);
		if raw.contains_key(&c) {
			continue;
		}
		let (bytes, s) = mvt::checked_encode(tile, *layout)?;
		raw.insert(c, bytes);
		sem.insert(c, s);
		models.insert(c, tile);
	}
	let stored: BTreeMap<Coord, Vec<u8>> = raw.iter().map(|(c, b)| (*c, util::compress(b, case.comp))).collect();
	let mut set = TileSet { format: Fmt::Pbf, comp: case.comp, tiles: stored, raw, pyramid: BTreeMap::new(), meta: None };
	set.pyramid = set.all_boxes();
	let mut reader = MemReader::new(&set, "leaf0");
	if case.default_stream {
		reader = reader.with_default_stream();
	}

	// --- the data file
	let csv_text = render_csv(&case.csv);
	let csv_path = util::tmp_path(".csv");
	let _g = TmpGuard(csv_path.clone());
	std::fs::write(&csv_path, &csv_text).map_err(|e| Fail::new("harness:csv-write", e.to_string()))?;
	let id_field_data = &case.csv.header[case.id_col];
	let include_id = case.include_id.unwrap_or(false);
	let mut table: BTreeMap<String, Props> = BTreeMap::new();
	for r in &case.csv.rows {
		let idv = parse_cell(&r[case.id_col]);
		ensure_prop!(idv.text() == r[case.id_col], "harness:ambiguous-id-cell", "id cell {:?} is not in canonical form", r[case.id_col]);
		let mut p = Props::new();
		for (i, cell) in r.iter().enumerate() {
			if i != case.id_col || include_id {
				p.insert(case.csv.header[i].clone(), parse_cell(cell));
			}
		}
		ensure_prop!(table.insert(idv.text(), p).is_none(), "harness:duplicate-id", "id {:?} twice in the data table", r[case.id_col]);
	}

	// --- the pipeline
	let mut text = format!(
		"from_container filename=\"leaf0\" | vectortiles_update_properties data_source_path={} layer_name={} id_field_tiles={} id_field_data={}",
		vpl_quote(csv_path.to_str().unwrap()),
		vpl_quote(&case.layer_name),
		vpl_quote(&case.id_field_tiles),
		vpl_quote(id_field_data)
	);
	for (name, v) in [("replace_properties", case.replace), ("remove_non_matching", case.remove), ("include_id", case.include_id)] {
		if let Some(b) = v {
			text.push_str(&format!(" {name}={b}"));
		}
	}
	let factory = factory_with(vec![Box::new(reader)], Path::new(""));
	let op = match guard(|| util::block_on(factory.operation_from_vpl(&text))) {
		Ok(Ok(op)) => op,
		Ok(Err(e)) => fail!("update:build-error", "building {text:?} with data file {csv_text:?} failed: {e:#}"),
		Err(p) => return Err(Fail::from_panic(&format!("building {text:?} with data file {csv_text:?}"), &p)),
	};
	let source = Source::Op(op);
	let out_comp = source.comp();

	// --- expectations
	let mut st = JoinStats::default();
	let mut nontrivial = false;
	let mut want: BTreeMap<Coord, Vec<SemLayer>> = BTreeMap::new();
	for (c, input) in &sem {
		let mut s = JoinStats::default();
		want.insert(*c, expected(input, case, &table, &mut s));
		if input.len() >= 2 && s.matched >= 1 && s.unmatched >= 1 {
			nontrivial = true;
		}
		st.matched += s.matched;
		st.unmatched += s.unmatched;
		st.without_id += s.without_id;
		st.overridden += s.overridden;
	}
	let opts = format!("options: replace={:?} remove={:?} include_id={:?} layer={:?} id_field_tiles={:?} id_field_data={:?}; data file {csv_text:?}", case.replace, case.remove, case.include_id, case.layer_name, case.id_field_tiles, id_field_data);
	let check_tile = |how: &str, c: &Coord, bytes: &[u8]| -> Result<(), Fail> {
		let ctx = format!("{how} {c} ({opts})");
		let plain = util::decompress(bytes, out_comp).map_err(|e| Fail::new("update:output-not-decodable", format!("{ctx}: the output does not decode with the declared compression {out_comp:?}: {e}")))?;
		let got = mvt::decode_sem(&plain).map_err(|e| Fail::new("update:output-not-a-valid-tile", format!("{ctx}: the output ({} bytes, {}) is not a valid vector tile: {e}", plain.len(), util::hex_short(&plain))))?;
		compare_updated(&ctx, &case.layer_name, &want[c], &got)
	};

	// --- lookups
	for c in want.keys() {
		match source.lookup(c) {
			Ok(Ok(Some(b))) => check_tile("lookup", c, &b)?,
			Ok(Ok(None)) => fail!("update:tile-lost", "lookup {c}: the source has a tile, the stage returns none ({opts})"),
			Ok(Err(e)) => fail!("update:lookup-error", "lookup {c} fails: {e} ({opts})"),
			Err(p) => return Err(Fail::from_panic(&format!("lookup {c} ({opts})"), &p)),
		}
	}
	// --- stream over the box around all tiles
	let bbox = TileBBox::new(case.z, 0, 0, 3, 3).map_err(|e| Fail::new("harness:bad-box", e.to_string()))?;
	let streamed = match source.stream(bbox) {
		Ok(s) => s,
		Err(p) => return Err(Fail::from_panic(&format!("stream ({opts})"), &p)),
	};
	let mut seen = BTreeSet::new();
	for (c, b) in &streamed {
		if want.contains_key(c) {
			ensure_prop!(seen.insert(*c), "update:stream-duplicate", "the stream delivers {c} twice");
			check_tile("stream", c, b)?;
		}
	}
	for c in want.keys() {
		ensure_prop!(seen.contains(c), "update:tile-lost", "stream: the source has a tile at {c}, the stage's stream does not deliver it ({opts})");
	}

	// --- evidence
	for t in models.values() {
		label_tile(t, obs);
	}
	obs.label(format!("compression:{}", case.comp.name()));
	obs.label(format!("replace={:?}", case.replace));
	obs.label(format!("remove={:?}", case.remove));
	obs.label(format!("include_id={:?}", case.include_id));
	obs.label_if(case.default_stream, "leaf:default-stream");
	let present = sem.values().any(|t| t.iter().any(|l| l.name == case.layer_name));
	obs.label(if present { "named-layer:present" } else { "named-layer:absent" });
	obs.label_if(sem.values().any(|t| t.iter().all(|l| l.name != case.layer_name)) && present, "named-layer:absent-in-some-tile");
	obs.label_if(st.matched > 0, "join:matched");
	obs.label_if(st.unmatched > 0, "join:unmatched");
	obs.label_if(st.without_id > 0, "join:feature-without-id-field");
	obs.label_if(st.overridden > 0, "join:row-overrides-old-value");
	obs.label_if(st.unmatched > 0 && case.remove == Some(true), "join:features-removed");
	obs.label_if(case.csv.rows.is_empty(), "csv:no-rows");
	obs.label_if(case.csv.header.len() == 1, "csv:id-column-only");
	obs.label_if(case.csv.quote_all, "csv:all-quoted");
	obs.label_if(case.csv.crlf, "csv:crlf");
	obs.label_if(id_field_data == &case.id_field_tiles, "csv:id-column-named-like-tile-field");
	for r in &case.csv.rows {
		for (i, cell) in r.iter().enumerate() {
			if i != case.id_col {
				obs.label(match parse_cell(cell) {
					CanonValue::Str(s) if s.is_empty() => "cell:empty",
					CanonValue::Str(s) if s.contains([',', '"', '\n']) => "cell:string-needing-quotes",
					CanonValue::Str(_) => "cell:string",
					CanonValue::Bool(_) => "cell:bool",
					CanonValue::F64(_) => "cell:double",
					CanonValue::I64(_) => "cell:int",
					CanonValue::U64(_) => "cell:uint",
					CanonValue::F32(_) => "cell:?",
				});
			}
		}
	}
	obs.count("tiles", want.len() as u64 * 2);
	obs.count("features-matched", st.matched as u64);
	obs.count("features-unmatched", st.unmatched as u64);
	obs.count("features-without-id-field", st.without_id as u64);
	obs.nontrivial(nontrivial);
	Ok(())
}

/// one layer with more than 65536 distinct values (`by_key = false`: every feature has the shared
/// key "kind" and its own value) or keys (`by_key = true`): tables beyond 8- and 16-bit indices
fn big_layer(n: u32, by_key: bool) -> Tile {
	let mut keys: Vec<String> = vec!["id".into(), "kind".into()];
	let mut values: Vec<Value> = vec![Value::Str("tree".into())];
	let mut features = vec![];
	for i in 0..n {
		let (k, v) = if by_key {
			keys.push(format!("k{i}"));
			(keys.len() as u32 - 1, 0)
		} else {
			values.push(Value::Str(format!("r{i}")));
			(1, values.len() as u32 - 1)
		};
		values.push(Value::Uint(i as u64));
		// properties: id = i, and the own key (-> "tree") or "kind" -> the own value
		features.push(mvt::Feature { id: Some(i as u64), tags: vec![0, values.len() as u32 - 1, k, v], geom_type: 1, geometry: vec![9, 2 * (i % 4096), 2 * (i / 4096)] });
	}
	Tile { layers: vec![mvt::Layer { name: mvt::LAYER_NAMES[0].to_string(), extent: Some(4096), version: Some(2), keys, values, features }] }
}

/// one layer whose value table holds `n` distinct numbers of one float kind, each used by one
/// feature, one of them NaN: a valid tile on which an ordering of the values that is not total
/// shows (the table is rebuilt sorted by use count and value)
fn nan_layer(n: u32, nan_at: u32, double: bool) -> Tile {
	let keys: Vec<String> = vec!["id".into(), "kind".into()];
	let mut values: Vec<Value> = vec![];
	let mut features = vec![];
	for i in 0..n {
		let x = (i * 7919 % n) as f64 + 0.5;
		values.push(match (i == nan_at, double) {
			(true, true) => Value::Double(f64::NAN.to_bits()),
			(true, false) => Value::Float(f32::NAN.to_bits()),
			(false, true) => Value::Double(x.to_bits()),
			(false, false) => Value::Float((x as f32).to_bits()),
		});
		values.push(Value::Uint(i as u64));
		features.push(mvt::Feature { id: Some(i as u64), tags: vec![0, values.len() as u32 - 1, 1, values.len() as u32 - 2], geom_type: 1, geometry: vec![9, 2 * i, 2] });
	}
	Tile { layers: vec![mvt::Layer { name: mvt::LAYER_NAMES[0].to_string(), extent: Some(4096), version: Some(2), keys, values, features }] }
}

fn nan_layers() -> Vec<Tile> {
	let mut v = vec![];
	for n in [21u32, 22, 33, 64, 200] {
		for nan_at in [0, 1, n - 1] {
			v.push(nan_layer(n, nan_at, (n + nan_at) % 2 == 0));
		}
	}
	v
}

fn big_update_cases() -> Vec<UpCase> {
	let mut v = vec![];
	for (i, t) in nan_layers().into_iter().enumerate() {
		v.push(UpCase {
			z: 3,
			comp: Comp::ALL[i % 3],
			default_stream: i % 2 == 0,
			tiles: vec![(0, 0, t, i as u32)],
			csv: Csv { header: vec!["id".into(), "colour".into()], rows: vec![vec!["3".into(), "green".into()], vec!["20".into(), "red".into()], vec!["a".into(), "x".into()]], crlf: false, final_newline: true, quote_all: false },
			id_col: 0,
			layer_name: mvt::LAYER_NAMES[0].to_string(),
			id_field_tiles: "id".into(),
			replace: None,
			remove: if i % 4 == 0 { Some(true) } else { None },
			include_id: None,
		});
	}
	for (by_key, n, remove) in [(false, 70_000u32, None), (true, 66_000, Some(false))] {
		v.push(UpCase {
			z: 3,
			comp: Comp::Gzip,
			default_stream: false,
			tiles: vec![(0, 0, big_layer(n, by_key), 0)],
			csv: Csv { header: vec!["id".into(), "colour".into()], rows: vec![vec!["3".into(), "green".into()], vec!["69999".into(), "red".into()], vec!["a".into(), "x".into()]], crlf: false, final_newline: true, quote_all: false },
			id_col: 0,
			layer_name: mvt::LAYER_NAMES[0].to_string(),
			id_field_tiles: "id".into(),
			replace: None,
			remove,
			include_id: None,
		});
	}
	v
}

fn main() {
	let mut check = Check::from_args(
		"C11",
		"exploration",
		"tiles from the harness's own MVT model/encoder (written from the MVT 2.1 layout, not the repository's code): 0-4 layers with distinct names, key/value tables as other encoders write them (duplicate and unused entries, tables before/after/interleaved with the features, defaults written or omitted), values of all seven kinds incl. int vs sint, i64::MIN, magnitudes >= 2^62, u64::MAX, infinities, -0.0, features with/without id (0, 2^63, 2^64-1), geometry types 0-3, opaque geometry words, extents and versions present/absent; plus fixed tiles whose layer has 66 000 distinct keys or 70 000 distinct values, and fixed tiles with one NaN among 21-200 distinct floats of equal use count; never the same key twice in one feature, NaN only as the quiet NaN of its kind, never +0.0 and -0.0 of one float kind in one case. Phase roundtrip: VectorTile::from_blob -> to_blob, input and output decoded by the harness decoder must agree in layer order, extent, version and per feature id/type/geometry words/property map (tags resolved by table index as written; tables themselves are not compared). Phase update: 1-4 such tiles (>= 1 layer) in an in-memory source (none/gzip/brotli really applied) | vectortiles_update_properties with a generated CSV (unique canonical id cells from {0..6,-1,-2,a-d,'x y',1.5,-2.25,true,0.1,2.3,-3.14159}; the tile side also as the f32 whose shortest text is the cell; other cells empty/bool/uint/int/double/strings incl. quotes, commas, newlines; quoting, CRLF, final newline varied), every combination of replace_properties/remove_non_matching/include_id written or omitted, layer present/absent, id field present/absent per feature; a feature matches the row whose id cell's canonical text equals the canonical text of the feature's id value (decimal integers, shortest float text, the string, true/false). Oracle on lookups and on the bbox stream (decoded with the declared compression): other layers equal; in the named layer extent/version kept, retained features keep id, type, geometry words and order, removed = exactly the features with an id value without row iff remove_non_matching, properties = row (without the id column unless include_id) when replacing, old + row (row wins) when merging, unchanged otherwise. Non-trivial (update) = a tile with >= 2 layers and >= 1 matched and >= 1 unmatched feature in the named layer; (roundtrip) = a layer with features whose tables hold duplicate or unused entries. Distinct = distinct case value.",
	);
	check.assume("harness MVT codec (self-checked on every case: decode(encode(t)) == t); flate2/brotli as reference decompressors; typing of CSV cells modelled from the documented rule (digit strings within 64 bits only); Rust's float Display as the canonical float text");
	vt::engine::watchdog(3600);

	let reg: Vec<RtCase> = check.regression_cases("roundtrip");
	check.enumerate("regressions-roundtrip", reg, false, rt_oracle);
	let reg: Vec<UpCase> = check.regression_cases("update");
	check.enumerate("regressions-update", reg, false, up_oracle);

	// tables with more than 65536 entries (one layer of 66 000 / 70 000 features)
	let w = check.workers;
	check.workers = 2;
	let mut rt_fixed = vec![RtCase { tile: big_layer(70_000, false), layout: 0 }, RtCase { tile: big_layer(66_000, true), layout: 7 }];
	rt_fixed.extend(nan_layers().into_iter().enumerate().map(|(i, tile)| RtCase { tile, layout: i as u32 }));
	check.enumerate("roundtrip-big-tables", rt_fixed, false, rt_oracle);
	check.enumerate("update-big-tables", big_update_cases(), false, up_oracle);
	check.workers = w;

	check.phase("roundtrip", check.cases(400_000, 4_000_000), rt_strategy, rt_oracle);
	check.phase("update", check.cases(150_000, 1_500_000), up_strategy, up_oracle);
	check.finish();
}

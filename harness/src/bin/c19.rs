//! C19 — decoders report malformed input as an error and never bring the process down.
//!
//! Every case (entry point + bytes) is executed by a worker process (`c19 --worker`), so that
//! aborts, stack overflows and kills are observable; the worker runs each case on a thread
//! with a 2 MiB stack under `catch_unwind`, with a tracking allocator measuring the peak heap
//! growth. Outcome must be a value or an `Err`.

use proptest::prelude::*;
use serde::{Deserialize, Serialize};
use std::alloc::{GlobalAlloc, Layout, System};
use std::io::{BufRead, BufReader, Read, Write};
use std::process::{Child, ChildStdin, ChildStdout, Command, Stdio};
use std::sync::atomic::{AtomicUsize, Ordering};
use vt::codec;
use vt::engine::{Check, Fail, Obs};
use vt::gen::{self, GenCfg};
use vt::model::{Advert, Coord, Fmt, SetSpec};
use vt::util::{self, Comp};

// ---------------------------------------------------------------------------------------
// tracking allocator
// ---------------------------------------------------------------------------------------

struct Tracking;
static CUR: AtomicUsize = AtomicUsize::new(0);
static PEAK: AtomicUsize = AtomicUsize::new(0);

/// debugging aid (`C19_TRACE_ALLOC=1` in the worker): print a backtrace for huge allocations
static TRACE: std::sync::atomic::AtomicBool = std::sync::atomic::AtomicBool::new(false);
fn trace_big(size: usize) {
	if size >= (64 << 20) && TRACE.swap(false, Ordering::SeqCst) {
		eprintln!("BIG ALLOCATION of {} MiB at:\n{}", size >> 20, std::backtrace::Backtrace::force_capture());
		TRACE.store(true, Ordering::SeqCst);
	}
}

unsafe impl GlobalAlloc for Tracking {
	unsafe fn alloc(&self, l: Layout) -> *mut u8 {
		trace_big(l.size());
		let p = System.alloc(l);
		if !p.is_null() {
			let c = CUR.fetch_add(l.size(), Ordering::Relaxed) + l.size();
			PEAK.fetch_max(c, Ordering::Relaxed);
		}
		p
	}
	unsafe fn dealloc(&self, p: *mut u8, l: Layout) {
		System.dealloc(p, l);
		CUR.fetch_sub(l.size(), Ordering::Relaxed);
	}
	unsafe fn alloc_zeroed(&self, l: Layout) -> *mut u8 {
		trace_big(l.size());
		let p = System.alloc_zeroed(l);
		if !p.is_null() {
			let c = CUR.fetch_add(l.size(), Ordering::Relaxed) + l.size();
			PEAK.fetch_max(c, Ordering::Relaxed);
		}
		p
	}
	unsafe fn realloc(&self, p: *mut u8, l: Layout, new: usize) -> *mut u8 {
		trace_big(new);
		let q = System.realloc(p, l, new);
		if !q.is_null() {
			if new >= l.size() {
				let c = CUR.fetch_add(new - l.size(), Ordering::Relaxed) + (new - l.size());
				PEAK.fetch_max(c, Ordering::Relaxed);
			} else {
				CUR.fetch_sub(l.size() - new, Ordering::Relaxed);
			}
		}
		q
	}
}

#[global_allocator]
static ALLOC: Tracking = Tracking;

// ---------------------------------------------------------------------------------------
// cases
// ---------------------------------------------------------------------------------------

#[derive(Clone, Copy, Debug, PartialEq, Eq, PartialOrd, Ord, Hash, Serialize, Deserialize)]
enum Entry {
	Json,
	JsonBlob,
	TileJson,
	TileJsonBlob,
	Csv,
	GeoValue,
	Vpl,
	Factory,
	PipelineFile,
	Mvt,
	VersatilesBlob,
	VersatilesFile,
	PmtilesBlob,
	PmtilesFile,
	MbtilesFile,
	TarFile,
	Dir,
}

impl Entry {
	const ALL: [Entry; 17] = [
		Entry::Json,
		Entry::JsonBlob,
		Entry::TileJson,
		Entry::TileJsonBlob,
		Entry::Csv,
		Entry::GeoValue,
		Entry::Vpl,
		Entry::Factory,
		Entry::PipelineFile,
		Entry::Mvt,
		Entry::VersatilesBlob,
		Entry::VersatilesFile,
		Entry::PmtilesBlob,
		Entry::PmtilesFile,
		Entry::MbtilesFile,
		Entry::TarFile,
		Entry::Dir,
	];
	fn name(self) -> String {
		format!("{self:?}").to_lowercase()
	}
}

#[derive(Clone, Debug, Serialize, Deserialize)]
struct Case {
	entry: Entry,
	/// the input (for `Dir`: unused)
	data: Vec<u8>,
	/// for `Dir`: relative file names and contents; for `Factory`: a CSV side file `data.csv`
	files: Vec<(String, Vec<u8>)>,
	/// how the input was made (for the evidence only)
	origin: String,
}

// ---------------------------------------------------------------------------------------
// worker side
// ---------------------------------------------------------------------------------------

#[derive(Serialize, Deserialize, Debug, Clone)]
struct Reply {
	/// "value" | "err" | "panic"
	st: String,
	msg: String,
	file: String,
	line: u32,
	peak: u64,
}

fn probe_coords(params: &versatiles_core::types::TilesReaderParameters) -> Vec<versatiles_core::types::TileCoord3> {
	use versatiles_core::types::TileCoord3;
	let mut v = vec![TileCoord3 { x: 0, y: 0, z: 0 }, TileCoord3 { x: 1, y: 0, z: 1 }, TileCoord3 { x: 3, y: 3, z: 2 }, TileCoord3 { x: 0, y: 0, z: 31 }, TileCoord3 { x: 255, y: 256, z: 9 }];
	for b in params.bbox_pyramid.iter_levels().take(4) {
		if b.is_empty() {
			continue;
		}
		v.push(TileCoord3 { x: b.x_min, y: b.y_min, z: b.level });
		v.push(TileCoord3 { x: b.x_max, y: b.y_max, z: b.level });
		v.push(TileCoord3 { x: b.x_min, y: b.y_max, z: b.level });
	}
	v.truncate(16);
	v
}

async fn exercise(r: Box<dyn versatiles_core::types::TilesReaderTrait>) -> Result<String, String> {
	let coords = probe_coords(r.get_parameters());
	let _ = r.get_tilejson().as_string();
	let mut some = 0;
	let mut errs = 0;
	for c in coords {
		match r.get_tile_data(&c).await {
			Ok(Some(_)) => some += 1,
			Ok(None) => {}
			Err(_) => errs += 1,
		}
	}
	Ok(format!("opened; {some} tiles, {errs} lookup errors"))
}

/// Run one case inside the worker. Ok = value, Err = error return.
fn run_entry(case: &Case, scratch: &std::path::Path) -> Result<String, String> {
	use versatiles_core::io::DataReaderBlob;
	use versatiles_core::types::Blob;
	let text = || String::from_utf8_lossy(&case.data).to_string();
	let e2s = |e: anyhow::Error| format!("{e:#}");
	match case.entry {
		Entry::Json => versatiles_core::json::parse_json_str(&text()).map(|v| v.stringify()).map_err(e2s),
		Entry::JsonBlob => versatiles_core::json::JsonValue::parse_blob(&Blob::from(case.data.clone())).map(|v| v.stringify()).map_err(e2s),
		Entry::TileJson => versatiles_core::tilejson::TileJSON::try_from(text().as_str()).map(|t| t.as_string()).map_err(e2s),
		Entry::TileJsonBlob => {
			let blob = Blob::from(case.data.clone());
			// the conversion with an error channel, and the one the container readers use
			let strict = versatiles_core::tilejson::TileJSON::try_from(&blob).map(|t| t.as_string());
			let lenient = versatiles_core::tilejson::TileJSON::try_from_blob_or_default(&blob).as_string();
			match strict {
				Ok(s) => Ok(format!("{s} / {lenient}")),
				Err(e) => Err(e2s(e)),
			}
		}
		Entry::Csv => {
			let mut rows = 0;
			let cur = std::io::Cursor::new(case.data.clone());
			let it = versatiles_core::utils::read_csv_iter(std::io::BufReader::new(cur), b',').map_err(e2s)?;
			let mut first_err = None;
			for r in it {
				match r {
					Ok(_) => rows += 1,
					Err(e) => {
						first_err.get_or_insert(e2s(e));
						break;
					}
				}
			}
			match first_err {
				Some(e) => Err(e),
				None => Ok(format!("{rows} rows")),
			}
		}
		Entry::GeoValue => Ok(format!("{:?}", versatiles_geometry::GeoValue::parse_str(&text()))),
		Entry::Vpl => versatiles_pipeline::parse_vpl(&text()).map(|p| format!("{} nodes", p.len())).map_err(e2s),
		Entry::Factory => {
			// pipeline built from arguments, with a working reader callback and a CSV side file
			for (name, data) in &case.files {
				let _ = std::fs::write(scratch.join(name), data);
			}
			let dir = scratch.to_path_buf();
			let tile: Option<Vec<u8>> = case.files.iter().find(|(n, _)| n == "tile.pbf").map(|(_, d)| d.clone());
			let callback = Box::new(move |_filename: String| -> futures::future::BoxFuture<'static, anyhow::Result<Box<dyn versatiles_core::types::TilesReaderTrait>>> {
				let tile = tile.clone();
				Box::pin(async move {
					let spec = SetSpec { tag: "w".into(), levels: vec![vt::model::LevelSpec { z: 3, x0: 1, y0: 1, w: 3, h: 3, shape: vt::model::Shape::Dense, seed: 1 }], pay: vt::model::Pay::Mvt, format: Fmt::Pbf, comp: Comp::None, really_compressed: false, advert: Advert::Tight, meta: None };
					let mut set = spec.materialise();
					if let Some(t) = tile {
						set.tiles.insert(Coord::new(3, 2, 2), t);
					}
					Ok(Box::new(vt::model::MemReader::new(&set, "mem")) as Box<dyn versatiles_core::types::TilesReaderTrait>)
				})
			});
			let factory = versatiles_pipeline::PipelineFactory::default(&dir, callback);
			util::block_on(async {
				match factory.operation_from_vpl(&text()).await {
					Ok(op) => {
						let c = versatiles_core::types::TileCoord3 { x: 2, y: 2, z: 3 };
						match op.get_tile_data(&c).await {
							Ok(t) => Ok(format!("built; tile {}", t.is_some())),
							Err(e) => Err(e2s(e)),
						}
					}
					Err(e) => Err(e2s(e)),
				}
			})
		}
		Entry::PipelineFile => {
			let p = scratch.join("p.vpl");
			std::fs::write(&p, &case.data).map_err(|e| e.to_string())?;
			for (name, data) in &case.files {
				let _ = std::fs::write(scratch.join(name), data);
			}
			let as_blob = case.data.len() % 2 == 1;
			let dir = scratch.to_path_buf();
			util::block_on(async {
				if as_blob {
					// the variant that takes the text from a data reader (VPL fetched from elsewhere)
					match versatiles_container::PipelineReader::open_reader(Box::new(DataReaderBlob::from(case.data.clone())), &dir).await {
						Ok(r) => exercise(Box::new(r)).await,
						Err(e) => Err(e2s(e)),
					}
				} else {
					match versatiles_container::get_reader(p.to_str().unwrap()).await {
						Ok(r) => exercise(r).await,
						Err(e) => Err(e2s(e)),
					}
				}
			})
		}
		Entry::Mvt => {
			let t = versatiles_geometry::vector_tile::VectorTile::from_blob(&Blob::from(case.data.clone())).map_err(e2s)?;
			let mut feats = 0;
			let mut errs = 0;
			for l in &t.layers {
				match l.to_features() {
					Ok(f) => feats += f.len(),
					Err(_) => errs += 1,
				}
			}
			let out = t.to_blob().map_err(e2s)?;
			Ok(format!("{} layers, {feats} features, {errs} layer errors, {} bytes", t.layers.len(), out.len()))
		}
		Entry::VersatilesBlob => util::block_on(async {
			match versatiles_container::VersaTilesReader::open_reader(Box::new(DataReaderBlob::from(case.data.clone()))).await {
				Ok(r) => exercise(Box::new(r)).await,
				Err(e) => Err(e2s(e)),
			}
		}),
		Entry::PmtilesBlob => util::block_on(async {
			match versatiles_container::PMTilesReader::open_reader(Box::new(DataReaderBlob::from(case.data.clone()))).await {
				Ok(r) => exercise(Box::new(r)).await,
				Err(e) => Err(e2s(e)),
			}
		}),
		Entry::VersatilesFile | Entry::PmtilesFile | Entry::MbtilesFile | Entry::TarFile => {
			let ext = match case.entry {
				Entry::VersatilesFile => "f.versatiles",
				Entry::PmtilesFile => "f.pmtiles",
				Entry::MbtilesFile => "f.mbtiles",
				_ => "f.tar",
			};
			let p = scratch.join(ext);
			std::fs::write(&p, &case.data).map_err(|e| e.to_string())?;
			util::block_on(async {
				match versatiles_container::get_reader(p.to_str().unwrap()).await {
					Ok(r) => exercise(r).await,
					Err(e) => Err(e2s(e)),
				}
			})
		}
		Entry::Dir => {
			let root = scratch.join("d");
			let _ = std::fs::create_dir_all(&root);
			for (name, data) in &case.files {
				// names are relative and sanitised by the generator; skip anything else
				if name.starts_with('/') || name.split('/').any(|s| s == ".." || s.is_empty()) || name.contains('\0') {
					continue;
				}
				// '¿' in a generated name stands for the bytes FF FE: a name that is not valid UTF-8
				let p = {
					use std::os::unix::ffi::OsStringExt;
					let mut bytes: Vec<u8> = vec![];
					for c in name.chars() {
						if c == '¿' {
							bytes.extend_from_slice(&[0xFF, 0xFE]);
						} else {
							bytes.extend_from_slice(c.to_string().as_bytes());
						}
					}
					root.join(std::ffi::OsString::from_vec(bytes))
				};
				if let Some(parent) = p.parent() {
					let _ = std::fs::create_dir_all(parent);
				}
				let _ = std::fs::write(&p, data);
			}
			util::block_on(async {
				match versatiles_container::get_reader(root.to_str().unwrap()).await {
					Ok(r) => exercise(r).await,
					Err(e) => Err(e2s(e)),
				}
			})
		}
	}
}

fn read_frame(r: &mut impl Read) -> Option<Vec<u8>> {
	let mut len = [0u8; 4];
	r.read_exact(&mut len).ok()?;
	let n = u32::from_le_bytes(len) as usize;
	let mut buf = vec![0u8; n];
	r.read_exact(&mut buf).ok()?;
	Some(buf)
}

fn write_frame(w: &mut impl Write, data: &[u8]) -> std::io::Result<()> {
	w.write_all(&(data.len() as u32).to_le_bytes())?;
	w.write_all(data)?;
	w.flush()
}

fn encode_case(c: &Case) -> Vec<u8> {
	// header (json) + raw blobs, to avoid number arrays for large inputs
	let header = serde_json::json!({"entry": c.entry, "origin": c.origin, "data": c.data.len(), "files": c.files.iter().map(|(n, d)| (n.clone(), d.len())).collect::<Vec<_>>()});
	let h = serde_json::to_vec(&header).unwrap();
	let mut out = (h.len() as u32).to_le_bytes().to_vec();
	out.extend_from_slice(&h);
	out.extend_from_slice(&c.data);
	for (_, d) in &c.files {
		out.extend_from_slice(d);
	}
	out
}

fn decode_case(b: &[u8]) -> Option<Case> {
	let hl = u32::from_le_bytes(b.get(0..4)?.try_into().ok()?) as usize;
	let h: serde_json::Value = serde_json::from_slice(b.get(4..4 + hl)?).ok()?;
	let mut pos = 4 + hl;
	let entry: Entry = serde_json::from_value(h["entry"].clone()).ok()?;
	let dl = h["data"].as_u64()? as usize;
	let data = b.get(pos..pos + dl)?.to_vec();
	pos += dl;
	let mut files = vec![];
	for f in h["files"].as_array()? {
		let name = f[0].as_str()?.to_string();
		let l = f[1].as_u64()? as usize;
		files.push((name, b.get(pos..pos + l)?.to_vec()));
		pos += l;
	}
	Some(Case { entry, data, files, origin: h["origin"].as_str().unwrap_or("").to_string() })
}

fn worker_main() -> ! {
	vt::engine::install_panic_hook();
	if std::env::var("C19_TRACE_ALLOC").is_ok() {
		TRACE.store(true, Ordering::SeqCst);
	}
	unsafe {
		// address-space limit: a runaway allocation fails (and aborts) instead of swapping
		let lim = libc::rlimit { rlim_cur: 12 << 30, rlim_max: 12 << 30 };
		libc::setrlimit(libc::RLIMIT_AS, &lim);
	}
	let scratch = util::tmp_dir();
	let stdin = std::io::stdin();
	let mut input = stdin.lock();
	// The code under test prints to stdout now and then (e.g. the CSV reader's error list):
	// replies travel on a private duplicate of the pipe, fd 1 itself is pointed at /dev/null.
	let mut output = unsafe {
		use std::os::fd::FromRawFd;
		let reply_fd = libc::dup(1);
		let null = libc::open(c"/dev/null".as_ptr(), libc::O_WRONLY);
		if reply_fd < 0 || null < 0 {
			std::process::exit(3);
		}
		libc::dup2(null, 1);
		libc::close(null);
		std::fs::File::from_raw_fd(reply_fd)
	};
	let mut n = 0u64;
	while let Some(frame) = read_frame(&mut input) {
		let Some(case) = decode_case(&frame) else { break };
		n += 1;
		util::throttle_threads();
		let dir = scratch.join(format!("c{n}"));
		let _ = std::fs::create_dir_all(&dir);
		let before = CUR.load(Ordering::Relaxed);
		PEAK.store(before, Ordering::Relaxed);
		let dir2 = dir.clone();
		let handle = std::thread::Builder::new().stack_size(2 << 20).spawn(move || vt::engine::guard(|| run_entry(&case, &dir2))).expect("spawn");
		let res = handle.join();
		let peak = PEAK.load(Ordering::Relaxed).saturating_sub(before) as u64;
		let reply = match res {
			Ok(Ok(Ok(v))) => Reply { st: "value".into(), msg: v.chars().take(300).collect(), file: String::new(), line: 0, peak },
			Ok(Ok(Err(e))) => Reply { st: "err".into(), msg: e.chars().take(300).collect(), file: String::new(), line: 0, peak },
			Ok(Err(p)) => Reply { st: "panic".into(), msg: p.message.chars().take(300).collect(), file: p.file, line: p.line, peak },
			Err(_) => Reply { st: "panic".into(), msg: "case thread panicked outside the guard".into(), file: String::new(), line: 0, peak },
		};
		let _ = std::fs::remove_dir_all(&dir);
		let mut line = serde_json::to_vec(&reply).unwrap();
		line.push(b'\n');
		if output.write_all(&line).is_err() || output.flush().is_err() {
			break;
		}
	}
	util::cleanup_tmp();
	std::process::exit(0);
}

// ---------------------------------------------------------------------------------------
// parent side: one worker per runner thread
// ---------------------------------------------------------------------------------------

struct Worker {
	child: Child,
	stdin: ChildStdin,
	stdout: BufReader<ChildStdout>,
}

enum Outcome {
	Reply(Reply),
	Died(String),
	Timeout,
}

impl Worker {
	fn spawn() -> Worker {
		// /proc/self/exe keeps working when the file is replaced by a rebuild while the check runs
		let exe = if std::path::Path::new("/proc/self/exe").exists() { std::path::PathBuf::from("/proc/self/exe") } else { std::env::current_exe().expect("current exe") };
		let mut child = Command::new(exe).arg("--worker").stdin(Stdio::piped()).stdout(Stdio::piped()).stderr(if std::env::var("C19_TRACE_ALLOC").is_ok() { Stdio::inherit() } else { Stdio::null() }).spawn().unwrap_or_else(|e| vt::engine::die(&format!("cannot spawn worker: {e}")));
		let stdin = child.stdin.take().unwrap();
		let stdout = BufReader::new(child.stdout.take().unwrap());
		Worker { child, stdin, stdout }
	}
	fn run(&mut self, case: &Case, timeout_ms: i32) -> Outcome {
		let frame = encode_case(case);
		if write_frame(&mut self.stdin, &frame).is_err() {
			return self.died();
		}
		// wait for the reply with a timeout
		use std::os::fd::AsRawFd;
		if self.stdout.buffer().is_empty() {
			let mut pfd = libc::pollfd { fd: self.stdout.get_ref().as_raw_fd(), events: libc::POLLIN, revents: 0 };
			let r = unsafe { libc::poll(&mut pfd, 1, timeout_ms) };
			if r == 0 {
				let _ = self.child.kill();
				let _ = self.child.wait();
				return Outcome::Timeout;
			}
		}
		let mut line = String::new();
		match self.stdout.read_line(&mut line) {
			Ok(n) if n > 0 => match serde_json::from_str::<Reply>(&line) {
				Ok(r) => Outcome::Reply(r),
				Err(_) => self.died(),
			},
			_ => self.died(),
		}
	}
	fn died(&mut self) -> Outcome {
		use std::os::unix::process::ExitStatusExt;
		let st = self.child.wait();
		let how = match st {
			Ok(s) => match s.signal() {
				Some(sig) => format!("signal {sig}"),
				None => format!("exit status {:?}", s.code()),
			},
			Err(e) => format!("wait failed: {e}"),
		};
		Outcome::Died(how)
	}
}

impl Drop for Worker {
	fn drop(&mut self) {
		let _ = self.child.kill();
		let _ = self.child.wait();
	}
}

thread_local! {
	static WORKER: std::cell::RefCell<Option<Worker>> = const { std::cell::RefCell::new(None) };
}

fn run_in_worker(case: &Case) -> Outcome {
	WORKER.with(|w| {
		let mut g = w.borrow_mut();
		if g.is_none() {
			*g = Some(Worker::spawn());
		}
		let mut out = g.as_mut().unwrap().run(case, TIMEOUT_MS.load(Ordering::Relaxed) as i32);
		if let Outcome::Died(_) = out {
			// A worker that has served thousands of cases can die for reasons of its own (thread or
			// memory-map exhaustion from lingering connection-pool threads). Only a death that
			// repeats with the same input in a fresh worker is attributed to the input.
			*g = Some(Worker::spawn());
			out = g.as_mut().unwrap().run(case, TIMEOUT_MS.load(Ordering::Relaxed) as i32);
		}
		if !matches!(out, Outcome::Reply(_)) {
			*g = None; // respawn next time
		}
		out
	})
}

const ALLOC_LIMIT: u64 = 256 << 20;
/// per-case time limit (a hang is counted, never reported): 3 s in the quick tier, 10 s otherwise
static TIMEOUT_MS: AtomicUsize = AtomicUsize::new(10_000);

fn oracle(case: &Case, obs: &mut Obs) -> Result<(), Fail> {
	let size: usize = case.data.len() + case.files.iter().map(|(_, d)| d.len()).sum::<usize>();
	let e = case.entry.name();
	obs.label(format!("entry:{e}"));
	obs.label(format!("origin:{}", case.origin.split(':').next().unwrap_or("")));
	let show = || {
		let d = if case.entry == Entry::Dir { format!("{} files", case.files.len()) } else { format!("{} bytes: {}", case.data.len(), String::from_utf8_lossy(&case.data[..case.data.len().min(80)]).escape_debug()) };
		format!("{e} <- {} ({d})", case.origin)
	};
	match run_in_worker(case) {
		Outcome::Timeout => {
			obs.label("timeout");
			Ok(())
		}
		Outcome::Died(how) => Err(Fail::new(format!("abort:{e}:{}", vt::engine::normalise(&how)), format!("the process died ({how}) while decoding {}", show()))),
		Outcome::Reply(r) => {
			if r.st == "panic" {
				let p = vt::engine::PanicInfo { message: r.msg.clone(), file: r.file.clone(), line: r.line };
				return Err(Fail::new(p.signature(), format!("panic at {}:{}: {} while decoding {}", r.file, r.line, r.msg, show())));
			}
			if size <= 256 * 1024 && r.peak > ALLOC_LIMIT {
				return Err(Fail::new(format!("alloc:{e}"), format!("peak heap growth of {} MiB for an input of {} bytes while decoding {}", r.peak >> 20, size, show())));
			}
			obs.label(format!("outcome:{}", r.st));
			// non-trivial: accepted, or rejected with something else than the entry's message for garbage
			let deep = r.st == "value" || !is_shallow_error(case.entry, &r.msg);
			obs.label_if(deep && r.st == "err", "rejected-after-first-structural-check");
			obs.nontrivial(deep && case.origin != "random");
			Ok(())
		}
	}
}

/// error texts that the first structural check of an entry produces (magic numbers, header size)
fn is_shallow_error(entry: Entry, msg: &str) -> bool {
	let m = msg.to_lowercase();
	match entry {
		Entry::VersatilesBlob | Entry::VersatilesFile => m.contains("not a valid versatiles header") || m.contains("failed reading the header") && !m.contains("unknown"),
		Entry::PmtilesBlob | Entry::PmtilesFile => m.contains("magic number") || m.contains("outside blob") && m.len() < 60,
		Entry::MbtilesFile => m.contains("not a database") || m.contains("file is not"),
		Entry::TarFile => m.contains("no tiles found") || m.contains("failed to read entire block") || m.contains("numeric field"),
		Entry::Dir => m.contains("no tiles found"),
		Entry::Json | Entry::JsonBlob | Entry::TileJson | Entry::TileJsonBlob => m.contains("at position 0") || m.contains("unexpected character") && m.contains("pos 0"),
		Entry::Mvt => m.contains("failed to read pbf key") && !m.contains("layer"),
		_ => false,
	}
}

// ---------------------------------------------------------------------------------------
// valid seeds
// ---------------------------------------------------------------------------------------

fn json_value(depth: u32) -> BoxedStrategy<serde_json::Value> {
	use serde_json::Value;
	let leaf = prop_oneof![
		Just(Value::Null),
		any::<bool>().prop_map(Value::Bool),
		any::<i64>().prop_map(|v| Value::from(v)),
		(-1e300f64..1e300).prop_map(|v| Value::from(v)),
		"[ -~äöü€𝄞\\u{0}-\\u{1f}\"\\\\]{0,12}".prop_map(Value::String),
	];
	leaf.prop_recursive(depth, 40, 5, |inner| {
		prop_oneof![
			proptest::collection::vec(inner.clone(), 0..5).prop_map(Value::Array),
			proptest::collection::vec(("[a-z\"\\\\ä]{0,6}", inner), 0..5).prop_map(|kv| Value::Object(kv.into_iter().collect())),
		]
	})
	.boxed()
}

fn json_text() -> BoxedStrategy<Vec<u8>> {
	let plain = (json_value(4), any::<bool>()).prop_map(|(v, pretty)| if pretty { serde_json::to_vec_pretty(&v).unwrap() } else { serde_json::to_vec(&v).unwrap() });
	prop_oneof![5 => plain, 1 => long_multibyte(json_value(2).boxed())].boxed()
}

/// an object with the given value and a long string of multi-byte characters, shifted by 0-3
/// ASCII bytes, so that every byte offset of a buffer or message limit (1 KiB, 4 KiB, 8 KiB,
/// 64 KiB) falls inside a multi-byte character in some of the texts; optionally re-spelled
/// with white space runs
fn long_multibyte(inner: BoxedStrategy<serde_json::Value>) -> impl Strategy<Value = Vec<u8>> {
	(inner, 0usize..4, prop_oneof![4 => 200usize..1200, 2 => 1200usize..4000, 1 => 16_000usize..24_000], 0usize..4, prop_oneof![2 => Just(0u32), 1 => 1u32..]).prop_map(|(v, shift, chars, alphabet, spell)| {
		let pool: &[char] = match alphabet {
			0 => &['ä', 'ö', 'é', 'ß'],
			1 => &['€', '日', '本', '→'],
			2 => &['𝄞', '😀', '𐍈'],
			_ => &['a', 'ä', '€', '𝄞', ' ', '日'],
		};
		let mut m = vt::model::Mix::new((chars * 31 + shift) as u64);
		let long: String = (0..chars).map(|_| pool[m.below(pool.len() as u64) as usize]).collect();
		let mut o = serde_json::Map::new();
		o.insert("a".repeat(shift + 1), v);
		o.insert("description".into(), long.into());
		o.insert("tilejson".into(), "3.0.0".into());
		vt::gen::respell(&serde_json::Value::Object(o).to_string(), spell).into_bytes()
	})
}

fn tilejson_text() -> BoxedStrategy<Vec<u8>> {
	prop_oneof![5 => tilejson_plain(), 1 => long_multibyte(tilejson_plain().prop_map(|b| serde_json::from_slice(&b).unwrap_or(serde_json::Value::Null)).boxed())].boxed()
}

fn tilejson_plain() -> BoxedStrategy<Vec<u8>> {
	("[a-zA-Z äöü]{0,10}", proptest::option::of((-180.0f64..180.0, -90.0f64..90.0, -180.0f64..180.0, -90.0f64..90.0)), proptest::option::of((-180.0f64..180.0, -90.0f64..90.0, 0u8..30)), proptest::option::of(0u8..32), proptest::option::of(0u8..32), proptest::collection::vec(("[a-z_]{1,8}", proptest::collection::vec(("[a-z]{1,6}", "[A-Za-z]{1,8}"), 0..3), proptest::option::of(0u8..20)), 0..3), proptest::option::of(proptest::collection::vec("[a-z:/{}.]{0,20}", 0..3)))
		.prop_map(|(name, bounds, center, minzoom, maxzoom, layers, tiles)| {
			let mut o = serde_json::Map::new();
			o.insert("tilejson".into(), "3.0.0".into());
			o.insert("name".into(), name.into());
			if let Some(b) = bounds {
				o.insert("bounds".into(), serde_json::json!([b.0, b.1, b.2, b.3]));
			}
			if let Some(c) = center {
				o.insert("center".into(), serde_json::json!([c.0, c.1, c.2]));
			}
			if let Some(z) = minzoom {
				o.insert("minzoom".into(), z.into());
			}
			if let Some(z) = maxzoom {
				o.insert("maxzoom".into(), z.into());
			}
			if !layers.is_empty() {
				let l: Vec<serde_json::Value> = layers
					.into_iter()
					.map(|(id, fields, minz)| {
						let mut lo = serde_json::Map::new();
						lo.insert("id".into(), id.into());
						lo.insert("fields".into(), serde_json::Value::Object(fields.into_iter().map(|(k, v)| (k, v.into())).collect()));
						if let Some(z) = minz {
							lo.insert("minzoom".into(), z.into());
						}
						serde_json::Value::Object(lo)
					})
					.collect();
				o.insert("vector_layers".into(), l.into());
			}
			if let Some(t) = tiles {
				o.insert("tiles".into(), t.into());
			}
			serde_json::to_vec(&serde_json::Value::Object(o)).unwrap()
		})
		.boxed()
}

fn csv_text() -> BoxedStrategy<Vec<u8>> {
	let cell = prop_oneof![
		3 => "[a-zA-Z0-9 .-]{0,8}".prop_map(|s| s),
		1 => "[a-z,\"\\n ä]{0,8}".prop_map(|s| format!("\"{}\"", s.replace('"', "\"\""))),
		1 => any::<i64>().prop_map(|v| v.to_string()),
		1 => Just(String::new()),
	];
	(1usize..5, proptest::collection::vec((proptest::collection::vec(cell, 7), prop_oneof![8 => Just(0i8), 1 => -2i8..=2]), 0..6), prop_oneof![Just("\n"), Just("\r\n")], any::<bool>())
		.prop_map(|(cols, rows, nl, trailing)| {
			let mut lines: Vec<String> = vec![(0..cols).map(|i| format!("col{i}")).collect::<Vec<_>>().join(",")];
			for (r, ragged) in rows {
				// now and then a row with fewer or more fields than the header
				let n = (cols as i8 + ragged).clamp(1, 7) as usize;
				lines.push(r[..n].join(","));
			}
			let mut t = lines.join(nl);
			if trailing {
				t.push_str(nl);
			}
			t.into_bytes()
		})
		.boxed()
}

fn geovalue_text() -> BoxedStrategy<Vec<u8>> {
	prop_oneof![
		any::<i64>().prop_map(|v| v.to_string()),
		any::<u64>().prop_map(|v| v.to_string()),
		"[0-9]{18,40}".prop_map(|s| s),
		"-[0-9]{18,40}".prop_map(|s| s),
		"-?[0-9]{0,400}\\.[0-9]{1,400}".prop_map(|s| s),
		(-1e300f64..1e300).prop_map(|v| format!("{v}")),
		"[-.0-9eE+]{0,12}".prop_map(|s| s),
		"[ -~ä€]{0,10}".prop_map(|s| s),
		Just("true".to_string()),
	]
	.prop_map(|s| s.into_bytes())
	.boxed()
}

fn vpl_text() -> BoxedStrategy<Vec<u8>> {
	let leaf = prop_oneof![
		"[a-z.]{1,8}".prop_map(|f| format!("from_container filename=\"{f}\"")),
		Just("from_debug format=pbf".to_string()),
		"[a-z]{1,5}".prop_map(|f| format!("from_container filename={f}.versatiles")),
	];
	let tr = prop_oneof![
		(0u8..20, 0u8..20).prop_map(|(a, b)| format!("filter_zoom min={a} max={b}")),
		(-180.0f64..0.0, -85.0f64..0.0, 0.0f64..180.0, 0.0f64..85.0).prop_map(|(a, b, c, d)| format!("filter_bbox bbox=[{a}, {b}, {c}, {d}]")),
		// numbers a number parser accepts but a coordinate cannot be: NaN, infinities, huge, tiny, -0
		(proptest::collection::vec(prop_oneof![Just("NaN"), Just("nan"), Just("inf"), Just("-inf"), Just("infinity"), Just("1e999"), Just("-1e999"), Just("1e-999"), Just("-0"), Just("-0.0"), Just("180"), Just("-180"), Just("90"), Just("-90"), Just("85.0511287798066"), Just("0"), Just("1e308"), Just("\"NaN\""), Just("+5"), Just(".5"), Just("5.")], 4), any::<bool>()).prop_map(|(v, zoom)| if zoom { format!("filter_zoom min={} max={}", v[0], v[1]) } else { format!("filter_bbox bbox=[{}]", v.join(",")) }),
		Just("vectortiles_update_properties data_source_path=\"data.csv\" layer_name=w id_field_tiles=k id_field_data=col0".to_string()),
		Just("vectortiles_update_properties data_source_path=\"data.csv\" layer_name=\"w\" id_field_tiles=\"k\" id_field_data=\"col0\" replace_properties=true remove_non_matching=true include_id=true".to_string()),
	];
	let pipe = (leaf, proptest::collection::vec(tr, 0..3)).prop_map(|(l, t)| std::iter::once(l).chain(t).collect::<Vec<_>>().join(" | "));
	pipe.clone()
		.prop_recursive(3, 12, 3, |inner| {
			(prop_oneof![Just("from_overlayed"), Just("from_vectortiles_merged")], proptest::collection::vec(inner, 2..4), prop_oneof![Just(" "), Just("\n\t"), Just("")]).prop_map(|(op, v, ws)| format!("{op} [{ws}{}{ws}]", v.join(&format!(",{ws}"))))
		})
		.prop_map(|s| s.into_bytes())
		.boxed()
}

fn small_spec(pairs: Vec<(Fmt, Comp)>) -> BoxedStrategy<SetSpec> {
	let mut cfg = GenCfg::small(pairs);
	cfg.max_side = 6;
	cfg.max_levels = 2;
	cfg.heavy_payloads = false;
	cfg.adverts = vec![Advert::Tight];
	gen::set_spec(cfg).boxed()
}

/// patch of a raw section: (section selector, byte mutations)
#[derive(Clone, Debug)]
struct Patch {
	section: u8,
	muts: Vec<Mut>,
}

#[derive(Clone, Debug)]
enum Mut {
	Flip { pos: u32, bit: u8 },
	Set { pos: u32, val: u8 },
	Trunc { keep: u32 },
	Insert { pos: u32, bytes: Vec<u8> },
	Delete { pos: u32, len: u32 },
	Dup { pos: u32, len: u32 },
	U32be { pos: u32, v: u32 },
	U64be { pos: u32, v: u64 },
	U32le { pos: u32, v: u32 },
	U64le { pos: u32, v: u64 },
	Varint { pos: u32, v: u64 },
	Utf8 { pos: u32, which: u8 },
	Splice { pos: u32, from: u32, len: u32 },
}

fn boundary_u64() -> impl Strategy<Value = u64> {
	prop_oneof![
		Just(0u64),
		Just(1),
		Just(0x7f),
		Just(0x80),
		Just(0xff),
		Just(0x100),
		Just(0xffff),
		Just(0x7fff_ffff),
		Just(0x8000_0000),
		Just(0xffff_ffff),
		Just(0x1_0000_0000),
		Just(1 << 62),
		Just(i64::MAX as u64),
		Just(1 << 63),
		Just(u64::MAX),
		Just(u64::MAX - 1),
		any::<u64>(),
		0u64..70000,
	]
}

fn mutation() -> impl Strategy<Value = Mut> {
	prop_oneof![
		4 => (any::<u32>(), 0u8..8).prop_map(|(pos, bit)| Mut::Flip { pos, bit }),
		3 => (any::<u32>(), prop_oneof![Just(0u8), Just(0xff), Just(0x7f), Just(0x80), any::<u8>()]).prop_map(|(pos, val)| Mut::Set { pos, val }),
		2 => any::<u32>().prop_map(|keep| Mut::Trunc { keep }),
		2 => (any::<u32>(), proptest::collection::vec(any::<u8>(), 1..9)).prop_map(|(pos, bytes)| Mut::Insert { pos, bytes }),
		2 => (any::<u32>(), 1u32..40).prop_map(|(pos, len)| Mut::Delete { pos, len }),
		1 => (any::<u32>(), 1u32..64).prop_map(|(pos, len)| Mut::Dup { pos, len }),
		2 => (any::<u32>(), boundary_u64()).prop_map(|(pos, v)| Mut::U32be { pos, v: v as u32 }),
		2 => (any::<u32>(), boundary_u64()).prop_map(|(pos, v)| Mut::U64be { pos, v }),
		2 => (any::<u32>(), boundary_u64()).prop_map(|(pos, v)| Mut::U32le { pos, v: v as u32 }),
		2 => (any::<u32>(), boundary_u64()).prop_map(|(pos, v)| Mut::U64le { pos, v }),
		3 => (any::<u32>(), boundary_u64()).prop_map(|(pos, v)| Mut::Varint { pos, v }),
		2 => (any::<u32>(), 0u8..6).prop_map(|(pos, which)| Mut::Utf8 { pos, which }),
		1 => (any::<u32>(), any::<u32>(), 1u32..200).prop_map(|(pos, from, len)| Mut::Splice { pos, from, len }),
	]
}

fn at(pos: u32, len: usize) -> usize {
	if len == 0 {
		0
	} else {
		(pos as u64 * len as u64 >> 32) as usize
	}
}

fn put_varint(v: &mut Vec<u8>, mut x: u64) {
	loop {
		let b = (x & 0x7f) as u8;
		x >>= 7;
		if x == 0 {
			v.push(b);
			return;
		}
		v.push(b | 0x80);
	}
}

fn apply(data: &mut Vec<u8>, m: &Mut, other: &[u8]) {
	let len = data.len();
	match m {
		Mut::Flip { pos, bit } => {
			if len > 0 {
				let i = at(*pos, len);
				data[i] ^= 1 << bit;
			}
		}
		Mut::Set { pos, val } => {
			if len > 0 {
				let i = at(*pos, len);
				data[i] = *val;
			}
		}
		Mut::Trunc { keep } => data.truncate(at(*keep, len + 1)),
		Mut::Insert { pos, bytes } => {
			let i = at(*pos, len + 1);
			data.splice(i..i, bytes.iter().copied());
		}
		Mut::Delete { pos, len: l } => {
			let i = at(*pos, len + 1);
			let e = (i + *l as usize).min(len);
			data.drain(i..e);
		}
		Mut::Dup { pos, len: l } => {
			let i = at(*pos, len + 1);
			let e = (i + *l as usize).min(len);
			let chunk: Vec<u8> = data[i..e].to_vec();
			data.splice(e..e, chunk);
		}
		Mut::U32be { pos, v } => overwrite(data, at(*pos, len), &v.to_be_bytes()),
		Mut::U64be { pos, v } => overwrite(data, at(*pos, len), &v.to_be_bytes()),
		Mut::U32le { pos, v } => overwrite(data, at(*pos, len), &v.to_le_bytes()),
		Mut::U64le { pos, v } => overwrite(data, at(*pos, len), &v.to_le_bytes()),
		Mut::Varint { pos, v } => {
			// replace the varint starting at the position (bytes with the continuation bit + one)
			let i = at(*pos, len + 1);
			let mut e = i;
			while e < len && data[e] & 0x80 != 0 && e - i < 10 {
				e += 1;
			}
			if e < len {
				e += 1;
			}
			let mut nv = vec![];
			put_varint(&mut nv, *v);
			data.splice(i..e, nv);
		}
		Mut::Utf8 { pos, which } => {
			let s: &[u8] = match which {
				0 => "ä".as_bytes(),
				1 => "€".as_bytes(),
				2 => "𝄞".as_bytes(),
				3 => &[0xC3], // truncated sequence
				4 => &[0xED, 0xA0, 0x80], // surrogate
				_ => "\u{FEFF}".as_bytes(),
			};
			let i = at(*pos, len + 1);
			data.splice(i..i, s.iter().copied());
		}
		Mut::Splice { pos, from, len: l } => {
			if !other.is_empty() {
				let f = at(*from, other.len());
				let e = (f + *l as usize).min(other.len());
				let i = at(*pos, len + 1);
				data.splice(i..i, other[f..e].iter().copied());
			}
		}
	}
}

fn overwrite(data: &mut [u8], i: usize, bytes: &[u8]) {
	for (k, b) in bytes.iter().enumerate() {
		if i + k < data.len() {
			data[i + k] = *b;
		}
	}
}

fn mutate(mut data: Vec<u8>, muts: &[Mut], other: &[u8]) -> Vec<u8> {
	for m in muts {
		apply(&mut data, m, other);
	}
	data
}

fn muts(max: usize) -> impl Strategy<Value = Vec<Mut>> {
	proptest::collection::vec(mutation(), 0..=max)
}

fn patches() -> impl Strategy<Value = Vec<Patch>> {
	proptest::collection::vec((0u8..4, proptest::collection::vec(mutation(), 1..3)).prop_map(|(section, muts)| Patch { section, muts }), 0..3)
}

/// vector tiles that are well-formed protobuf but odd in content: an odd number of tag words, tag
/// indices beyond the key / value table, geometry deltas at the ends of the 64-bit range. They
/// decode (`VectorTile::from_blob`), what fails is what is done with them afterwards.
fn odd_mvt(mut t: vt::mvt::Tile, kind: u8, layout: u32) -> Vec<u8> {
	use vt::mvt::{Feature, Layer, Value};
	if t.layers.is_empty() {
		t.layers.push(Layer { name: "a".into(), extent: None, version: Some(2), keys: vec![], values: vec![], features: vec![] });
	}
	let l = &mut t.layers[0];
	if l.keys.is_empty() {
		l.keys.push("k".into());
	}
	if l.values.is_empty() {
		l.values.push(Value::Str("v".into()));
	}
	if l.features.is_empty() {
		l.features.push(Feature { id: Some(1), tags: vec![0, 0], geom_type: 1, geometry: vec![9, 2, 2] });
	}
	let (nk, nv) = (l.keys.len() as u32, l.values.len() as u32);
	let f = l.features.last_mut().unwrap();
	match kind % 5 {
		0 => f.tags.push(0),
		1 => f.tags.extend([nk, 0]),
		2 => f.tags.extend([0, nv]),
		3 => f.tags.extend([u32::MAX, u32::MAX]),
		_ => {}
	}
	let mut bytes = vt::mvt::encode(&t, layout);
	if kind % 5 == 4 {
		// one more layer whose only feature moves by the largest deltas a varint can hold
		let mut geom = vec![];
		for w in [(1u64 | (2 << 3)), u64::MAX - 1, 0, u64::MAX - 1, if layout % 2 == 0 { u64::MAX } else { 0 }] {
			let mut x = w;
			loop {
				let b = (x & 0x7f) as u8;
				x >>= 7;
				if x == 0 {
					geom.push(b);
					break;
				}
				geom.push(b | 0x80);
			}
		}
		let mut feature = vec![0x18, [1u8, 2, 3][(layout % 3) as usize], 0x22, geom.len() as u8];
		feature.extend(&geom);
		let mut layer = vec![0x78, 2, 0x0a, 1, b'g', 0x12, feature.len() as u8];
		layer.extend(&feature);
		bytes.extend([0x1a, layer.len() as u8]);
		bytes.extend(&layer);
	}
	bytes
}

fn data_csv() -> Vec<u8> {
	b"col0,col1,name\nw 3/2/2,7,alpha\nx,1.5,\"be,ta\"\n".to_vec()
}

/// strategy of cases for one entry point
fn cases(entry: Entry) -> BoxedStrategy<Case> {
	let text_case = move |seed: BoxedStrategy<Vec<u8>>, origin: &'static str| -> BoxedStrategy<Case> {
		(seed.clone(), seed, muts(4)).prop_map(move |(a, b, m)| {
			let files = if matches!(entry, Entry::Factory | Entry::PipelineFile) { vec![("data.csv".to_string(), data_csv())] } else { vec![] };
			Case { entry, origin: format!("{origin}:{}mut", m.len()), data: mutate(a, &m, &b), files }
		})
		.boxed()
	};
	let random = (proptest::collection::vec(any::<u8>(), 0..300)).prop_map(move |data| Case { entry, data, files: vec![], origin: "random".into() }).boxed();
	let nested = (prop_oneof![Just(("[", "]")), Just(("{\"a\":", "}")), Just(("[{\"a\":[", "]}]"))], 1usize..=256, any::<bool>()).prop_map(move |((o, c), n, close)| {
		let mut s = o.repeat(n);
		s.push('1');
		if close {
			s.push_str(&c.repeat(n));
		}
		Case { entry, data: s.into_bytes(), files: vec![], origin: "nested".into() }
	});
	match entry {
		Entry::Json | Entry::JsonBlob => prop_oneof![8 => text_case(json_text(), "json"), 1 => random, 1 => nested].boxed(),
		Entry::TileJson | Entry::TileJsonBlob => prop_oneof![8 => text_case(tilejson_text(), "tilejson"), 2 => text_case(json_text(), "json"), 1 => random, 1 => nested].boxed(),
		Entry::Csv => prop_oneof![8 => text_case(csv_text(), "csv"), 1 => random].boxed(),
		Entry::GeoValue => prop_oneof![8 => text_case(geovalue_text(), "geovalue"), 1 => random].boxed(),
		Entry::Vpl | Entry::Factory | Entry::PipelineFile => {
			let deep = (1usize..=200).prop_map(move |n| {
				let mut s = "from_overlayed [ ".repeat(n);
				s.push_str("from_debug format=pbf, from_debug format=pbf");
				s.push_str(&" ]".repeat(n));
				Case { entry, data: s.into_bytes(), files: vec![], origin: "nested".into() }
			});
			if matches!(entry, Entry::Factory | Entry::PipelineFile) {
				// the data file of vectortiles_update_properties is input, too
				let with_csv = (csv_text(), csv_text(), muts(3), any::<bool>()).prop_map(move |(a, b, m, replace)| {
					let text = format!("from_container filename=\"x.versatiles\" | vectortiles_update_properties data_source_path=\"data.csv\" layer_name=w id_field_tiles=k id_field_data=col0{}", if replace { " replace_properties=true" } else { "" });
					Case { entry, origin: format!("vpl+csv:{}mut", m.len()), data: text.into_bytes(), files: vec![("data.csv".to_string(), mutate(a, &m, &b))] }
				});
				// the tiles a source delivers are input, too: the in-memory source of the `Factory` entry
				// answers with the file `tile.pbf` where there is one
				let with_tile = (vt::mvt::tile(0, 3, 4), any::<u8>(), any::<u32>(), 0u8..3, muts(2), any::<bool>()).prop_map(move |(t, kind, layout, pipe, m, mutated)| {
					let layer = t.layers.first().map(|l| l.name.clone()).unwrap_or_else(|| "a".to_string());
					let tile = odd_mvt(t, kind, layout);
					let tile = if mutated { mutate(tile.clone(), &m, &tile) } else { tile };
					let text = match pipe {
						0 => format!("from_container filename=\"x.versatiles\" | vectortiles_update_properties data_source_path=\"data.csv\" layer_name=\"{layer}\" id_field_tiles=k id_field_data=col0"),
						1 => format!("from_container filename=\"x.versatiles\" | vectortiles_update_properties data_source_path=\"data.csv\" layer_name=\"{layer}\" id_field_tiles=id id_field_data=col0 replace_properties=true remove_non_matching=true"),
						_ => "from_vectortiles_merged [ from_container filename=\"x.versatiles\", from_container filename=\"y.versatiles\" ]".to_string(),
					};
					Case { entry, origin: format!("vpl+tile:{}", if mutated { "mutated" } else { "odd-content" }), data: text.into_bytes(), files: vec![("data.csv".to_string(), data_csv()), ("tile.pbf".to_string(), tile)] }
				});
				// pipeline files that read pipeline files: chains of n files, ending in a source, in the
				// first file again (a cycle) or in the file itself
				let including = (0usize..20, 0u8..3, any::<bool>()).prop_map(move |(n, end, overlay)| {
					let wrap = |f: &str| if overlay { format!("from_overlayed [ from_container filename=\"{f}\", from_debug format=pbf ]") } else { format!("from_container filename=\"{f}\"") };
					let name = |i: usize| if i == 0 { "p.vpl".to_string() } else { format!("inc{i}.vpl") };
					let mut files = vec![];
					for i in 0..=n {
						let text = if i < n {
							wrap(&name(i + 1))
						} else {
							match end {
								0 => "from_debug format=pbf".to_string(),
								1 => wrap("p.vpl"),
								_ => wrap(&name(i)),
							}
						};
						files.push((name(i), text.into_bytes()));
					}
					let data = files.remove(0).1;
					// an even length selects the entry that opens the file by its path
					let data = if data.len() % 2 == 1 { [data, b" ".to_vec()].concat() } else { data };
					Case { entry, origin: format!("vpl-including:{}", ["ends-in-source", "cycle", "itself"][end as usize]), data, files }
				});
				if entry == Entry::Factory {
					prop_oneof![6 => text_case(vpl_text(), "vpl"), 4 => with_csv, 4 => with_tile, 1 => random, 1 => deep].boxed()
				} else {
					// a pipeline over a (possibly damaged) tar archive: the stages derive bounds and zoom
					// range from the coverage the archive's reader reports
					let edge_tar = (0u8..32, 0u8..6, 0u8..6, any::<bool>()).prop_map(move |(z, a, b, second)| {
						let edge = |k: u8| -> u64 {
							match k {
								0 => u32::MAX as u64,
								1 => u32::MAX as u64 - 1,
								2 => 1u64 << z,
								3 => (1u64 << z) - 1,
								4 => (1u64 << z) + 7,
								_ => 0,
							}
						};
						let mut m = vec![(format!("{z}/{}/{}.png", edge(a), edge(b)), b"tile".to_vec())];
						if second {
							m.push((format!("{z}/0/0.png"), b"tile 2".to_vec()));
						}
						Case { entry: Entry::TarFile, origin: "tar-edge-names".to_string(), data: vt::server::tar_archive(&m, false), files: vec![] }
					});
					let over_tar = (prop_oneof![3 => cases(Entry::TarFile), 2 => edge_tar], 0usize..3).prop_map(move |(c, stage)| {
						let text = format!("from_container filename=\"t.tar\" | {}", ["filter_zoom min=0", "filter_bbox bbox=[-180,-85,180,85]", "filter_zoom min=0 max=31 "][stage]);
						Case { entry, origin: format!("vpl-over-tar:{}", c.origin), data: text.into_bytes(), files: vec![("t.tar".to_string(), c.data)] }
					});
					prop_oneof![6 => text_case(vpl_text(), "vpl"), 4 => with_csv, 2 => including, 2 => over_tar, 1 => random, 1 => deep].boxed()
				}
			} else {
				prop_oneof![8 => text_case(vpl_text(), "vpl"), 1 => random, 1 => deep].boxed()
			}
		}
		Entry::Mvt => {
			let seed = (any::<u16>(), 0u8..5, 0u32..4096, 0u32..4096).prop_map(|(t, z, x, y)| {
				let mut v = vt::model::mvt_min(&format!("l{t}"), &Coord::new(z, x, y));
				v.extend(vt::model::mvt_min("second", &Coord::new(z, y, x)));
				v
			});
			let odd = (vt::mvt::tile(0, 3, 4), any::<u8>(), any::<u32>()).prop_map(|(t, kind, layout)| odd_mvt(t, kind, layout)).boxed();
			let odd_plain = odd.clone().prop_map(move |data| Case { entry, data, files: vec![], origin: "mvt-odd-content".into() });
			prop_oneof![8 => text_case(seed.boxed(), "mvt"), 2 => text_case(odd, "mvt-odd-content"), 2 => odd_plain, 1 => random].boxed()
		}
		Entry::VersatilesBlob | Entry::VersatilesFile => {
			let seed = (small_spec(gen::all_pairs()), any::<u32>(), patches()).prop_map(|(spec, seed, patches)| {
				let set = spec.materialise();
				let layout = vt::sources::layout_versatiles(seed);
				codec::versatiles::encode_patched(&set, &layout, &mut |sec, raw| {
					for p in &patches {
						let want = [codec::versatiles::Section::TileIndex, codec::versatiles::Section::BlockIndex, codec::versatiles::Section::Header, codec::versatiles::Section::Meta][p.section as usize % 4];
						if want == sec {
							*raw = mutate(std::mem::take(raw), &p.muts, &[]);
						}
					}
				})
			});
			prop_oneof![10 => text_case(seed.boxed(), "versatiles"), 1 => random].boxed()
		}
		Entry::PmtilesBlob | Entry::PmtilesFile => {
			let seed = (small_spec(vt::containers::Target::Pmtiles.pairs()), any::<u32>(), patches()).prop_map(|(spec, seed, patches)| {
				let set = spec.materialise();
				let layout = vt::sources::layout_pmtiles(seed);
				codec::pmtiles::encode_patched(&set, &layout, &mut |sec, raw| {
					for p in &patches {
						let want = [codec::pmtiles::Section::Directory, codec::pmtiles::Section::Directory, codec::pmtiles::Section::Header, codec::pmtiles::Section::Meta][p.section as usize % 4];
						if want == sec {
							*raw = mutate(std::mem::take(raw), &p.muts, &[]);
						}
					}
				})
				.0
			});
			// a leaf directory that points to itself (internal compression "none" makes the bytes
			// self-describing: one entry, run length 0, offset 0, length = its own length)
			let cyclic = (0u64..100, 0u8..3, any::<bool>()).prop_map(move |(id, variant, via_root)| {
				let mut dir = vec![1u8];
				put_varint(&mut dir, id);
				dir.push(0); // run length 0 = leaf pointer
				let len_pos = dir.len();
				dir.push(0); // length, patched below
				dir.push(1); // offset 0 (+1)
				dir[len_pos] = dir.len() as u8;
				let mut root = dir.clone();
				if !via_root {
					// root is an ordinary pointer to the leaf; only the leaf is cyclic
					root = dir.clone();
				}
				let meta = b"{}".to_vec();
				let mut file = vec![0u8; 127];
				let root_r = (file.len() as u64, root.len() as u64);
				file.extend_from_slice(&root);
				let meta_r = (file.len() as u64, meta.len() as u64);
				file.extend_from_slice(&meta);
				let leaf_r = (file.len() as u64, dir.len() as u64);
				file.extend_from_slice(&dir);
				if variant == 1 {
					file.extend_from_slice(&dir);
				}
				let data_r = (file.len() as u64, 0u64);
				let mut h = b"PMTiles\x03".to_vec();
				for v in [root_r.0, root_r.1, meta_r.0, meta_r.1, leaf_r.0, leaf_r.1, data_r.0, data_r.1, 1, 1, 1] {
					h.extend_from_slice(&v.to_le_bytes());
				}
				h.extend_from_slice(&[1, 1, 1, 2, 0, 3]);
				h.extend_from_slice(&[0u8; 16]);
				h.push(0);
				h.extend_from_slice(&[0u8; 8]);
				h.resize(127, 0);
				file[..127].copy_from_slice(&h);
				Case { entry, data: file, files: vec![], origin: "cyclic-leaf".into() }
			});
			prop_oneof![20 => text_case(seed.boxed(), "pmtiles"), 2 => random, 1 => cyclic.boxed()].boxed()
		}
		Entry::TarFile => {
			let seed = (small_spec(gen::all_pairs()), any::<u32>()).prop_map(|(spec, seed)| codec::tar::encode(&spec.materialise(), &vt::sources::layout_tar(seed)));
			// archives built member by member: generated names (as for directories) and contents
			let content = prop_oneof![3 => proptest::collection::vec(any::<u8>(), 0..40), 1 => json_text(), 1 => tilejson_text().prop_map(|t| util::gzip(&t))];
			let members = (proptest::collection::vec((dir_names(), content), 0..8), any::<bool>(), any::<bool>(), proptest::option::weighted(0.3, (any::<u8>(), 0usize..4))).prop_map(move |(files, dot, dirs, lie)| {
				let m: Vec<(String, Vec<u8>)> = files.into_iter().map(|(n, c)| (if dot { format!("./{n}") } else { n }, c)).collect();
				let dirs = dirs && lie.is_none();
				let mut data = vt::server::tar_archive(&m, dirs);
				let mut origin = "tar-members";
				// one member header announces far more data than the archive holds (valid checksum)
				if let (Some((which, size)), false) = (lie, m.is_empty()) {
					let k = which as usize % m.len();
					let off: usize = m[..k].iter().map(|(_, d)| 512 + d.len().div_ceil(512) * 512).sum();
					if off + 512 <= data.len() {
						let announced = [0o7777777777u64, 0o77777777777, 0o1000000000, 0o17777777777][size];
						data[off + 124..off + 136].copy_from_slice(format!("{announced:011o}\0").as_bytes());
						for b in &mut data[off + 148..off + 156] {
							*b = b' ';
						}
						let sum: u64 = data[off..off + 512].iter().map(|b| *b as u64).sum();
						data[off + 148..off + 156].copy_from_slice(format!("{sum:06o}\0 ").as_bytes());
						origin = "tar-members-with-a-size-beyond-the-archive";
					}
				}
				Case { entry, data, files: vec![], origin: origin.into() }
			});
			prop_oneof![10 => text_case(seed.boxed(), "tar"), 3 => members.boxed(), 1 => random].boxed()
		}
		Entry::MbtilesFile => {
			// valid files with odd but legal SQL content (format strings, NULLs, huge numbers) + byte mutations
			let seed = (small_spec(vt::containers::Target::Mbtiles.pairs()), any::<u32>(), 0u8..16).prop_map(|(spec, seed, odd)| {
				let set = spec.materialise();
				let p = util::tmp_path(".mbtiles");
				let _ = codec::mbtiles::encode(&set, &vt::sources::layout_mbtiles(seed), &p);
				if let Ok(conn) = rusqlite::Connection::open(&p) {
					let sql = match odd {
						0 => "UPDATE metadata SET value='gif' WHERE name='format'",
						1 => "DELETE FROM metadata WHERE name='format'",
						2 => "INSERT INTO metadata (name, value) VALUES ('bounds', '1,2,3')",
						3 => "INSERT INTO metadata (name, value) VALUES ('bounds', 'a,b,c,d')",
						4 => "INSERT INTO metadata (name, value) VALUES ('minzoom', '300')",
						5 => "INSERT INTO metadata (name, value) VALUES ('json', '{\"vector_layers\":5}')",
						6 => "INSERT INTO metadata (name, value) VALUES ('json', '[1,2')",
						7 => "INSERT INTO metadata (name, value) VALUES (NULL, NULL)",
						8 => "INSERT INTO metadata (name, value) VALUES ('bounds', '-500,-500,500,500')",
						_ => "SELECT 1",
					};
					let _ = conn.execute_batch(sql);
					if odd >= 11 {
						// numbers at the ends of the 32- and 64-bit ranges in the integer columns
						let _ = conn.execute_batch(match odd {
							11 => "INSERT INTO tiles (zoom_level, tile_column, tile_row, tile_data) VALUES (-2147483648, 1, 1, x'00')",
							12 => "INSERT INTO tiles (zoom_level, tile_column, tile_row, tile_data) VALUES (3, 2147483647, 1, x'00'); INSERT INTO tiles (zoom_level, tile_column, tile_row, tile_data) VALUES (3, -2147483648, 1, x'00')",
							13 => "INSERT INTO tiles (zoom_level, tile_column, tile_row, tile_data) VALUES (3, 1, -9223372036854775808, x'00'); INSERT INTO tiles (zoom_level, tile_column, tile_row, tile_data) VALUES (3, 1, 9223372036854775807, x'00')",
							14 => "INSERT INTO tiles (zoom_level, tile_column, tile_row, tile_data) VALUES (9223372036854775807, 0, 0, x'00')",
							_ => "INSERT INTO tiles (zoom_level, tile_column, tile_row, tile_data) VALUES (31, 2147483647, 2147483647, x'00'); INSERT INTO tiles (zoom_level, tile_column, tile_row, tile_data) VALUES ('x', 'y', 'z', 'w')",
						});
					}
					if odd == 9 || odd == 10 {
						// rows the specification does not allow; only meaningful when tiles is a table
						let _ = conn.execute_batch(if odd == 9 { "INSERT INTO tiles (zoom_level, tile_column, tile_row, tile_data) VALUES (40, 1, 1, x'00')" } else { "INSERT INTO tiles (zoom_level, tile_column, tile_row, tile_data) VALUES (3, -1, 9999999999, NULL)" });
					}
				}
				let bytes = std::fs::read(&p).unwrap_or_default();
				let _ = std::fs::remove_file(&p);
				bytes
			});
			prop_oneof![10 => text_case(seed.boxed(), "mbtiles"), 1 => random].boxed()
		}
		Entry::Dir => {
			let names = dir_names();
			let content = prop_oneof![3 => proptest::collection::vec(any::<u8>(), 0..40), 1 => json_text(), 1 => tilejson_text().prop_map(|t| util::gzip(&t)), 1 => tilejson_text().prop_map(|t| util::brotli_c(&t))];
			proptest::collection::vec((names, content), 0..8).prop_map(move |files| Case { entry, data: vec![], files, origin: "dir".into() }).boxed()
		}
	}
}


/// relative member names of a tile directory / tar archive, well-formed and not
fn dir_names() -> BoxedStrategy<String> {
	prop_oneof![
				// columns and rows at the ends of the u32 range and just beyond the level
				1 => (0u8..34, 0u8..6, 0u8..6, prop_oneof![Just(".png"), Just(".pbf"), Just(".pbf.gz")]).prop_map(|(z, a, b, e)| {
					let edge = |k: u8| -> u64 {
						match k {
							0 => u32::MAX as u64,
							1 => u32::MAX as u64 - 1,
							2 => 1u64 << z.min(32),
							3 => (1u64 << z.min(32)) - 1,
							4 => u32::MAX as u64 + 1,
							_ => 0,
						}
					};
					format!("{z}/{}/{}{e}", edge(a), edge(b))
				}),
				4 => (0u8..34, any::<u32>(), any::<u32>(), prop_oneof![Just(".png"), Just(".pbf"), Just(".pbf.gz"), Just(".jpg.br"), Just(".json"), Just(""), Just(".PNG"), Just(".png.gz.br")]).prop_map(|(z, x, y, e)| format!("{z}/{x}/{y}{e}")),
				1 => ("[0-9a-z+-]{1,4}", "[0-9a-z+-]{1,12}", "[0-9a-z.+-]{1,14}").prop_map(|(a, b, c)| format!("{a}/{b}/{c}")),
				// stray members with multi-byte characters at every distance from the end of the name
				2 => (0u8..6, 0u32..9, "[0-9a-z.äß€日𝄞]{1,9}").prop_map(|(z, x, n)| format!("{z}/{x}/{n}")),
				// names that are not valid UTF-8 ('¿' becomes the bytes FF FE when the directory is written)
				1 => prop_oneof![Just("3/4/¿.png"), Just("3/¿/5.png"), Just("¿/4/5.png"), Just("3/4/5¿.pbf.gz"), Just("¿"), Just("¿.json"), Just("3/4/¿")].prop_map(|s| s.to_string()),
				// upper-case characters whose lower-case form has another UTF-8 length (KELVIN SIGN,
				// ANGSTROM SIGN, OHM SIGN, CAPITAL SHARP S, I WITH DOT ABOVE), with tile extensions
				2 => (0u8..6, 0u32..9, "[0-9aK\u{212a}\u{212b}\u{2126}\u{1e9e}\u{130}Ä]{1,5}", prop_oneof![Just(".png"), Just(".pbf"), Just(".PNG"), Just(".jpg.br"), Just(".pbf.gz"), Just("")]).prop_map(|(z, x, n, e)| format!("{z}/{x}/{n}{e}")),
				1 => prop_oneof![Just("tiles.json"), Just("meta.json.gz"), Just("metadata.json.br"), Just("tiles.json.br"), Just("README"), Just("3/readme.txt"), Just("3/4/x.png"), Just("3/99999999999/1.png"), Just("300/1/1.png"), Just("ä/1/1.png")].prop_map(|s| s.to_string()),
			]
	.boxed()
}

// ---------------------------------------------------------------------------------------
// coverage-guided stage (thorough tier): libFuzzer via cargo-fuzz on the in-memory decoders
// ---------------------------------------------------------------------------------------

/// Runs the cargo-fuzz targets with corpora seeded from the generators above, then hands every
/// artifact libFuzzer wrote (crash-*, oom-*, timeout-*) to the same worker/oracle as the
/// generated cases, so that a finding is classified (and replayable) exactly like the others.
fn libfuzzer_stage(check: &mut Check) {
	let targets: [(&str, Entry, u64); 8] = [
		("json", Entry::JsonBlob, 3_000_000),
		("tilejson", Entry::TileJsonBlob, 2_000_000),
		("csv", Entry::Csv, 3_000_000),
		("geovalue", Entry::GeoValue, 3_000_000),
		("vpl", Entry::Factory, 400_000),
		("mvt", Entry::Mvt, 3_000_000),
		("versatiles", Entry::VersatilesBlob, 2_000_000),
		("pmtiles", Entry::PmtilesBlob, 2_000_000),
	];
	let harness_dir = std::env::current_exe().ok().and_then(|_| std::env::var("VERIF_HARNESS_DIR").ok()).unwrap_or_else(|| "/verif/harness".to_string());
	let build = Command::new("cargo").args(["+nightly", "fuzz", "build"]).current_dir(&harness_dir).env("CARGO_NET_OFFLINE", "true").output();
	match build {
		Ok(o) if o.status.success() => {}
		Ok(o) => {
			let err = String::from_utf8_lossy(&o.stderr);
			let tail: Vec<&str> = err.lines().rev().take(25).collect();
			vt::engine::die(&format!("cargo fuzz build failed:\n{}", tail.into_iter().rev().collect::<Vec<_>>().join("\n")));
		}
		Err(e) => vt::engine::die(&format!("cannot run cargo fuzz: {e}")),
	}
	let seed = check.seed;
	let mut handles = vec![];
	// VERIF_FUZZ_SCALE=<n> divides the number of runs (for trying the stage out)
	let scale: u64 = std::env::var("VERIF_FUZZ_SCALE").ok().and_then(|v| v.parse().ok()).unwrap_or(1).max(1);
	for (target, entry, runs) in targets {
		let runs = runs / scale;
		let corpus = util::tmp_dir();
		let artifacts = util::tmp_dir();
		// corpus: valid and lightly mutated encodings from the generators
		for i in 0..300u64 {
			let c = vt::engine::sample_one(&cases(entry), seed.wrapping_mul(1000).wrapping_add(i));
			// seeds on which the code under test runs into the time limit would end every
			// campaign round at once
			if c.data.len() <= 65536 && matches!(run_in_worker(&c), Outcome::Reply(_)) {
				let _ = std::fs::write(corpus.join(format!("seed{i}")), &c.data);
			}
		}
		let harness_dir = harness_dir.clone();
		handles.push(std::thread::spawn(move || {
			// libFuzzer stops at the first artifact (crash, oom or timeout): restart it a few times so
			// that a campaign continues behind a finding
			let mut executed = 0u64;
			let mut cov = 0u64;
			for round in 0..40u64 {
				let before = std::fs::read_dir(&artifacts).map(|d| d.count()).unwrap_or(0);
				let left = runs.saturating_sub(executed);
				if left < 1000 {
					break;
				}
				let out = Command::new("cargo")
					.args(["+nightly", "fuzz", "run", target])
					.arg(&corpus)
					.arg("--")
					.args([format!("-runs={left}"), format!("-seed={}", ((seed + round) % 0xffff_fffe) + 1), "-max_len=65536".into(), "-timeout=10".into(), "-malloc_limit_mb=256".into(), "-rss_limit_mb=4096".into(), "-len_control=0".into(), "-print_final_stats=1".into()])
					.arg(format!("-artifact_prefix={}/", artifacts.display()))
					.current_dir(&harness_dir)
					.env("CARGO_NET_OFFLINE", "true")
					.env("RUST_BACKTRACE", "0")
					.output();
				let stderr = out.map(|o| String::from_utf8_lossy(&o.stderr).to_string()).unwrap_or_default();
				executed += stderr.lines().find_map(|l| l.strip_prefix("stat::number_of_executed_units:").map(|v| v.trim().parse::<u64>().unwrap_or(0))).unwrap_or(0);
				cov = cov.max(stderr.lines().rev().find_map(|l| l.split("cov: ").nth(1).and_then(|r| r.split(' ').next()).and_then(|v| v.parse::<u64>().ok())).unwrap_or(0));
				let after = std::fs::read_dir(&artifacts).map(|d| d.count()).unwrap_or(0);
				if after == before {
					break;
				}
			}
			let mut found = vec![];
			if let Ok(rd) = std::fs::read_dir(&artifacts) {
				for e in rd.flatten() {
					if let Ok(data) = std::fs::read(e.path()) {
						found.push((e.file_name().to_string_lossy().to_string(), data));
					}
				}
			}
			let _ = std::fs::remove_dir_all(&corpus);
			let _ = std::fs::remove_dir_all(&artifacts);
			(target, entry, executed, cov, found)
		}));
	}
	let mut stats = vec![];
	for h in handles {
		let (target, entry, executed, cov, found) = h.join().expect("fuzz thread");
		stats.push(serde_json::json!({"target": target, "executed_units": executed, "coverage_edges": cov, "artifacts": found.iter().map(|(n, _)| n.clone()).collect::<Vec<_>>()}));
		// the in-memory targets correspond to these entries; `vpl` feeds both parser and factory
		let list: Vec<Case> = found.into_iter().map(|(name, data)| Case { entry, data, files: if entry == Entry::Factory { vec![("data.csv".to_string(), data_csv())] } else { vec![] }, origin: format!("libfuzzer:{name}") }).collect();
		check.enumerate(&format!("libfuzzer-{target}"), list, false, oracle);
	}
	check.extra.insert("libfuzzer".into(), serde_json::Value::Array(stats));
}

// ---------------------------------------------------------------------------------------
// main
// ---------------------------------------------------------------------------------------

fn main() {
	if std::env::args().any(|a| a == "--worker") {
		worker_main();
	}
	let mut check = Check::from_args(
		"C19",
		"exploration",
		"per entry point (JSON str/blob, TileJSON str/blob, CSV, GeoValue, VPL, pipeline factory incl. CSV side file, .vpl file, vector tile, versatiles/PMTiles from memory and from file, MBTiles, tar, directory): valid encodings produced by the harness generators and independent encoders, mutated by bit flips, boundary-value bytes / big- and little-endian integers / varints, truncation, insertion, deletion, duplication, splices of a second valid input, multi-byte and broken UTF-8 insertion; for versatiles and PMTiles additionally mutations of the raw block index / tile index / directories / header / metadata BEFORE compression (so that the corruption passes the compression layer); nesting depth up to 256; vector tiles that decode but are odd in content (odd number of tag words, tag ids beyond the tables, geometry deltas at the ends of the 64-bit range), as input of the vector tile entry and as the tile the in-memory source of the pipeline-factory entry delivers to vectortiles_update_properties / from_vectortiles_merged before the tile is looked up; TileJSON blobs through both conversions; pipeline text through the file path and through open_reader (data reader), with chains (up to 19 files) and cycles of pipeline files that read each other; pipelines (filter_zoom / filter_bbox) over generated and damaged tar archives; directory entries with columns / rows at the ends of the u32 range and just beyond the level; plus uniformly random bytes. Each case runs in a worker process on a 2 MiB stack under a tracking allocator. Violations: panic, process death (abort, stack overflow, signal), peak heap growth > 256 MiB for inputs <= 256 KiB. A timeout (3 s quick / 10 s thorough) is counted, not reported. non-trivial = derived from a valid encoding and accepted, or rejected with another message than the entry point's first structural check",
	);
	check.assume("bulk tile streams over corrupted containers are outside the statement; liveness is not asserted (timeouts are counted)");
	vt::engine::watchdog(7200);
	check.workers = check.workers.min(12);
	if check.tier == vt::engine::Tier::Quick && !check.is_replay() {
		TIMEOUT_MS.store(3000, Ordering::Relaxed);
	}
	for entry in Entry::ALL {
		let name = format!("fuzz-{}", entry.name());
		let reg: Vec<Case> = check.regression_cases(&name);
		check.enumerate(&format!("regress-{}", entry.name()), reg, false, oracle);
		let n = match entry {
			Entry::MbtilesFile | Entry::Dir | Entry::PipelineFile => check.cases(1500, 60_000),
			Entry::VersatilesFile | Entry::PmtilesFile | Entry::TarFile => check.cases(3000, 150_000),
			_ => check.cases(8000, 600_000),
		};
		check.phase(&name, n, || cases(entry), oracle);
	}
	if check.tier == vt::engine::Tier::Thorough && !check.is_replay() && std::env::var("VERIF_NO_LIBFUZZER").is_err() {
		libfuzzer_stage(&mut check);
	}
	check.finish();
}

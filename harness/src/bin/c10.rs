//! C10 — from_vectortiles_merged: a tile exists exactly where some source has one, holds one
//! layer per distinct layer name of the source tiles, each layer the features of that layer
//! from all sources in source order with id, geometry and properties intact; declared and
//! delivered uncompressed. Oracle: the harness's independent MVT codec (vt::mvt).

use proptest::prelude::*;
use serde::{Deserialize, Serialize};
use std::collections::{BTreeMap, BTreeSet};
use std::path::Path;
use versatiles_core::types::{TileBBox, TilesReaderTrait};
use vt::engine::{guard, Check, Fail, Obs};
use vt::model::{Coord, Fmt, MemReader, TileSet};
use vt::mvt::{self, SemFeature, SemLayer, Tile};
use vt::sources::{factory_with, Source};
use vt::util::{self, Comp};
use vt::{ensure_prop, fail};

#[derive(Clone, Debug, Serialize, Deserialize)]
struct SrcSpec {
	comp: Comp,
	default_stream: bool,
	/// (dx, dy, tile, layout): tile at (1 + dx, 1 + dy); the first one wins on equal coordinates
	tiles: Vec<(u8, u8, Tile, u32)>,
}

#[derive(Clone, Debug, Serialize, Deserialize)]
struct Case {
	z: u8,
	sources: Vec<SrcSpec>,
}

fn source(max_tiles: usize) -> impl Strategy<Value = SrcSpec> {
	(0usize..3, any::<bool>(), proptest::collection::vec((prop_oneof![2 => Just(0u8), 2 => 0u8..3], prop_oneof![3 => Just(0u8), 2 => 0u8..3], mvt::tile(0, 4, 5), any::<u32>()), 1..=max_tiles)).prop_map(|(c, default_stream, tiles)| SrcSpec { comp: Comp::ALL[c], default_stream, tiles })
}

fn strategy() -> impl Strategy<Value = Case> {
	(3u8..=12, prop_oneof![3 => proptest::collection::vec(source(3), 2..=2), 2 => proptest::collection::vec(source(3), 3..=4), 2 => proptest::collection::vec(source(1), 2..=3)]).prop_map(|(z, mut sources)| {
		{
			let mut refs: Vec<&mut Tile> = sources.iter_mut().flat_map(|s| s.tiles.iter_mut().map(|t| &mut t.2)).collect();
			mvt::sanitise(&mut refs);
		}
		Case { z, sources }
	})
}

struct Contribution<'a> {
	source: usize,
	model: &'a Tile,
	sem: Vec<SemLayer>,
}

/// Compare one output tile with the source tiles at its coordinate (in source order).
fn compare_merged(ctx: &str, inputs: &[Contribution], got: &[SemLayer]) -> Result<(), Fail> {
	let mut want: BTreeMap<&str, Vec<&SemFeature>> = BTreeMap::new();
	let mut contributors: BTreeMap<&str, Vec<&SemLayer>> = BTreeMap::new();
	for i in inputs {
		for l in &i.sem {
			want.entry(l.name.as_str()).or_default().extend(l.features.iter());
			contributors.entry(l.name.as_str()).or_default().push(l);
		}
	}
	let mut names = BTreeSet::new();
	for l in got {
		ensure_prop!(names.insert(l.name.as_str()), "merge:layer-twice", "{ctx}: the output holds two layers named {:?}", l.name);
	}
	let want_names: BTreeSet<&str> = want.keys().copied().collect();
	ensure_prop!(names == want_names, "merge:layer-set-wrong", "{ctx}: the source tiles hold the layers {want_names:?}, the output {names:?}");
	for l in got {
		let w: Vec<SemFeature> = want[l.name.as_str()].iter().map(|f| (*f).clone()).collect();
		if let Some(d) = mvt::diff_features(&w, &l.features) {
			fail!("merge:features-wrong", "{ctx}: layer {:?} (present in {} source tiles): {d}", l.name, contributors[l.name.as_str()].len());
		}
		let c = &contributors[l.name.as_str()];
		if c.len() == 1 {
			ensure_prop!(c[0].extent == l.extent && c[0].version == l.version, "merge:single-source-layer-header-changed", "{ctx}: layer {:?} comes from one source with extent/version {}/{}, the output has {}/{}", l.name, c[0].extent, c[0].version, l.extent, l.version);
		}
	}
	Ok(())
}

fn oracle(case: &Case, obs: &mut Obs) -> Result<(), Fail> {
	// --- sources
	let mut readers: Vec<Box<dyn TilesReaderTrait>> = vec![];
	let mut per_source: Vec<BTreeMap<Coord, (&Tile, Vec<SemLayer>)>> = vec![];
	for (i, s) in case.sources.iter().enumerate() {
		let mut raw: BTreeMap<Coord, Vec<u8>> = BTreeMap::new();
		let mut m = BTreeMap::new();
		for (dx, dy, tile, layout) in &s.tiles {
			let c = Coord::new(case.z, 1 + *dx as u32, 1 + *dy as u32);
			if raw.contains_key(&c) {
				continue;
			}
			let (bytes, sem) = mvt::checked_encode(tile, *layout)?;
			raw.insert(c, bytes);
			m.insert(c, (tile, sem));
		}
		let stored: BTreeMap<Coord, Vec<u8>> = raw.iter().map(|(c, b)| (*c, util::compress(b, s.comp))).collect();
		let mut set = TileSet { format: Fmt::Pbf, comp: s.comp, tiles: stored, raw, pyramid: BTreeMap::new(), meta: None };
		set.pyramid = set.all_boxes();
		let mut r = MemReader::new(&set, &format!("leaf{i}"));
		if s.default_stream {
			r = r.with_default_stream();
		}
		readers.push(Box::new(r));
		per_source.push(m);
	}
	let text = format!("from_vectortiles_merged [ {} ]", (0..case.sources.len()).map(|i| format!("from_container filename=\"leaf{i}\"")).collect::<Vec<_>>().join(", "));
	let factory = factory_with(readers, Path::new(""));
	let op = match guard(|| util::block_on(factory.operation_from_vpl(&text))) {
		Ok(Ok(op)) => op,
		Ok(Err(e)) => fail!("merge:build-error", "building {text:?} failed: {e:#}"),
		Err(p) => return Err(Fail::from_panic(&format!("building {text:?}"), &p)),
	};
	let source = Source::Op(op);
	ensure_prop!(source.comp() == Comp::None, "merge:declared-compression", "the merged source declares {:?} ({} sources with {:?})", source.comp(), case.sources.len(), case.sources.iter().map(|s| s.comp).collect::<Vec<_>>());

	let comps: Vec<&str> = case.sources.iter().map(|s| s.comp.name()).collect();
	let contributions = |c: &Coord| -> Vec<Contribution> { per_source.iter().enumerate().filter_map(|(i, m)| m.get(c).map(|(t, s)| Contribution { source: i, model: t, sem: s.clone() })).collect() };
	let check_tile = |how: &str, c: &Coord, bytes: &[u8], inputs: &[Contribution]| -> Result<(), Fail> {
		let ctx = format!("{how} {c}, tiles from sources {:?} of {} (compressions {comps:?})", inputs.iter().map(|i| i.source).collect::<Vec<_>>(), case.sources.len());
		let got = mvt::decode_sem(bytes).map_err(|e| Fail::new("merge:output-not-a-raw-vector-tile", format!("{ctx}: the output ({} bytes, {}) is not an uncompressed valid vector tile: {e}", bytes.len(), util::hex_short(bytes))))?;
		compare_merged(&ctx, inputs, &got)
	};

	// --- lookups at every coordinate of the box around the sources (union + empty ones)
	let mut coords = vec![];
	for y in 0..=4u32 {
		for x in 0..=4u32 {
			coords.push(Coord::new(case.z, x, y));
		}
	}
	let mut empty_probed = 0u64;
	let mut shared = false;
	let mut shared_diff = false;
	let mut max_overlap = 0usize;
	for c in &coords {
		let inputs = contributions(c);
		max_overlap = max_overlap.max(inputs.len());
		match source.lookup(c) {
			Ok(Ok(None)) => ensure_prop!(inputs.is_empty(), "merge:tile-missing", "lookup {c}: sources {:?} hold a tile, the merged source returns none", inputs.iter().map(|i| i.source).collect::<Vec<_>>()),
			Ok(Ok(Some(b))) => {
				ensure_prop!(!inputs.is_empty(), "merge:tile-without-source", "lookup {c}: no source holds a tile, the merged source returns {} bytes ({})", b.len(), util::hex_short(&b));
				check_tile("lookup", c, &b, &inputs)?;
			}
			Ok(Err(e)) => fail!("merge:lookup-error", "lookup {c} (tiles in sources {:?}, compressions {comps:?}) fails: {e}", inputs.iter().map(|i| i.source).collect::<Vec<_>>()),
			Err(p) => return Err(Fail::from_panic(&format!("lookup {c}"), &p)),
		}
		if inputs.is_empty() {
			empty_probed += 1;
		}
		// layers shared between sources at this coordinate
		let mut by_name: BTreeMap<&str, Vec<&mvt::Layer>> = BTreeMap::new();
		for i in &inputs {
			for l in &i.model.layers {
				by_name.entry(l.name.as_str()).or_default().push(l);
			}
		}
		for v in by_name.values() {
			if v.len() >= 2 {
				shared = true;
				if v.iter().any(|l| l.keys != v[0].keys || l.values != v[0].values) {
					shared_diff = true;
				}
			}
		}
	}
	// --- the stream over the box delivers the same tiles
	let bbox = TileBBox::new(case.z, 0, 0, 4, 4).map_err(|e| Fail::new("harness:bad-box", e.to_string()))?;
	let streamed = match source.stream(bbox) {
		Ok(s) => s,
		Err(p) => return Err(Fail::from_panic(&format!("stream over the box (compressions {comps:?})"), &p)),
	};
	let mut seen = BTreeSet::new();
	for (c, b) in &streamed {
		let inputs = contributions(c);
		ensure_prop!(!inputs.is_empty(), "merge:tile-without-source", "stream: delivers {c} ({} bytes), no source holds a tile there", b.len());
		ensure_prop!(seen.insert(*c), "merge:stream-duplicate", "stream: delivers {c} twice");
		check_tile("stream", c, b, &inputs)?;
	}
	for c in &coords {
		let inputs = contributions(c);
		ensure_prop!(inputs.is_empty() || seen.contains(c), "merge:tile-missing", "stream: sources {:?} hold a tile at {c}, the stream over the box does not deliver it", inputs.iter().map(|i| i.source).collect::<Vec<_>>());
	}

	// --- evidence
	let mut l = BTreeSet::new();
	for m in &per_source {
		for (t, _) in m.values() {
			mvt::labels(t, &mut l);
		}
	}
	for x in l {
		if !x.starts_with("layers=") {
			obs.label(x);
		}
	}
	obs.label(format!("sources={}", case.sources.len()));
	for s in &case.sources {
		obs.label(format!("source-compression:{}", s.comp.name()));
	}
	obs.label_if(comps.iter().collect::<BTreeSet<_>>().len() > 1, "sources-with-different-compressions");
	obs.label_if(case.sources.iter().any(|s| s.default_stream), "leaf:default-stream");
	obs.label(format!("max-sources-at-one-coordinate={max_overlap}"));
	obs.label_if(shared, "layer-shared-between-sources");
	obs.label_if(shared_diff, "layer-shared-with-different-tables");
	obs.label_if(per_source.iter().any(|m| m.keys().any(|c| per_source.iter().filter(|o| o.contains_key(c)).count() == 1)), "coordinate-with-one-source-only");
	obs.count("lookups", coords.len() as u64);
	obs.count("lookups-at-empty-coordinates", empty_probed);
	obs.count("streamed-tiles", streamed.len() as u64);
	obs.nontrivial(shared_diff);
	Ok(())
}

fn main() {
	let mut check = Check::from_args(
		"C10",
		"exploration",
		"2-4 in-memory sources, each with 1-3 tiles at coordinates of a 3x3 window (so that coordinates are shared by all, some or one source), each source with its own compression (none/gzip/brotli really applied) and stream implementation; tiles from the harness's own MVT model/encoder (written from the MVT 2.1 layout): 0-4 layers (0 layers = a tile of zero bytes) with names from a small pool (shared and disjoint between sources), own key/value tables with duplicate and unused entries in varying field order, values of all seven kinds (int vs sint, 64-bit borders, infinities, -0.0), features with/without id (0, 2^63, 2^64-1), geometry types 0-3, opaque geometry words, empty layers, extents/versions present/absent/differing; NaN only as the quiet NaN of its kind, never +0.0 and -0.0 of one float kind in one case, never one key twice in a feature. Pipeline from_vectortiles_merged [ from_container..., ... ]. Oracle: declared compression is uncompressed; lookups at all 25 coordinates of the 5x5 box around the window: a tile exists iff some source has one; the bytes decode as a raw vector tile with the harness decoder; layer names (as a set, no name twice) = union over the source tiles; per layer the feature list (id, type, geometry words, property map resolved through the tables as written) = concatenation in source order; extent/version only compared for layers coming from a single source; layer order not compared; the stream over the box delivers exactly the same coordinates once each with content satisfying the same oracle. Non-trivial = at some coordinate a layer name occurs in >= 2 sources with different key or value tables. Distinct = distinct case value.",
	);
	check.assume("harness MVT codec (self-checked on every case: decode(encode(t)) == t); flate2/brotli as reference compressors");
	vt::engine::watchdog(3600);
	let reg: Vec<Case> = check.regression_cases("merge");
	check.enumerate("regressions", reg, false, oracle);
	check.phase("merge", check.cases(150_000, 2_000_000), strategy, oracle);
	check.finish();
}

//! C20 — the bounded cache is transparent and stays within its capacity.
//! Model-based: generated add/get/get_or_set histories against an observational map model.

use proptest::prelude::*;
use serde::{Deserialize, Serialize};
use std::collections::{BTreeMap, BTreeSet};
use versatiles_core::types::LimitedCache;
use vt::engine::{Check, Fail, Obs};
use vt::{ensure_prop, fail};

#[derive(Clone, Debug, Serialize, Deserialize, PartialEq)]
enum Op {
	Add(u8),
	Get(u8),
	LoadOk(u8),
	LoadErr(u8),
	/// touch a (get_or_set), insert b, read a
	Probe(u8, u8),
	/// read a, insert b, read a
	ProbeGet(u8, u8),
	/// add a (present or not), insert b, read a
	ProbeAdd(u8, u8),
}

#[derive(Clone, Debug, Serialize, Deserialize)]
struct Case {
	capacity: usize,
	slack: usize,
	ops: Vec<Op>,
	/// the access counter starts this many steps below 2^`counter_bits` (0 bits: starts at 0);
	/// set through the verification hook of the cache
	#[serde(default)]
	counter_bits: u8,
	#[serde(default)]
	counter_below: u16,
}

const PER: usize = std::mem::size_of::<u32>() + std::mem::size_of::<u64>();

fn strategy(max_ops: usize) -> impl Strategy<Value = Case> {
	(prop_oneof![3 => 1usize..=6, 2 => 7usize..=64], 0usize..PER, 1u8..=12).prop_flat_map(move |(capacity, slack, keys)| {
		// key space a bit larger than the capacity now and then, so that evictions are frequent
		let keys = if capacity < 12 { keys.max((capacity as u8).saturating_add(1)).min(16) } else { keys.max(8) };
		let k = move || 0u8..keys.max(1) * if capacity > 12 { 8 } else { 1 };
		let op = prop_oneof![
			4 => k().prop_map(Op::Add),
			4 => k().prop_map(Op::Get),
			3 => k().prop_map(Op::LoadOk),
			1 => k().prop_map(Op::LoadErr),
			2 => (k(), k()).prop_map(|(a, b)| Op::Probe(a, b)),
			1 => (k(), k()).prop_map(|(a, b)| Op::ProbeGet(a, b)),
			1 => (k(), k()).prop_map(|(a, b)| Op::ProbeAdd(a, b)),
		];
		(proptest::collection::vec(op, 1..max_ops), prop_oneof![6 => Just(0u8), 1 => Just(8u8), 2 => Just(16u8), 1 => Just(31u8), 3 => Just(32u8), 1 => Just(53u8), 1 => Just(63u8)], 0u16..600)
			.prop_map(move |(ops, counter_bits, counter_below)| Case { capacity, slack, ops, counter_bits, counter_below })
	})
}

fn length_of(cache: &LimitedCache<u32, u64>) -> Result<usize, Fail> {
	let s = format!("{cache:?}");
	let i = s.find("length: ").ok_or_else(|| Fail::new("harness:no-length", format!("no length in {s}")))?;
	let rest = &s[i + 8..];
	let n: String = rest.chars().take_while(|c| c.is_ascii_digit()).collect();
	n.parse::<usize>().map_err(|_| Fail::new("harness:no-length", format!("no length in {s}")))
}

struct Model {
	/// value k maps to if it is present
	cur: BTreeMap<u8, u64>,
	/// keys known to be absent (a failed loader ran and nothing wrote since)
	absent: BTreeSet<u8>,
	next_value: u64,
	evictions: u64,
	probes_at_capacity: u64,
}

fn oracle(case: &Case, obs: &mut Obs) -> Result<(), Fail> {
	let cap = case.capacity;
	let mut cache: LimitedCache<u32, u64> = LimitedCache::with_maximum_size(cap * PER + case.slack);
	if case.counter_bits > 0 {
		// histories that cross 2^8, 2^16, 2^31, 2^32, 2^53, 2^63 accesses (the counter is 64 bits wide:
		// 2^64 itself is out of reach of any real history)
		cache.verif_set_access_counter((1u64 << case.counter_bits.min(63)).saturating_sub(case.counter_below as u64));
		obs.label(format!("counter-starts-below-2^{}", case.counter_bits.min(63)));
	}
	let mut m = Model { cur: BTreeMap::new(), absent: BTreeSet::new(), next_value: 1, evictions: 0, probes_at_capacity: 0 };

	fn check_len(cache: &LimitedCache<u32, u64>, cap: usize, step: usize) -> Result<usize, Fail> {
		let len = length_of(cache)?;
		ensure_prop!(len <= cap, "cache:over-capacity", "step {step}: cache holds {len} entries, capacity {cap}");
		Ok(len)
	}

	fn do_add(cache: &mut LimitedCache<u32, u64>, m: &mut Model, cap: usize, step: usize, k: u8) -> Result<(), Fail> {
		let before = length_of(cache)?;
		let v = m.next_value;
		m.next_value += 1;
		let r = cache.add(k as u32, v);
		let ok = r == v || m.cur.get(&k) == Some(&r);
		ensure_prop!(ok, "cache:add-returns-foreign-value", "step {step}: add({k},{v}) returned {r}, stored under {k}: {:?}", m.cur.get(&k));
		m.cur.insert(k, r);
		m.absent.remove(&k);
		let after = check_len(cache, cap, step)?;
		if after <= before && r == v {
			m.evictions += 1;
		}
		Ok(())
	}

	fn do_get(cache: &mut LimitedCache<u32, u64>, m: &mut Model, cap: usize, step: usize, k: u8) -> Result<Option<u64>, Fail> {
		let r = cache.get(&(k as u32));
		if let Some(r) = r {
			ensure_prop!(!m.absent.contains(&k), "cache:resurrected", "step {step}: get({k}) = {r} although the failed loader stored nothing");
			ensure_prop!(m.cur.get(&k) == Some(&r), "cache:get-returns-foreign-value", "step {step}: get({k}) = {r}, but the value stored under {k} is {:?}", m.cur.get(&k));
		}
		check_len(cache, cap, step)?;
		Ok(r)
	}

	fn do_load(cache: &mut LimitedCache<u32, u64>, m: &mut Model, cap: usize, step: usize, k: u8, ok: bool) -> Result<(), Fail> {
		let before = length_of(cache)?;
		let v = m.next_value;
		m.next_value += 1;
		let mut called = false;
		let r = cache.get_or_set(&(k as u32), || {
			called = true;
			if ok { Ok(v) } else { Err(anyhow::anyhow!("loader failed")) }
		});
		match r {
			Ok(r) => {
				if called {
					ensure_prop!(ok, "cache:load-err-swallowed", "step {step}: loader failed but get_or_set({k}) returned {r}");
					ensure_prop!(r == v, "cache:load-wrong-value", "step {step}: get_or_set({k}) ran the loader (value {v}) but returned {r}");
					ensure_prop!(!m.absent.contains(&k) || true, "x", "x");
				} else {
					ensure_prop!(!m.absent.contains(&k), "cache:resurrected", "step {step}: get_or_set({k}) hit although nothing was stored");
					ensure_prop!(m.cur.get(&k) == Some(&r), "cache:get-returns-foreign-value", "step {step}: get_or_set({k}) hit with {r}, stored under {k}: {:?}", m.cur.get(&k));
				}
				m.cur.insert(k, r);
				m.absent.remove(&k);
			}
			Err(_) => {
				ensure_prop!(called && !ok, "cache:spurious-error", "step {step}: get_or_set({k}) failed although the loader did not fail (called={called})");
				m.absent.insert(k);
			}
		}
		let after = check_len(cache, cap, step)?;
		if called && ok && after <= before {
			m.evictions += 1;
		}
		Ok(())
	}

	for (step, op) in case.ops.iter().enumerate() {
		match *op {
			Op::Add(k) => do_add(&mut cache, &mut m, cap, step, k)?,
			Op::Get(k) => {
				do_get(&mut cache, &mut m, cap, step, k)?;
			}
			Op::LoadOk(k) => do_load(&mut cache, &mut m, cap, step, k, true)?,
			Op::LoadErr(k) => do_load(&mut cache, &mut m, cap, step, k, false)?,
			Op::Probe(a, b) | Op::ProbeGet(a, b) | Op::ProbeAdd(a, b) => {
				let touched = if matches!(op, Op::Probe(..)) {
					do_load(&mut cache, &mut m, cap, step, a, true)?;
					true
				} else if matches!(op, Op::ProbeAdd(..)) {
					do_add(&mut cache, &mut m, cap, step, a)?;
					true
				} else {
					do_get(&mut cache, &mut m, cap, step, a)?.is_some()
				};
				let len_before = length_of(&cache)?;
				if a != b {
					do_add(&mut cache, &mut m, cap, step, b)?;
				}
				let r = do_get(&mut cache, &mut m, cap, step, a)?;
				if touched && cap >= 2 {
					if len_before >= cap {
						m.probes_at_capacity += 1;
					}
					if r.is_none() {
						fail!("cache:recently-used-evicted", "step {step}: key {a} was used, then key {b} was added (length before {len_before}, capacity {cap}), and {a} is gone");
					}
				}
			}
		}
	}
	obs.label(match cap { 1 => "cap=1", 2 => "cap=2", 3..=6 => "cap=3..6", _ => "cap>6" });
	obs.label(match m.evictions { 0 => "evictions=0", 1 => "evictions=1", 2..=5 => "evictions=2..5", _ => "evictions>5" });
	obs.label_if(m.probes_at_capacity > 0, "probe-at-capacity");
	obs.nontrivial(m.evictions >= 2 && m.probes_at_capacity >= 1);
	obs.count("operations", case.ops.len() as u64);
	Ok(())
}

fn main() {
	let mut check = Check::from_args(
		"C20",
		"exploration",
		"proptest histories of add/get/get_or_set(ok|err)/probe operations (use a key through get_or_set, get or add; insert another key; the first one must still be there) over 1..16 (or up to 96) keys, capacities 1..=64 with byte slack, against an observational map model; a case is non-trivial when the history passes through >= 2 evictions and contains a use/insert/read probe executed at full capacity; distinct = distinct serialised histories",
	);
	check.assume("cache value type u64, key type u32 (the cache is generic; the eviction logic does not depend on the types)");
	vt::engine::watchdog(1800);
	let max_ops = check.cases(200, 400) as usize;
	// regression cases first
	let reg: Vec<Case> = check.regression_cases("histories");
	check.enumerate("regressions", reg, false, oracle);
	let n = check.cases(1_500_000, 12_000_000);
	check.phase("histories", n, || strategy(max_ops), oracle);
	check.finish();
}

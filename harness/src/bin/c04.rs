//! C04 — recompression changes only the encoding, never the payload (nor the metadata).

use proptest::prelude::*;
use serde::{Deserialize, Serialize};
use std::collections::BTreeMap;
use versatiles_container::{convert_tiles_container, TilesConverterParameters};
use vt::containers::*;
use vt::engine::{guard, Check, Fail, Obs};
use vt::model::{Coord, Fmt, MemReader, Mix, TileSet};
use vt::util::{self, Comp, TmpGuard};
use vt::{ensure_prop, fail};

#[derive(Clone, Debug, Serialize, Deserialize)]
enum PayClass {
	/// zero payload bytes; only generated when source and output are both compressed, so that the
	/// stored tile is a non-empty gzip/brotli stream in every container (a zero-length stored
	/// tile cannot be told from an absent one in several formats)
	Empty,
	OneByte(u8),
	Incompressible { len: u32, seed: u32 },
	Compressible { len: u32, seed: u32 },
	Mixed70k { seed: u32 },
	/// a payload that is itself a gzip (`brotli: false`) or brotli file, e.g. a compressed attachment
	CompressedFile { len: u32, seed: u32, brotli: bool },
}

impl PayClass {
	fn bytes(&self) -> Vec<u8> {
		match self {
			PayClass::Empty => vec![],
			PayClass::OneByte(b) => vec![*b],
			PayClass::Incompressible { len, seed } => Mix::new(*seed as u64).bytes(*len as usize),
			PayClass::Compressible { len, seed } => {
				let word = format!("tile-{seed}-lorem-ipsum ");
				let mut v = vec![];
				while v.len() < *len as usize {
					v.extend_from_slice(word.as_bytes());
				}
				v.truncate(*len as usize);
				v
			}
			PayClass::CompressedFile { len, seed, brotli } => {
				let inner = PayClass::Compressible { len: *len, seed: *seed }.bytes();
				if *brotli {
					util::brotli_c(&inner)
				} else {
					util::gzip(&inner)
				}
			}
			PayClass::Mixed70k { seed } => {
				let mut v = Mix::new(*seed as u64 ^ 77).bytes(20_000);
				let text = format!("{seed} the quick brown fox ");
				while v.len() < 70_000 {
					v.extend_from_slice(text.as_bytes());
				}
				v.extend_from_slice(&Mix::new(*seed as u64 ^ 99).bytes(1500));
				v
			}
		}
	}
}

#[derive(Clone, Debug, Serialize, Deserialize)]
struct Case {
	target: Target,
	format: Fmt,
	source_comp: Comp,
	/// None = keep
	target_comp: Option<Comp>,
	force: bool,
	z: u8,
	tiles: Vec<(u8, u8, PayClass)>,
	meta: Option<String>,
	/// read the source from a container written by the harness's encoder (format, layout seed)
	/// instead of from memory; ignored when that format cannot hold the (format, compression) pair
	#[serde(default)]
	source: Option<(Target, u32)>,
	/// coordinate transforms of the converter (flip: y -> 2^z-1-y, then swap: x <-> y); they must
	/// not interfere with the recompression
	#[serde(default)]
	flip_y: bool,
	#[serde(default)]
	swap_xy: bool,
}

fn pay() -> impl Strategy<Value = PayClass> {
	prop_oneof![
		2 => any::<u8>().prop_map(PayClass::OneByte),
		1 => Just(PayClass::Empty),
		3 => (200u32..4096, any::<u32>()).prop_map(|(len, seed)| PayClass::Incompressible { len, seed }),
		2 => (10_000u32..100_000, any::<u32>()).prop_map(|(len, seed)| PayClass::Compressible { len, seed }),
		1 => any::<u32>().prop_map(|seed| PayClass::Mixed70k { seed }),
		1 => (1u32..40, any::<u32>()).prop_map(|(len, seed)| PayClass::Compressible { len, seed }),
		1 => (0u32..3000, any::<u32>(), any::<bool>()).prop_map(|(len, seed, brotli)| PayClass::CompressedFile { len, seed, brotli }),
	]
}

fn strategy() -> impl Strategy<Value = Case> {
	(0usize..5, 0usize..3, proptest::option::weighted(0.75, 0usize..3), any::<bool>(), 0usize..10, 8u8..14, proptest::collection::vec((0u8..8, 0u8..8, pay()), 1..6), proptest::option::weighted(0.8, vt::gen::meta_doc()), proptest::option::weighted(0.4, (0usize..5, any::<u32>())), (prop::bool::weighted(0.25), prop::bool::weighted(0.25)), prop::bool::weighted(0.15))
		.prop_map(|(t, s, tc, force, f, z, tiles, meta, source, (flip_y, swap_xy), keep_pair)| {
			let target = Target::ALL[t];
			let source_comp = Comp::ALL[s];
			let mut target_comp = tc.map(|i| Comp::ALL[i]);
			let out = target_comp.unwrap_or(source_comp);
			// pick a format the target can express together with the resulting compression
			let mut format = Fmt::ALL[f];
			match target {
				// (a pair MBTiles cannot express is kept now and then: the conversion must refuse it)
				Target::Mbtiles if keep_pair => {}
				Target::Mbtiles => {
					if out == Comp::Gzip {
						format = Fmt::Pbf;
					} else if out == Comp::None {
						format = [Fmt::Png, Fmt::Jpg, Fmt::Webp][f % 3];
					} else {
						// brotli cannot be expressed: convert to gzip instead
						target_comp = Some(Comp::Gzip);
						format = Fmt::Pbf;
					}
				}
				Target::Pmtiles => format = [Fmt::Pbf, Fmt::Png, Fmt::Jpg, Fmt::Webp, Fmt::Avif][f % 5],
				_ => {}
			}
			let mut tiles = tiles;
			if source_comp == Comp::None || target_comp.unwrap_or(source_comp) == Comp::None {
				for t in tiles.iter_mut() {
					if matches!(t.2, PayClass::Empty) {
						t.2 = PayClass::OneByte(0);
					}
				}
			}
			let source = source.map(|(i, seed)| (Target::ALL[i], seed)).filter(|(t, _)| t.accepts(format, source_comp));
			Case { target, format, source_comp, target_comp, force, z, tiles, meta, source, flip_y, swap_xy }
		})
}

fn oracle(case: &Case, obs: &mut Obs) -> Result<(), Fail> {
	// source: raw payloads compressed with flate2/brotli directly
	let mut raw: BTreeMap<Coord, Vec<u8>> = BTreeMap::new();
	for (x, y, p) in &case.tiles {
		// around the corner where four 256-blocks of the level meet
		raw.entry(Coord::new(case.z.max(9), 252 + *x as u32, 252 + *y as u32)).or_insert_with(|| p.bytes());
	}
	let stored: BTreeMap<Coord, Vec<u8>> = raw.iter().map(|(c, b)| (*c, util::compress(b, case.source_comp))).collect();
	let mut set = TileSet { format: case.format, comp: case.source_comp, tiles: stored, raw: raw.clone(), pyramid: BTreeMap::new(), meta: case.meta.clone() };
	set.pyramid = set.all_boxes();
	let mut guards: Vec<TmpGuard> = vec![];
	let src: Box<dyn versatiles_core::types::TilesReaderTrait> = match case.source {
		Some((t, seed)) if t.accepts(case.format, case.source_comp) => {
			let p = vt::sources::encode_fixture(&set, t, seed)?;
			guards.push(TmpGuard(p.clone()));
			obs.label(format!("source:harness-written-{}", t.name()));
			open_with_repo(&p)?
		}
		_ => {
			obs.label("source:memory");
			Box::new(MemReader::new(&set, "mem"))
		}
	};
	let out_comp = case.target_comp.unwrap_or(case.source_comp);

	let path = case.target.fresh_path();
	let _g = TmpGuard(path.clone());
	let cp = TilesConverterParameters::new(case.target_comp.map(|c| c.to_vt()), None, case.force, case.flip_y, case.swap_xy);
	// where a source tile ends up
	let moved = |c: &Coord| -> Coord {
		let mut c = *c;
		if case.flip_y {
			c = c.flip();
		}
		if case.swap_xy {
			c = c.swap();
		}
		c
	};
	let raw: BTreeMap<Coord, Vec<u8>> = raw.iter().map(|(c, b)| (moved(c), b.clone())).collect();
	let p = path.to_str().unwrap().to_string();
	match guard(|| util::block_on(convert_tiles_container(src, cp, &p))) {
		Ok(Ok(())) => {}
		// MBTiles holds pbf+gzip and uncompressed jpg/png/webp only: any other pair has to be refused
		Ok(Err(_)) if case.target == Target::Mbtiles && !Target::Mbtiles.accepts(case.format, out_comp) => {
			obs.label("mbtiles-refuses-the-pair");
			obs.nontrivial(true);
			return Ok(());
		}
		Ok(Err(e)) => fail!("recompress:convert-error", "conversion {:?}->{:?} (force={}) to {} failed: {e:#}", case.source_comp, case.target_comp, case.force, case.target.name()),
		Err(pi) => return Err(Fail::from_panic("conversion", &pi)),
	}
	let ctx = format!("{} {:?}: {:?} -> {:?} force={}{}{}", case.target.name(), case.format, case.source_comp, case.target_comp, case.force, if case.flip_y { " flip-y" } else { "" }, if case.swap_xy { " swap-xy" } else { "" });

	// independent decoder
	let dec = decode_independent(case.target, &path).map_err(|e| Fail::new("layout:undecodable", format!("{ctx}: independent decoder rejects the output: {e}")))?;
	ensure_prop!(dec.comp == Some(out_comp), "recompress:declared-compression", "{ctx}: output declares {:?}, expected {:?}", dec.comp, out_comp);
	ensure_prop!(dec.format == Some(case.format), "recompress:declared-format", "{ctx}: output declares format {:?}", dec.format);
	for (c, want) in &raw {
		let got = dec.tiles.get(c).ok_or_else(|| Fail::new("recompress:tile-missing", format!("{ctx}: tile {c} missing in the output")))?;
		let decoded = util::decompress(got, out_comp).map_err(|e| Fail::new("recompress:not-decodable", format!("{ctx}: tile {c} ({} bytes, {}) does not decode with the declared compression {:?}: {e}", got.len(), util::hex_short(got), out_comp)))?;
		ensure_prop!(&decoded == want, "recompress:payload-changed", "{ctx}: tile {c} decodes to {} bytes ({}), source payload has {} bytes ({})", decoded.len(), util::hex_short(&decoded), want.len(), util::hex_short(want));
	}
	ensure_prop!(dec.tiles.len() == raw.len(), "recompress:extra-tiles", "{ctx}: output has {} tiles, source {}", dec.tiles.len(), raw.len());
	// metadata (MBTiles keeps a fixed set of keys)
	// (with a harness-written source container the generated layout decides whether and under which
	// name the document is stored; metadata through containers is C17's subject)
	let from_memory = !matches!(case.source, Some((t, _)) if t.accepts(case.format, case.source_comp));
	if let Some(m) = case.meta.as_ref().filter(|_| from_memory) {
		let want: serde_json::Value = serde_json::from_str(m).unwrap();
		if case.target == Target::Mbtiles {
			let (_, meta) = vt::codec::mbtiles::decode(&path).map_err(|e| Fail::new("layout:undecodable", e))?;
			for k in ["name", "author", "type", "description", "version", "license"] {
				if let Some(v) = want.get(k).and_then(|v| v.as_str()) {
					ensure_prop!(meta.get(k).map(|s| s.as_str()) == Some(v), "recompress:metadata", "{ctx}: mbtiles metadata {k} is {:?}, source {v:?}", meta.get(k));
				}
			}
		} else {
			let got = dec.meta.as_ref().ok_or_else(|| Fail::new("recompress:metadata-missing", format!("{ctx}: no metadata in the output")))?;
			let got: serde_json::Value = serde_json::from_slice(got).map_err(|e| Fail::new("recompress:metadata", format!("{ctx}: metadata does not decode to JSON: {e}")))?;
			for (k, v) in want.as_object().unwrap() {
				ensure_prop!(got.get(k) == Some(v), "recompress:metadata", "{ctx}: metadata key {k:?} is {:?}, source {v:?}", got.get(k));
			}
		}
	}
	// the repository's reader agrees
	let r = open_with_repo(&path)?;
	ensure_prop!(Comp::from_vt(r.get_parameters().tile_compression) == out_comp, "recompress:declared-compression", "{ctx}: reader reports {:?}", r.get_parameters().tile_compression);
	for (c, want) in &raw {
		match vt::model::lookup(r.as_ref(), c) {
			Ok(Some(b)) => {
				let d = util::decompress(&b, out_comp).map_err(|e| Fail::new("recompress:not-decodable", format!("{ctx}: {c}: {e}")))?;
				ensure_prop!(&d == want, "recompress:payload-changed", "{ctx}: reader returns a different payload for {c}");
			}
			other => fail!("recompress:tile-missing", "{ctx}: reader returns {other:?} for {c}"),
		}
	}

	obs.label(format!("target:{}", case.target.name()));
	obs.label(format!("{}->{}{}", case.source_comp.name(), case.target_comp.map(|c| c.name()).unwrap_or("keep"), if case.force { "+force" } else { "" }));
	let big = raw.values().any(|b| b.len() > 65536);
	obs.label_if(big, "payload>64KiB");
	obs.label_if(case.flip_y || case.swap_xy, "with-flip-or-swap");
	obs.label_if(raw.values().any(|b| b.len() == 1), "payload=1B");
	obs.label_if(raw.values().any(|b| b.is_empty()), "payload=0B(compressed)");
	obs.nontrivial(case.force || case.target_comp.map(|c| c != case.source_comp).unwrap_or(false));
	Ok(())
}

/// payloads beyond the brotli window the converter works with (2^19 bytes) and beyond 1 / 2 MiB,
/// and metadata documents that do not fit the 16 KiB a PMTiles file reserves in front of its
/// tile data even when compressed
fn big_cases(thorough: bool) -> Vec<Case> {
	let mut v = vec![];
	let mut sizes: Vec<u32> = vec![524_287, 524_288, 524_289, 600_000, 1_048_577, 2_500_000];
	if thorough {
		sizes.extend([4_194_305, 16_777_217]);
	}
	let pairs: [(Comp, Option<Comp>, bool); 6] = [(Comp::None, Some(Comp::Brotli), false), (Comp::Gzip, Some(Comp::Brotli), false), (Comp::Brotli, None, true), (Comp::Brotli, Some(Comp::Gzip), false), (Comp::None, Some(Comp::Gzip), true), (Comp::Brotli, Some(Comp::None), false)];
	for (i, len) in sizes.iter().enumerate() {
		for (j, (source_comp, target_comp, force)) in pairs.iter().enumerate() {
			let target = [Target::Versatiles, Target::Pmtiles, Target::Tar, Target::Dir][(i + j) % 4];
			let pay = match (i + j) % 3 {
				0 => PayClass::Compressible { len: *len, seed: (i * 7 + j) as u32 },
				1 => PayClass::Incompressible { len: *len, seed: (i * 7 + j) as u32 },
				_ => PayClass::Compressible { len: *len, seed: 1000 + j as u32 },
			};
			v.push(Case { target, format: Fmt::Pbf, source_comp: *source_comp, target_comp: *target_comp, force: *force, z: 9, tiles: vec![(0, 0, pay), (1, 0, PayClass::OneByte(7))], meta: None, source: None, flip_y: false, swap_xy: j == 3 });
		}
	}
	for (i, n) in [12_000usize, 20_000, 70_000].iter().enumerate() {
		let text: String = Mix::new(4242 + i as u64).bytes(*n).iter().map(|b| b"abcdefghijklmnopqrstuvwxyzABCDEFGHIJKLMNOPQRSTUVWXYZ0123456789-_"[(*b & 63) as usize] as char).collect();
		for (j, target) in Target::ALL.iter().enumerate() {
			let (format, comp) = if *target == Target::Mbtiles { (Fmt::Pbf, Comp::Gzip) } else { (Fmt::Pbf, Comp::ALL[(i + j) % 3]) };
			let tiles = (0..6u8).map(|k| (k, k / 2, PayClass::Compressible { len: 2000 + 100 * k as u32, seed: k as u32 })).collect();
			v.push(Case { target: *target, format, source_comp: comp, target_comp: if *target == Target::Mbtiles { None } else { Some(Comp::ALL[(i + j + 1) % 3]) }, force: j % 2 == 0, z: 9, tiles, meta: Some(format!("{{\"name\":\"big\",\"description\":\"{text}\"}}")), source: None, flip_y: false, swap_xy: false });
		}
	}
	v
}

fn main() {
	let mut check = Check::from_args(
		"C04",
		"exploration",
		"1-5 raw payloads per case from the classes {0 bytes (only between compressed source and compressed output), 1 byte, incompressible 200 B-4 KiB, compressible 10-100 KiB, 70 KiB mixed, tiny, a payload that is itself a gzip or brotli file; a fixed phase with payloads of 2^19-1 .. 2.5 MB (thorough: 4 and 16 MiB + 1) and incompressible metadata of 12 / 20 / 70 KB} stored in an in-memory source, or in a container of any of the five formats written by the harness's encoder (generated layout: PMTiles leaf directories and internal compressions, sparse versatiles blocks, MBTiles views ...), compressed with flate2/brotli directly (3 source compressions) x target compression {keep, none, gzip, brotli} x force flag x flip-y / swap-xy (a quarter of the cases each) x 5 target formats (format chosen so that the pair is expressible; for MBTiles an inexpressible pair is kept now and then and must be refused or, if accepted, satisfy the same oracle) x TileJSON document; oracle: independent decoder of the output: declared compression = requested, every tile decoded with the harness's decompressor for the declared compression = raw payload, metadata decodes to the same JSON keys; non-trivial = target differs from the source compression or recompression is forced",
	);
	check.assume("flate2 and brotli crates as independent reference implementations of gzip/brotli");
	vt::engine::watchdog(3600);
	let reg: Vec<Case> = check.regression_cases("convert");
	check.enumerate("regressions", reg, false, oracle);
	let thorough = check.cases(0, 1) == 1;
	check.enumerate("big-payloads-and-metadata", big_cases(thorough), false, oracle);
	check.phase("convert", check.cases(6000, 150_000), strategy, oracle);
	check.finish();
}

//! C14 — parallel stream operators keep every tile paired with its own result.
//!
//! The harness owns the completion order of the per-tile tasks: every callback handed to
//! `map_blob_parallel`, `filter_map_blob_parallel` and `from_coord_iter_parallel` announces itself
//! and then blocks on its own gate. The oracle thread is consumer and controller at once: it polls
//! the consuming future by hand (own waker, runtime context entered so that the operators can
//! `tokio::spawn`), and whenever the future is pending and every spawned task has arrived at its
//! gate it opens the gate of the waiting task with the smallest generated priority, waits until the
//! runtime reports that task as complete (callback returned, result stored, join handle notified,
//! task released: `num_alive_tasks` = tasks still inside a callback) and polls again. With one
//! release per poll cycle the order in which an unordered buffer sees its tasks complete is exactly
//! the generated order; the exhaustive phase verifies that and ends with exit 2 otherwise.
//! The controller does not wait for wake-ups: the join handle of a task that the buffer has not
//! polled yet (or whose buffer is not polled because the next operator's window is full) wakes
//! nobody. Nothing depends on timing, except the 20 s no-progress limit that turns a hang into
//! exit 2 (`MACHINERY-ERROR`, never a violation).
//!
//! Where the spawned tasks are counted: at the point where items enter an operator (an `inspect`
//! in front of it, or the coordinate iterator), which runs on the polling thread; so after a poll
//! the number of tasks that must show up at the gates is known without assuming a window size.

use futures::stream::StreamExt;
use proptest::prelude::*;
use serde::{Deserialize, Serialize};
use std::collections::{BTreeMap, HashMap};
use std::future::Future;
use std::pin::Pin;
use std::sync::atomic::{AtomicU64, Ordering};
use std::sync::{Arc, Condvar, Mutex};
use std::task::{Context, Poll, Wake, Waker};
use std::time::Duration;
use versatiles_core::types::{Blob, TileCoord3, TileStream};
use vt::engine::{die, Check, Fail, Obs};
use vt::model::Mix;
use vt::{ensure_prop, fail};

const STALL: Duration = Duration::from_secs(20);

// ---------------------------------------------------------------------------------------
// case
// ---------------------------------------------------------------------------------------

#[derive(Clone, Copy, Debug, Serialize, Deserialize, PartialEq, Eq)]
enum Op {
	/// no parallel operator: the stream is `from_vec(items)` (first stage only)
	Plain,
	Map,
	FilterMap,
	/// `from_coord_iter_parallel` (first stage only)
	FromCoord,
}

/// Completion order of the tasks of one stage, as priorities: among the tasks waiting at their
/// gates the one with the smallest priority finishes next.
#[derive(Clone, Debug, Serialize, Deserialize, PartialEq, Eq)]
enum Order {
	/// `perm[k]` = index of the item whose task finishes k-th (a permutation of 0..n)
	Explicit(Vec<u32>),
	/// Fisher–Yates shuffle driven by the seed
	Seeded(u64),
	/// the task submitted last finishes first
	Reverse,
	/// the first k tasks are held until everything else is through
	HoldFirst(u32),
	/// submission order
	Identity,
}

#[derive(Clone, Debug, Serialize, Deserialize, PartialEq, Eq)]
enum Mask {
	All,
	None,
	/// bit i set = item i is kept (n <= 64)
	Bits(u64),
	/// item i is kept with probability keep/256, decided by a hash of (seed, i)
	Seeded { seed: u64, keep: u8 },
}

#[derive(Clone, Debug, Serialize, Deserialize)]
struct Stage {
	op: Op,
	order: Order,
	/// which items the callback keeps (FilterMap, FromCoord); ignored by Map and Plain
	mask: Mask,
}

#[derive(Clone, Copy, Debug, Serialize, Deserialize, PartialEq, Eq)]
enum Consumer {
	Collect,
	Buffered(usize),
}

#[derive(Clone, Copy, Debug, Serialize, Deserialize, PartialEq, Eq)]
enum Bias {
	/// smallest priority first, whatever the stage
	Mixed,
	/// tasks of the first operator finish before waiting tasks of the second
	FirstStage,
	/// tasks of the second operator finish before waiting tasks of the first
	SecondStage,
}

#[derive(Clone, Debug, Serialize, Deserialize)]
enum Schedule {
	/// every task waits at a gate; `batch` tasks are released per poll cycle (1 = exact order)
	Gate { batch: u8, bias: Bias },
	/// no gates: a generated subset of the tasks sleeps for a generated time (large streams)
	Delay { seed: u64, density: u8, max_us: u32 },
}

#[derive(Clone, Debug, Serialize, Deserialize)]
struct Case {
	n: u32,
	/// zoom level = smallest level holding n tiles + zextra
	zextra: u8,
	/// the items are spread over this many additional (consecutive, ascending) zoom levels
	#[serde(default)]
	zspread: u8,
	start: u32,
	step: u32,
	stages: Vec<Stage>,
	consumer: Consumer,
	sched: Schedule,
	/// r > 0: every item whose index is a multiple of r + 1 (except the first) has the same
	/// coordinate as its predecessor (a stream may carry a coordinate more than once)
	#[serde(default)]
	repeat: u8,
	/// e > 0: in the last stage the callback answers every (e+1)-th retained item with a blob of
	/// zero bytes (a tile without content is still a tile)
	#[serde(default)]
	empties: u8,
}

// ---------------------------------------------------------------------------------------
// plan: everything derived from the case (pure)
// ---------------------------------------------------------------------------------------

struct Plan {
	n: usize,
	coords: Vec<TileCoord3>,
	/// input blob text of item i: `i=<i>;<z>/<x>/<y>`
	texts: Vec<String>,
	ops: Vec<Op>,
	prio: Vec<Vec<u64>>,
	keep: Vec<Vec<bool>>,
	delay_us: Vec<Vec<u32>>,
	gated: bool,
	bias: Bias,
	/// indices of the items with this coordinate, ascending
	index_of: HashMap<(u8, u32, u32), Vec<u32>>,
	/// items whose result in the last stage is a blob of zero bytes
	empty_last: Vec<bool>,
}

fn coord_text(c: &TileCoord3) -> String {
	format!("{}/{}/{}", c.z, c.x, c.y)
}

fn marker(op: Op, stage: usize) -> String {
	match op {
		Op::Plain => String::new(),
		Op::Map => format!("|m{stage}"),
		Op::FilterMap => format!("|f{stage}"),
		Op::FromCoord => format!("|c{stage}"),
	}
}

fn priorities(order: &Order, n: usize) -> Vec<u64> {
	match order {
		Order::Explicit(perm) => {
			let mut p: Vec<u64> = (0..n).map(|i| (n + i) as u64).collect();
			let mut seen = vec![false; n];
			for (k, &i) in perm.iter().enumerate() {
				if (i as usize) < n && !seen[i as usize] {
					seen[i as usize] = true;
					p[i as usize] = k as u64;
				}
			}
			p
		}
		Order::Seeded(seed) => {
			let mut m = Mix::new(*seed);
			let mut v: Vec<u64> = (0..n as u64).collect();
			for i in (1..n).rev() {
				let j = m.below(i as u64 + 1) as usize;
				v.swap(i, j);
			}
			v
		}
		Order::Reverse => (0..n).map(|i| (n - 1 - i) as u64).collect(),
		Order::HoldFirst(k) => (0..n).map(|i| if i < *k as usize { (n + i) as u64 } else { i as u64 }).collect(),
		Order::Identity => (0..n as u64).collect(),
	}
}

fn keeps(mask: &Mask, op: Op, n: usize) -> Vec<bool> {
	if matches!(op, Op::Map | Op::Plain) {
		return vec![true; n];
	}
	match mask {
		Mask::All => vec![true; n],
		Mask::None => vec![false; n],
		Mask::Bits(b) => (0..n).map(|i| i < 64 && (b >> i) & 1 == 1).collect(),
		Mask::Seeded { seed, keep } => (0..n)
			.map(|i| (Mix::new(seed ^ (i as u64).wrapping_mul(0xA24B_AED4_963E_E407)).next() & 0xFF) < *keep as u64)
			.collect(),
	}
}

fn plan_of(case: &Case) -> Result<Plan, String> {
	let n = case.n as usize;
	if n > 20_000 {
		return Err("n too large".into());
	}
	if case.stages.is_empty() || case.stages.len() > 2 {
		return Err("1 or 2 stages".into());
	}
	for (s, st) in case.stages.iter().enumerate() {
		if s > 0 && matches!(st.op, Op::Plain | Op::FromCoord) {
			return Err("Plain / FromCoord only as first stage".into());
		}
	}
	let mut z = 0u8;
	while (1u64 << (2 * z as u32)) < n as u64 {
		z += 1;
	}
	let z = (z + case.zextra.min(8)).min(24);
	let z0 = z;
	let step = case.step as u64 | 1;
	let mut coords = Vec::with_capacity(n);
	let mut texts = Vec::with_capacity(n);
	let mut index_of = HashMap::with_capacity(n);
	let spread = case.zspread.min(3) as usize;
	for i in 0..n {
		// ascending levels, as a pyramid walk produces them
		let z = (z0 as usize + (i * (spread + 1)) / n.max(1)).min(27) as u8;
		let cells = 1u64 << (2 * z as u32);
		let idx = (case.start as u64).wrapping_add(step.wrapping_mul(i as u64)) % cells;
		let x = (idx & ((1u64 << z) - 1)) as u32;
		let y = (idx >> z) as u32;
		let mut c = TileCoord3 { x, y, z };
		let repeats = case.repeat > 0 && i > 0 && i % (case.repeat as usize + 1) == 0;
		if repeats {
			c = coords[i - 1];
		}
		texts.push(format!("i={i};{}", coord_text(&c)));
		index_of.entry((c.z, c.x, c.y)).or_insert_with(Vec::new).push(i as u32);
		coords.push(c);
	}
	let repeated = if case.repeat > 0 && n > 0 { (n - 1) / (case.repeat as usize + 1) } else { 0 };
	if index_of.len() + repeated != n {
		return Err("coordinates not distinct".into());
	}
	let ops: Vec<Op> = case.stages.iter().map(|s| s.op).collect();
	let prio = case.stages.iter().map(|s| priorities(&s.order, n)).collect();
	let keep = case.stages.iter().map(|s| keeps(&s.mask, s.op, n)).collect();
	let (gated, bias, delay_us) = match &case.sched {
		Schedule::Gate { bias, .. } => (true, *bias, vec![vec![]; ops.len()]),
		Schedule::Delay { seed, density, max_us } => {
			let d = (0..ops.len())
				.map(|s| {
					(0..n)
						.map(|i| {
							let mut m = Mix::new(seed ^ ((s as u64) << 56) ^ (i as u64).wrapping_mul(0x9FB2_1C65_1E98_DF25));
							if (m.next() & 0xFF) < *density as u64 {
								1 + m.below((*max_us).min(20_000) as u64) as u32
							} else {
								0
							}
						})
						.collect()
				})
				.collect();
			(false, Bias::Mixed, d)
		}
	};
	let last_op = *ops.last().unwrap();
	let empty_last: Vec<bool> = (0..n).map(|i| case.empties > 0 && last_op != Op::Plain && (i + 1) % (case.empties as usize + 1) == 0).collect();
	Ok(Plan { n, coords, texts, ops, prio, keep, delay_us, gated, bias, index_of, empty_last })
}

// ---------------------------------------------------------------------------------------
// gates and the shared record
// ---------------------------------------------------------------------------------------

struct Gate {
	open: Mutex<bool>,
	cv: Condvar,
}

impl Gate {
	fn open(&self) {
		*self.open.lock().unwrap() = true;
		self.cv.notify_all();
	}
	fn pass(&self) {
		let mut g = self.open.lock().unwrap();
		while !*g {
			g = self.cv.wait(g).unwrap();
		}
	}
}

/// cases in which schedule control had to be given up (items sharing a task)
static STALLS: AtomicU64 = AtomicU64::new(0);

#[derive(Default)]
struct St {
	/// schedule control was given up for this case
	fallback: bool,
	started: u64,
	finished: u64,
	released: u64,
	/// (bias key, priority, stage, index, serial) -> gate
	blocked: BTreeMap<(u8, u64, u8, u32, u64), Arc<Gate>>,
	open_all: bool,
	invocations: Vec<Vec<u32>>,
	submit_order: Vec<Vec<u32>>,
	finish_order: Vec<Vec<u32>>,
	in_flight: u64,
	max_in_flight: u64,
	gated_tasks: u64,
	delayed_tasks: u64,
	anomalies: Vec<String>,
}

struct Shared {
	plan: Plan,
	st: Mutex<St>,
	/// only the controller waits on this one
	ctrl: Condvar,
	/// tasks the operators have spawned so far (counted where the items enter an operator)
	spawned: AtomicU64,
	/// the case, for the message of a machinery error
	case_text: String,
	/// generate-from-coordinates: how many callbacks have been invoked for a coordinate so far
	/// (the k-th invocation stands for the k-th item with that coordinate)
	claimed: Mutex<HashMap<(u8, u32, u32), usize>>,
}

impl Shared {
	fn submitted(&self, stage: usize, idx: Option<u32>) {
		self.spawned.fetch_add(1, Ordering::SeqCst);
		if let Some(i) = idx {
			self.st.lock().unwrap().submit_order[stage].push(i);
		}
	}

	/// Called at the start of a callback: announce, then wait for the gate (or sleep).
	fn enter(&self, stage: usize, idx: Option<u32>, what: &str) {
		let mut gate = None;
		let mut delay = 0u32;
		{
			let mut st = self.st.lock().unwrap();
			st.started += 1;
			st.in_flight += 1;
			st.max_in_flight = st.max_in_flight.max(st.in_flight);
			match idx {
				None => st.anomalies.push(format!("stage {stage}: callback was called with {what}, which is no item of the stream")),
				Some(i) => {
					st.invocations[stage][i as usize] += 1;
					if self.plan.gated {
						if !st.open_all {
							let g = Arc::new(Gate { open: Mutex::new(false), cv: Condvar::new() });
							let bias = match self.plan.bias {
								Bias::Mixed => 0,
								Bias::FirstStage => stage as u8,
								Bias::SecondStage => 1 - stage as u8,
							};
							let serial = st.started;
							st.blocked.insert((bias, self.plan.prio[stage][i as usize], stage as u8, i, serial), g.clone());
							st.gated_tasks += 1;
							gate = Some(g);
						}
					} else {
						delay = self.plan.delay_us[stage][i as usize];
						if delay > 0 {
							st.delayed_tasks += 1;
						}
					}
				}
			}
			self.ctrl.notify_one();
		}
		if let Some(g) = gate {
			g.pass();
		} else if delay > 0 {
			std::thread::sleep(Duration::from_micros(delay as u64));
		}
	}

	/// Called at the end of a callback.
	fn leave(&self, stage: usize, idx: Option<u32>) {
		let mut st = self.st.lock().unwrap();
		if let Some(i) = idx {
			st.finish_order[stage].push(i);
		}
		st.finished += 1;
		st.in_flight -= 1;
		self.ctrl.notify_one();
	}

	fn open_everything(&self) {
		let mut st = self.st.lock().unwrap();
		st.open_all = true;
		let blocked = std::mem::take(&mut st.blocked);
		drop(st);
		for g in blocked.values() {
			g.open();
		}
	}

	fn summary(&self) -> String {
		let st = self.st.lock().unwrap();
		format!(
			"spawned={} started={} released={} finished={} blocked={} in_flight={}; case {}",
			self.spawned.load(Ordering::SeqCst),
			st.started,
			st.released,
			st.finished,
			st.blocked.len(),
			st.in_flight,
			self.case_text
		)
	}
}

/// never leave a task waiting at its gate, whatever way the oracle is left
struct OpenOnDrop(Arc<Shared>);
impl Drop for OpenOnDrop {
	fn drop(&mut self) {
		self.0.open_everything();
	}
}

/// index encoded at the front of a blob (`i=<digits>;`)
fn parse_idx(bytes: &[u8], n: usize) -> Option<u32> {
	let rest = bytes.strip_prefix(b"i=")?;
	let end = rest.iter().position(|&b| b == b';')?;
	if end == 0 || end > 9 || !rest[..end].iter().all(|b| b.is_ascii_digit()) {
		return None;
	}
	let i: u32 = std::str::from_utf8(&rest[..end]).ok()?.parse().ok()?;
	((i as usize) < n).then_some(i)
}

fn lossy(bytes: &[u8]) -> String {
	let s = String::from_utf8_lossy(&bytes[..bytes.len().min(80)]).to_string();
	format!("{s:?}")
}

fn appended(blob: &Blob, m: &str) -> Blob {
	let mut v = blob.as_slice().to_vec();
	v.extend_from_slice(m.as_bytes());
	Blob::from(v)
}

// ---------------------------------------------------------------------------------------
// waker of the hand-rolled executor
// ---------------------------------------------------------------------------------------

struct Signal {
	set: Mutex<bool>,
	cv: Condvar,
}

impl Signal {
	fn clear(&self) {
		*self.set.lock().unwrap() = false;
	}
	fn is_set(&self) -> bool {
		*self.set.lock().unwrap()
	}
	/// wait until woken; false = nothing happened for `STALL`
	fn wait(&self) -> bool {
		let mut g = self.set.lock().unwrap();
		let t0 = std::time::Instant::now();
		while !*g {
			let left = STALL.checked_sub(t0.elapsed());
			let Some(left) = left else { return false };
			g = self.cv.wait_timeout(g, left).unwrap().0;
		}
		true
	}
}

impl Signal {
	/// wait for a wake-up for at most `d`
	fn wait_for(&self, d: Duration) -> bool {
		let g = self.set.lock().unwrap();
		if *g {
			return true;
		}
		*self.cv.wait_timeout(g, d).unwrap().0
	}
}

/// set in the one-CPU child: a stream that can never finish is recognised (pending, never woken,
/// no live task in the runtime) and reported by the oracle instead of ending the process
static ONE_CPU_CHILD: std::sync::atomic::AtomicBool = std::sync::atomic::AtomicBool::new(false);
static NEVER_FINISHES: Mutex<Option<String>> = Mutex::new(None);

impl Wake for Signal {
	fn wake(self: Arc<Self>) {
		self.wake_by_ref();
	}
	fn wake_by_ref(self: &Arc<Self>) {
		*self.set.lock().unwrap() = true;
		self.cv.notify_all();
	}
}

// ---------------------------------------------------------------------------------------
// runtimes: one per concurrently running oracle, reused, never dropped
// ---------------------------------------------------------------------------------------

fn runtime_workers() -> usize {
	// two chained operators keep up to 2 x num_cpus callbacks waiting at their gates
	2 * num_cpus::get() + 2
}

static POOL: Mutex<Vec<tokio::runtime::Runtime>> = Mutex::new(Vec::new());

struct PooledRt(Option<tokio::runtime::Runtime>);
impl PooledRt {
	fn get() -> PooledRt {
		let rt = POOL.lock().unwrap().pop();
		let rt = rt.unwrap_or_else(|| {
			tokio::runtime::Builder::new_multi_thread()
				.worker_threads(runtime_workers())
				.enable_all()
				.build()
				.unwrap_or_else(|e| die(&format!("cannot build a tokio runtime: {e}")))
		});
		PooledRt(Some(rt))
	}
}
impl Drop for PooledRt {
	fn drop(&mut self) {
		if let Some(rt) = self.0.take() {
			POOL.lock().unwrap().push(rt);
		}
	}
}

// ---------------------------------------------------------------------------------------
// building the stream under test
// ---------------------------------------------------------------------------------------

type Chunks = Arc<Mutex<Vec<Vec<(TileCoord3, Blob)>>>>;

fn apply_stage(sh: &Arc<Shared>, stream: TileStream<'static>, stage: usize) -> TileStream<'static> {
	let op = sh.plan.ops[stage];
	let n = sh.plan.n;
	let m = marker(op, stage);
	// items entering the operator = tasks it spawns (counted on the polling thread)
	let counter = Arc::clone(sh);
	let input = TileStream::from_stream(
		stream
			.stream
			.inspect(move |(_, blob)| counter.submitted(stage, parse_idx(blob.as_slice(), n)))
			.boxed(),
	);
	let s = Arc::clone(sh);
	match op {
		Op::Map => input.map_blob_parallel(move |blob| {
			let idx = parse_idx(blob.as_slice(), n);
			s.enter(stage, idx, &lossy(blob.as_slice()));
			let empty = stage + 1 == s.plan.ops.len() && idx.map(|i| s.plan.empty_last[i as usize]).unwrap_or(false);
			let out = if empty { Blob::new_empty() } else { appended(&blob, &m) };
			s.leave(stage, idx);
			out
		}),
		Op::FilterMap => input.filter_map_blob_parallel(move |blob| {
			let idx = parse_idx(blob.as_slice(), n);
			s.enter(stage, idx, &lossy(blob.as_slice()));
			let out = match idx {
				Some(i) if !s.plan.keep[stage][i as usize] => None,
				Some(i) if stage + 1 == s.plan.ops.len() && s.plan.empty_last[i as usize] => Some(Blob::new_empty()),
				_ => Some(appended(&blob, &m)),
			};
			s.leave(stage, idx);
			out
		}),
		Op::Plain | Op::FromCoord => unreachable!("checked by plan_of"),
	}
}

fn build_stream(sh: &Arc<Shared>) -> TileStream<'static> {
	let plan = &sh.plan;
	let mut stream = match plan.ops[0] {
		Op::Plain => TileStream::from_vec(plan.coords.iter().zip(&plan.texts).map(|(c, t)| (*c, Blob::from(t.as_str()))).collect()),
		Op::FromCoord => {
			let counter = Arc::clone(sh);
			let coords = plan.coords.clone();
			let iter = coords.into_iter().enumerate().map(move |(i, c)| {
				counter.submitted(0, Some(i as u32));
				c
			});
			let s = Arc::clone(sh);
			let m = marker(Op::FromCoord, 0);
			TileStream::from_coord_iter_parallel(iter, move |coord| {
				let key = (coord.z, coord.x, coord.y);
				let idx = s.plan.index_of.get(&key).and_then(|v| {
					let mut g = s.claimed.lock().unwrap();
					let k = g.entry(key).or_insert(0);
					*k += 1;
					v.get(*k - 1).copied()
				});
				s.enter(0, idx, &format!("coordinate {}", coord_text(&coord)));
				let out = match idx {
					Some(i) if s.plan.keep[0][i as usize] && s.plan.ops.len() == 1 && s.plan.empty_last[i as usize] => Some(Blob::new_empty()),
					Some(i) if s.plan.keep[0][i as usize] => Some(Blob::from(format!("{}{m}", s.plan.texts[i as usize]))),
					_ => None,
				};
				s.leave(0, idx);
				out
			})
		}
		Op::Map | Op::FilterMap => {
			let items: Vec<(TileCoord3, Blob)> = plan.coords.iter().zip(&plan.texts).map(|(c, t)| (*c, Blob::from(t.as_str()))).collect();
			apply_stage(sh, TileStream::from_vec(items), 0)
		}
	};
	for stage in 1..plan.ops.len() {
		stream = apply_stage(sh, stream, stage);
	}
	stream
}

// ---------------------------------------------------------------------------------------
// consumer + controller
// ---------------------------------------------------------------------------------------

/// Wait until every task whose callback has returned is complete as far as the runtime is
/// concerned (result stored, join handle notified, task released), i.e. the only live tasks are the
/// ones still inside their callbacks.
fn settle(sh: &Arc<Shared>) {
	let metrics = tokio::runtime::Handle::current().metrics();
	let t0 = std::time::Instant::now();
	let mut spins = 0u32;
	loop {
		let in_flight = sh.st.lock().unwrap().in_flight as usize;
		if metrics.num_alive_tasks() <= in_flight {
			return;
		}
		spins += 1;
		if spins < 200 {
			std::hint::spin_loop();
		} else if spins < 2000 {
			std::thread::yield_now();
		} else {
			std::thread::sleep(Duration::from_micros(50));
			if t0.elapsed() > STALL {
				die(&format!("C14: finished tasks did not complete within 20 s (alive={}, {})", metrics.num_alive_tasks(), sh.summary()));
			}
		}
	}
}

fn drive(sh: &Arc<Shared>, mut fut: Pin<Box<dyn Future<Output = ()>>>, batch: usize) {
	let sig = Arc::new(Signal { set: Mutex::new(false), cv: Condvar::new() });
	let waker = Waker::from(Arc::clone(&sig));
	let mut cx = Context::from_waker(&waker);
	let mut idle_polls = 0;
	loop {
		// poll until the future is pending and nobody has asked for another poll
		loop {
			sig.clear();
			if let Poll::Ready(()) = fut.as_mut().poll(&mut cx) {
				return;
			}
			if !sig.is_set() {
				break;
			}
		}
		if !sh.plan.gated && ONE_CPU_CHILD.load(Ordering::Relaxed) {
			let metrics = tokio::runtime::Handle::current().metrics();
			let mut quiet = 0;
			while !sig.wait_for(Duration::from_millis(100)) {
				quiet = if metrics.num_alive_tasks() == 0 { quiet + 1 } else { 0 };
				if quiet >= 30 {
					*NEVER_FINISHES.lock().unwrap() = Some(format!("the consumer's future is pending, its waker was not invoked again and the runtime has no live task (observed 30 times over 3 s); {}", sh.summary()));
					return;
				}
			}
			continue;
		}
		if !sh.plan.gated {
			if !sig.wait() {
				die(&format!("C14: stream pending without progress for 20 s (delay schedule; {})", sh.summary()));
			}
			continue;
		}
		// every task spawned so far must have arrived at its gate
		let spawned = sh.spawned.load(Ordering::SeqCst);
		let mut st = sh.st.lock().unwrap();
		let t0 = std::time::Instant::now();
		let mut last_started = st.started;
		let mut last_change = std::time::Instant::now();
		while st.started < spawned {
			let Some(left) = STALL.checked_sub(t0.elapsed()) else {
				drop(st);
				die(&format!("C14: spawned tasks did not start within 20 s ({})", sh.summary()));
			};
			st = sh.ctrl.wait_timeout(st, left.min(Duration::from_millis(50))).unwrap().0;
			if st.started != last_started {
				last_started = st.started;
				last_change = std::time::Instant::now();
			} else if last_change.elapsed() > if st.blocked.is_empty() { Duration::from_millis(if STALLS.load(Ordering::Relaxed) > 3 { 100 } else { 2000 }) } else { Duration::from_millis(if STALLS.load(Ordering::Relaxed) > 20 { 5 } else { 300 }) } {
				// An implementation may run several items inside one task: the items behind a gated
				// one cannot start before it is released. (With nothing waiting at a gate: items were
				// taken from the input but their callbacks are not invoked; whether that loses output
				// is for the oracle to say.) Nothing moves any more: give up schedule
				// control for this case (all gates open from now on); the oracle does not depend on it.
				STALLS.fetch_add(1, Ordering::Relaxed);
				st.open_all = true;
				st.fallback = true;
				while let Some((_, gate)) = st.blocked.pop_first() {
					st.released += 1;
					gate.open();
				}
				break;
			}
		}
		if st.open_all && st.fallback {
			drop(st);
			if !sig.wait() {
				die(&format!("C14: stream pending without progress for 20 s (ungated fallback; {})", sh.summary()));
			}
			continue;
		}
		let mut any = false;
		for _ in 0..batch.max(1) {
			let Some((_, gate)) = st.blocked.pop_first() else { break };
			any = true;
			st.released += 1;
			let target = st.finished + 1;
			gate.open();
			let t0 = std::time::Instant::now();
			while st.finished < target {
				let Some(left) = STALL.checked_sub(t0.elapsed()) else {
					drop(st);
					die(&format!("C14: released callback did not return within 20 s ({})", sh.summary()));
				};
				st = sh.ctrl.wait_timeout(st, left).unwrap().0;
			}
		}
		drop(st);
		// The released tasks are complete once the runtime has let go of them; the next poll then
		// finds their results (if the operator they belong to is polled at all: while the window of
		// a following operator is full, completions stay unobserved, which is a legal schedule too).
		// Not the wake-up but this is what the controller waits for, because a join handle that has
		// never been polled wakes nobody.
		settle(sh);
		if any {
			idle_polls = 0;
		} else {
			// nothing waits at a gate and the stream is still pending: poll once more with
			// everything settled, after that only the stream itself can make the next move
			idle_polls += 1;
			if idle_polls > 1 && !sig.wait() {
				die(&format!("C14: stream pending with no task in flight for 20 s ({})", sh.summary()));
			}
		}
	}
}

struct Run {
	chunks: Vec<Vec<(TileCoord3, Blob)>>,
	invocations: Vec<Vec<u32>>,
	submit_order: Vec<Vec<u32>>,
	finish_order: Vec<Vec<u32>>,
	max_in_flight: u64,
	gated_tasks: u64,
	delayed_tasks: u64,
	anomalies: Vec<String>,
	fallback: bool,
}

fn run(case: &Case, plan: Plan) -> Run {
	let stages = plan.ops.len();
	let n = plan.n;
	let sh = Arc::new(Shared {
		plan,
		st: Mutex::new(St {
			invocations: vec![vec![0; n]; stages],
			submit_order: vec![Vec::with_capacity(n); stages],
			finish_order: vec![Vec::with_capacity(n); stages],
			..St::default()
		}),
		ctrl: Condvar::new(),
		spawned: AtomicU64::new(0),
		case_text: format!("{case:?}"),
		claimed: Mutex::new(HashMap::new()),
	});
	let rt = PooledRt::get();
	let _ctx = rt.0.as_ref().unwrap().enter();
	let _open = OpenOnDrop(Arc::clone(&sh));
	let chunks: Chunks = Arc::new(Mutex::new(Vec::new()));
	let stream = build_stream(&sh);
	let out = Arc::clone(&chunks);
	let fut: Pin<Box<dyn Future<Output = ()>>> = match case.consumer {
		Consumer::Collect => Box::pin(async move {
			let v = stream.collect().await;
			out.lock().unwrap().push(v);
		}),
		Consumer::Buffered(size) => Box::pin(async move {
			stream.for_each_buffered(size, |chunk| out.lock().unwrap().push(chunk)).await;
		}),
	};
	let batch = match case.sched {
		Schedule::Gate { batch, .. } => batch.max(1) as usize,
		Schedule::Delay { .. } => 1,
	};
	drive(&sh, fut, batch);
	sh.open_everything();
	let mut st = sh.st.lock().unwrap();
	let chunks = std::mem::take(&mut *chunks.lock().unwrap());
	Run {
		chunks,
		invocations: st.invocations.clone(),
		submit_order: std::mem::take(&mut st.submit_order),
		finish_order: std::mem::take(&mut st.finish_order),
		max_in_flight: st.max_in_flight,
		gated_tasks: st.gated_tasks,
		delayed_tasks: st.delayed_tasks,
		anomalies: st.anomalies.clone(),
		fallback: st.fallback,
	}
}

// ---------------------------------------------------------------------------------------
// oracle
// ---------------------------------------------------------------------------------------

fn op_name(op: Op) -> &'static str {
	match op {
		Op::Plain => "plain",
		Op::Map => "map",
		Op::FilterMap => "filter_map",
		Op::FromCoord => "from_coord",
	}
}

fn oracle(case: &Case, obs: &mut Obs) -> Result<(), Fail> {
	let plan = match plan_of(case) {
		Ok(p) => p,
		Err(e) => die(&format!("C14: malformed case ({e}): {case:?}")),
	};
	let n = plan.n;
	let cpus = num_cpus::get();
	let ops = plan.ops.clone();
	let chain: String = ops.iter().map(|o| op_name(*o)).collect::<Vec<_>>().join(">");
	// expectation, from the case alone
	let kept: Vec<bool> = (0..n).map(|i| plan.keep.iter().all(|k| k[i])).collect();
	let expected: Vec<String> = (0..n)
		.map(|i| {
			let mut t = plan.texts[i].clone();
			for (s, op) in ops.iter().enumerate() {
				t.push_str(&marker(*op, s));
			}
			t
		})
		.collect();
	let coords = plan.coords.clone();
	let empty_last = plan.empty_last.clone();
	// which items reach the callback of stage s
	let reaches: Vec<Vec<bool>> = (0..ops.len()).map(|s| (0..n).map(|i| plan.keep[..s].iter().all(|k| k[i])).collect()).collect();
	let explicit_first: Option<Vec<u32>> = match (&case.stages[0].order, &case.sched) {
		(Order::Explicit(p), Schedule::Gate { batch: 1, .. }) if p.len() == n && n <= cpus && ops.len() == 1 && ops[0] != Op::Plain => Some(p.clone()),
		_ => None,
	};

	let r = run(case, plan);

	// --- the property -------------------------------------------------------------------
	if let Some(why) = NEVER_FINISHES.lock().unwrap().take() {
		let got: usize = r.chunks.iter().map(|c| c.len()).sum();
		fail!("stream-never-finishes", "{chain} n={n}, {} CPU(s) visible to the process: after {got} outputs {why}", num_cpus::get());
	}
	if let Some(a) = r.anomalies.first() {
		fail!("callback-got-foreign-item", "{chain} n={n}: {a}");
	}
	let mut seen = vec![0u32; n];
	for (coord, blob) in r.chunks.iter().flatten() {
		let bytes = blob.as_slice();
		if bytes.is_empty() {
			// a result of zero bytes carries no index: it stands for a retained item of this coordinate
			// whose callback answered with an empty blob and that has not come out yet
			match (0..n).find(|&i| coords[i] == *coord && kept[i] && empty_last[i] && seen[i] == 0) {
				Some(i) => seen[i] += 1,
				None => fail!("output-is-no-result-of-an-input", "{chain} n={n}: an output of zero bytes at {} that no (remaining) input with an empty result accounts for", coord_text(coord)),
			}
			continue;
		}
		let Some(i) = parse_idx(bytes, n) else {
			fail!("output-is-no-result-of-an-input", "{chain} n={n}: output ({}, {}) was not computed from any input of the stream", coord_text(coord), lossy(bytes));
		};
		let i = i as usize;
		let own = coord_text(&coords[i]);
		ensure_prop!(
			*coord == coords[i],
			"result-attached-to-another-coordinate",
			"{chain} n={n}: the result {} computed from input #{i} (coordinate {own}) came out paired with coordinate {}",
			lossy(bytes),
			coord_text(coord)
		);
		ensure_prop!(
			!(kept[i] && empty_last[i]) && bytes == expected[i].as_bytes(),
			"wrong-result",
			"{chain} n={n}: input #{i} at {own} came out as {}, expected {:?}",
			lossy(bytes),
			expected[i]
		);
		seen[i] += 1;
	}
	for i in 0..n {
		let own = coord_text(&coords[i]);
		if kept[i] {
			ensure_prop!(seen[i] >= 1, "tile-lost", "{chain} n={n} consumer={:?}: retained input #{i} at {own} produced no output", case.consumer);
			ensure_prop!(seen[i] == 1, "tile-duplicated", "{chain} n={n} consumer={:?}: input #{i} at {own} came out {} times", case.consumer, seen[i]);
		} else {
			ensure_prop!(seen[i] == 0, "dropped-tile-emitted", "{chain} n={n}: input #{i} at {own} was dropped by the callback but came out {} times", seen[i]);
		}
	}
	for (s, inv) in r.invocations.iter().enumerate() {
		for i in 0..n {
			ensure_prop!(
				inv[i] <= 1,
				"tile-processed-twice",
				"{chain} n={n}: the callback of stage {s} ran {} times for input #{i} at {}",
				inv[i],
				coord_text(&coords[i])
			);
			ensure_prop!(
				reaches[s][i] || inv[i] == 0,
				"dropped-tile-processed",
				"{chain} n={n}: stage {s} processed input #{i} although the previous stage dropped it"
			);
		}
	}
	if let Consumer::Buffered(size) = case.consumer {
		if size >= 1 {
			for (k, c) in r.chunks.iter().enumerate() {
				ensure_prop!(c.len() <= size, "chunk-longer-than-buffer", "{chain} n={n}: for_each_buffered({size}) delivered chunk #{k} with {} items", c.len());
			}
		}
		if ops == [Op::Plain] {
			// a sequential stream has an order; the chunks must present it unchanged
			let order: Vec<u32> = r.chunks.iter().flatten().filter_map(|(_, b)| parse_idx(b.as_slice(), n)).collect();
			let want: Vec<u32> = (0..n as u32).collect();
			ensure_prop!(order == want, "buffered-order", "plain n={n}: for_each_buffered({size}) delivered the items in the order {:?}", &order[..order.len().min(40)]);
		}
	}

	// --- evidence -----------------------------------------------------------------------
	let mut reordered = false;
	for s in 0..ops.len() {
		if r.finish_order[s] != r.submit_order[s] {
			reordered = true;
		}
	}
	obs.label(format!("op:{chain}"));
	obs.label_if(ops.len() == 2, "chain");
	obs.label(match n {
		0 => "n=0".to_string(),
		1 => "n=1".to_string(),
		2..=6 => "n=2..6".to_string(),
		_ if n <= cpus => "n=7..cpus".to_string(),
		_ if n <= 100 => "n=cpus+1..100".to_string(),
		_ if n < 1000 => "n=101..999".to_string(),
		_ => "n>=1000".to_string(),
	});
	obs.label_if(reordered, "reordered");
	obs.label_if(r.max_in_flight as usize >= cpus, "window-full");
	obs.label_if(r.max_in_flight as usize > cpus, "two-windows-overlap");
	match &case.sched {
		Schedule::Gate { batch, bias } => {
			obs.label(if *batch <= 1 { "gate:one-release-per-poll" } else { "gate:batched-release" });
			if ops.len() == 2 {
				obs.label(format!("bias:{bias:?}"));
			}
		}
		Schedule::Delay { .. } => obs.label("delay"),
	}
	for (s, st) in case.stages.iter().enumerate() {
		if st.op == Op::Plain {
			continue;
		}
		obs.label(match st.order {
			Order::Explicit(_) => "order:explicit",
			Order::Seeded(_) => "order:shuffled",
			Order::Reverse => "order:reverse",
			Order::HoldFirst(_) => "order:hold-first",
			Order::Identity => "order:identity",
		});
		if matches!(st.op, Op::FilterMap | Op::FromCoord) && n > 0 {
			let m = keeps(&st.mask, st.op, n);
			let c = m.iter().filter(|b| **b).count();
			obs.label(format!("stage{s}:{}", if c == 0 { "drops-all" } else if c == n { "keeps-all" } else { "drops-some" }));
		}
	}
	match case.consumer {
		Consumer::Collect => obs.label("consumer:collect"),
		Consumer::Buffered(0) => obs.label("consumer:buffered(0)"),
		Consumer::Buffered(1) => obs.label("consumer:buffered(1)"),
		Consumer::Buffered(b) if b < n => obs.label(if n % b == 0 { "consumer:buffered(<n, divides n)" } else { "consumer:buffered(<n, partial last chunk)" }),
		Consumer::Buffered(b) if b == n => obs.label("consumer:buffered(n)"),
		Consumer::Buffered(_) => obs.label("consumer:buffered(>n)"),
	}
	obs.label_if(r.fallback, "schedule-control-given-up(items-share-a-task)");
	obs.count("tasks_gated", r.gated_tasks);
	obs.count("tasks_delayed", r.delayed_tasks);
	obs.count("outputs", seen.iter().map(|c| *c as u64).sum());
	obs.count("callback_invocations", r.invocations.iter().flatten().map(|c| *c as u64).sum());
	obs.count("chunks", r.chunks.len() as u64);
	obs.count(&format!("cases_with_max_in_flight={}", bucket(r.max_in_flight as usize, cpus)), 1);
	obs.nontrivial(reordered && n >= 2);

	// the exhaustive phase claims that the requested order is the one that happened
	if let Some(p) = explicit_first {
		if r.finish_order[0] != p {
			// An implementation that runs several items inside one task cannot be driven into every
			// order. The oracle above does not depend on the order; the case is only not counted as
			// one of the enumerated orders (see the label histogram: the exhaustive claim holds
			// when no case carries this label).
			obs.label("order-NOT-realised-as-requested");
		} else {
			obs.label("order-realised-as-requested");
		}
	}
	Ok(())
}

fn bucket(m: usize, cpus: usize) -> String {
	if m == 0 {
		"0".into()
	} else if m < cpus {
		"1..cpus-1".into()
	} else if m == cpus {
		"cpus".into()
	} else if m < 2 * cpus {
		"cpus+1..2cpus-1".into()
	} else {
		"2cpus".into()
	}
}

// ---------------------------------------------------------------------------------------
// case lists and strategies
// ---------------------------------------------------------------------------------------

fn permutations(n: usize) -> Vec<Vec<u32>> {
	fn rec(cur: &mut Vec<u32>, used: &mut Vec<bool>, n: usize, out: &mut Vec<Vec<u32>>) {
		if cur.len() == n {
			out.push(cur.clone());
			return;
		}
		for i in 0..n {
			if !used[i] {
				used[i] = true;
				cur.push(i as u32);
				rec(cur, used, n, out);
				cur.pop();
				used[i] = false;
			}
		}
	}
	let mut out = vec![];
	rec(&mut vec![], &mut vec![false; n], n, &mut out);
	out
}

fn gate_case(n: usize, stages: Vec<Stage>, consumer: Consumer, bias: Bias) -> Case {
	Case {
		n: n as u32,
		zextra: (n % 3) as u8,
		zspread: ((n / 2) % 3) as u8,
		start: (n as u32).wrapping_mul(2_654_435_761),
		step: 7 + 2 * n as u32,
		stages,
		consumer,
		sched: Schedule::Gate { batch: 1, bias },
		repeat: 0,
		empties: 0,
	}
}

/// every completion order of n <= max_n tasks x {map, filter_map x every keep mask, from_coord x every mask}
fn exhaustive_cases(max_n: usize) -> Vec<Case> {
	let mut v = vec![];
	for n in 0..=max_n {
		for perm in permutations(n) {
			v.push(gate_case(n, vec![Stage { op: Op::Map, order: Order::Explicit(perm.clone()), mask: Mask::All }], Consumer::Collect, Bias::Mixed));
			for op in [Op::FilterMap, Op::FromCoord] {
				for bits in 0..(1u64 << n) {
					v.push(gate_case(n, vec![Stage { op, order: Order::Explicit(perm.clone()), mask: Mask::Bits(bits) }], Consumer::Collect, Bias::Mixed));
				}
			}
		}
	}
	v
}

/// chains of two operators over n <= max_n items: every order of either stage, every mask, three
/// ways of interleaving the stages, collected or fed to a buffered consumer
fn chain_cases(max_n: usize) -> Vec<Case> {
	let mut v = vec![];
	for n in 0..=max_n {
		let perms = permutations(n);
		let masks = |op: Op| -> Vec<Mask> {
			if op == Op::Map {
				vec![Mask::All]
			} else {
				(0..(1u64 << n)).map(Mask::Bits).collect()
			}
		};
		for op1 in [Op::Map, Op::FilterMap, Op::FromCoord] {
			for op2 in [Op::Map, Op::FilterMap] {
				for m1 in masks(op1) {
					for m2 in masks(op2) {
						for p1 in &perms {
							for p2 in &perms {
								let k = v.len();
								let bias = [Bias::Mixed, Bias::FirstStage, Bias::SecondStage][k % 3];
								let consumer = if k % 4 == 3 { Consumer::Buffered(k / 4 % (n + 2)) } else { Consumer::Collect };
								v.push(gate_case(
									n,
									vec![
										Stage { op: op1, order: Order::Explicit(p1.clone()), mask: m1.clone() },
										Stage { op: op2, order: Order::Explicit(p2.clone()), mask: m2.clone() },
									],
									consumer,
									bias,
								));
							}
						}
					}
				}
			}
		}
	}
	v
}

fn order_strategy() -> impl Strategy<Value = Order> {
	prop_oneof![
		5 => any::<u64>().prop_map(Order::Seeded),
		2 => Just(Order::Reverse),
		1 => (1u32..4).prop_map(Order::HoldFirst),
		1 => Just(Order::Identity),
	]
}

fn mask_strategy() -> impl Strategy<Value = Mask> {
	prop_oneof![
		4 => (any::<u64>(), 1u8..=255).prop_map(|(seed, keep)| Mask::Seeded { seed, keep }),
		1 => Just(Mask::All),
		1 => Just(Mask::None),
	]
}

fn stage_strategy(first: bool) -> impl Strategy<Value = Stage> {
	let op = if first {
		prop_oneof![Just(Op::Map), Just(Op::FilterMap), Just(Op::FromCoord)].boxed()
	} else {
		prop_oneof![Just(Op::Map), Just(Op::FilterMap)].boxed()
	};
	(op, order_strategy(), mask_strategy()).prop_map(|(op, order, mask)| Stage { op, order, mask })
}

fn stages_strategy() -> impl Strategy<Value = Vec<Stage>> {
	prop_oneof![
		5 => stage_strategy(true).prop_map(|s| vec![s]),
		4 => (stage_strategy(true), stage_strategy(false)).prop_map(|(a, b)| vec![a, b]),
		1 => Just(vec![Stage { op: Op::Plain, order: Order::Identity, mask: Mask::All }]),
	]
}

fn consumer_strategy(n: u32) -> impl Strategy<Value = Consumer> {
	prop_oneof![
		3 => Just(Consumer::Collect),
		// buffer sizes 0..=n+2, small ones a bit more often
		2 => (0usize..=n as usize + 2).prop_map(Consumer::Buffered),
		1 => (0usize..=(n as usize + 2).min(4)).prop_map(Consumer::Buffered),
	]
}

fn gated_strategy(n: impl Strategy<Value = u32>) -> impl Strategy<Value = Case> {
	n.prop_flat_map(|n| {
		(
			Just(n),
			0u8..=3,
			any::<u32>(),
			any::<u32>(),
			stages_strategy(),
			consumer_strategy(n),
			prop_oneof![4 => Just(1u8), 1 => 2u8..=5],
			prop_oneof![Just(Bias::Mixed), Just(Bias::FirstStage), Just(Bias::SecondStage)],
		)
	})
	.prop_map(|(n, zextra, start, step, stages, consumer, batch, bias)| {
		// a plain stream has nothing to reorder: always give it the buffered consumer
		let consumer = match (&stages[0].op, consumer) {
			(Op::Plain, Consumer::Collect) => Consumer::Buffered((start as usize) % (n as usize + 3)),
			(_, c) => c,
		};
		// items over 1..4 consecutive zoom levels (derived from the generated numbers)
		let zspread = ((start >> 7) % 4) as u8;
		Case { n, zextra, zspread, start, step, stages, consumer, sched: Schedule::Gate { batch, bias }, repeat: if (step >> 9) % 4 == 0 { 1 + ((step >> 11) % 5) as u8 } else { 0 }, empties: if (step >> 14) % 4 == 0 { 1 + ((step >> 16) % 4) as u8 } else { 0 } }
	})
}

fn delayed_strategy(n: impl Strategy<Value = u32>) -> impl Strategy<Value = Case> {
	n.prop_flat_map(|n| {
		(
			Just(n),
			0u8..=2,
			any::<u32>(),
			any::<u32>(),
			prop_oneof![
				2 => stage_strategy(true).prop_map(|s| vec![s]),
				1 => (stage_strategy(true), stage_strategy(false)).prop_map(|(a, b)| vec![a, b]),
			],
			prop_oneof![
				2 => Just(Consumer::Collect),
				1 => (1usize..=64).prop_map(Consumer::Buffered),
				1 => (0usize..=n as usize + 2).prop_map(Consumer::Buffered),
			],
			any::<u64>(),
			prop_oneof![Just(2u8), Just(16u8), Just(64u8), 1u8..=255],
			prop_oneof![Just(50u32), Just(300u32), 20u32..2000],
		)
	})
	.prop_map(|(n, zextra, start, step, stages, consumer, seed, density, max_us)| Case {
		n,
		zextra,
		zspread: ((start >> 7) % 4) as u8,
		start,
		step,
		stages,
		consumer,
		sched: Schedule::Delay { seed, density, max_us },
		repeat: if seed % 4 == 0 { 1 + ((seed >> 3) % 5) as u8 } else { 0 },
		empties: if (seed >> 7) % 4 == 0 { 1 + ((seed >> 9) % 4) as u8 } else { 0 },
	})
}

fn one_cpu_oracle(case: &Case, obs: &mut Obs) -> Result<(), Fail> {
	vt::onecpu::run_in_child("C14_ONE_CPU_CHILD", &serde_json::to_vec(case).unwrap(), obs)
}

fn main() {
	vt::onecpu::child_entry("C14_ONE_CPU_CHILD", |bytes, obs| {
		ONE_CPU_CHILD.store(true, Ordering::Relaxed);
		let case: Case = serde_json::from_slice(bytes).map_err(|e| Fail::new("harness:case", format!("{e}")))?;
		oracle(&case, obs)
	});
	let mut check = Check::from_args(
		"C14",
		"exploration",
		"streams of n tiles whose blobs carry their own index and coordinate (in a quarter of the generated cases every 2nd..6th item repeats the coordinate of its predecessor; in another quarter the last stage answers every 2nd..5th retained item with a blob of zero bytes), pushed through map_blob_parallel / filter_map_blob_parallel (generated keep masks) / from_coord_iter_parallel (generated Some/None masks), alone or as chains of two, and consumed by collect or for_each_buffered(0..n+2); the completion order of the per-tile tasks is dictated by the harness (callbacks wait at gates, one release per poll of the consumer; all n! orders for n <= 5 (quick) / 6 (thorough), generated priorities up to n = 10^4) or, for the large-stream phase, perturbed by generated sleeps; phase one-cpu: delay-schedule cases in a child process restricted to one CPU (num_cpus::get() = 1); a case is non-trivial when n >= 2 and the recorded order in which the callbacks finished differs from the order in which the items were submitted to the operator; distinct = distinct serialised cases",
	);
	let cpus = num_cpus::get();
	check.assume("the callbacks are synchronous closures that block a runtime worker while they wait; each case runs on a multi-thread tokio runtime with 2*num_cpus+2 workers so that the in-flight windows of two chained operators can wait at the same time");
	check.assume("the order of the outputs of the parallel operators is not specified (buffer_unordered) and is not asserted; only a sequential stream fed to for_each_buffered must arrive in input order");
	check.assume("for_each_buffered(0): only 'every item once' is asserted (the chunk-size bound is asserted for sizes >= 1)");
	check.assume("callbacks that panic (JoinError paths) are outside the statement and not generated");
	check.assume("trusted base of the schedule control: tokio removes a task from the runtime's alive count only after its result is stored and its join handle notified; if that were not so the realised orders would differ from the requested ones (detected in the exhaustive phase -> exit 2), the oracle itself does not depend on it");
	check.assume("a tree that changes the number of tasks in flight can make the exhaustive phase unrealisable (window < n) or exhaust the runtime's workers (window > 2*num_cpus+2); both end as exit 2, not as a violation");
	check.extra.insert("num_cpus".into(), serde_json::json!(cpus));
	check.extra.insert("runtime_workers".into(), serde_json::json!(runtime_workers()));
	vt::engine::watchdog(check.cases(900, 5400) as u64);

	let reg: Vec<Case> = check.regression_cases("random-priority");
	check.enumerate("regressions", reg, false, oracle);

	// all completion orders of small streams (the window must hold all n tasks)
	let max_n = (check.cases(5, 6) as usize).min(cpus);
	check.enumerate("exhaustive-orders", exhaustive_cases(max_n), true, oracle);
	check.enumerate("chains-small", chain_cases(check.cases(3, 4) as usize), false, oracle);

	// generated priorities
	let top = check.cases(300, 300);
	let cases = check.cases(24_000, 400_000);
	check.phase(
		"random-priority",
		cases,
		move || gated_strategy(prop_oneof![2 => 0u32..8, 3 => 8u32..48, 3 => 48u32..top]),
		oracle,
	);
	let cases = check.cases(0, 640);
	check.phase("random-priority-large", cases, || gated_strategy(prop_oneof![3 => 300u32..3000, 1 => 3000u32..=10_000]), oracle);

	// large streams, a generated subset of the tasks is slow
	let cases = check.cases(24, 400);
	let big = check.cases(2000, 10_000);
	check.phase("delayed-large", cases, move || delayed_strategy(prop_oneof![1 => 200u32..big, 2 => Just(big)]), oracle);

	// the operators size their windows with num_cpus::get(): the same oracle (delay schedules
	// only) in a child process that sees one CPU; a stream that can never finish is recognised by
	// quiescence (pending, never woken, no live task), not by a time limit
	let cases = check.cases(120, 2500);
	check.phase("one-cpu", cases, || delayed_strategy(prop_oneof![3 => 0u32..40, 2 => 40u32..400]), one_cpu_oracle);

	check.finish();
}

//! C13 — concurrent reads from one opened container return what sequential reads return.
//! Stress exploration: T callers behind a barrier hammer one reader instance; every result
//! is compared with the value computed sequentially from the in-memory copy.

use proptest::prelude::*;
use serde::{Deserialize, Serialize};
use std::sync::Arc;
use versatiles_core::io::{DataReaderFile, DataReaderTrait};
use versatiles_core::types::{ByteRange, TileBBox, TilesReaderTrait};
use vt::containers::Target;
use vt::engine::{Check, Fail, Obs};
use vt::model::{Coord, Mix, TileSet};
use vt::sources::{leaf_any_pair, Leaf, LeafKind};
use vt::util::{self, TmpGuard};

#[derive(Clone, Copy, Debug, Serialize, Deserialize, PartialEq, Eq)]
enum Mode {
	/// OS threads, each with its own current-thread runtime
	Threads,
	/// tasks on one multi-threaded runtime
	Tasks,
}

#[derive(Clone, Debug, Serialize, Deserialize)]
enum Subject {
	/// raw file of `len` pseudo-random bytes, read through DataReaderFile::read_range
	Raw { len: u32, seed: u32 },
	/// raw file of `mib` MiB read in ranges of up to 16 MiB (results compared by length and hash)
	RawBig { mib: u8, seed: u32 },
	/// container fixture (versatiles, pmtiles or tar), read through get_tile_data (+ streams)
	Container(Leaf),
}

#[derive(Clone, Debug, Serialize, Deserialize)]
struct Case {
	subject: Subject,
	mode: Mode,
	callers: u8,
	calls: u16,
	seed: u32,
}

fn strategy(max_calls: u16) -> impl Strategy<Value = Case> {
	let subject = prop_oneof![
		40 => (1024u32..4_000_000, any::<u32>()).prop_map(|(len, seed)| Subject::Raw { len, seed }),
		1 => (9u8..=40, any::<u32>()).prop_map(|(mib, seed)| Subject::RawBig { mib, seed }),
		60 => (leaf_any_pair(14, 16), 0usize..3, any::<bool>(), any::<u32>()).prop_map(|(mut leaf, t, enc, seed)| {
			let target = [Target::Versatiles, Target::Pmtiles, Target::Tar][t];
			if !target.accepts(leaf.spec.format, leaf.spec.comp) {
				leaf.spec.format = vt::model::Fmt::Png;
			}
			leaf.kind = if enc { LeafKind::Enc(target, seed) } else { LeafKind::Repo(target) };
			Subject::Container(leaf)
		}),
	];
	(subject, prop_oneof![Just(Mode::Threads), Just(Mode::Tasks)], 2u8..=16, (max_calls / 4)..=max_calls, any::<u32>()).prop_map(|(subject, mode, callers, calls, seed)| Case { subject, mode, callers, calls, seed })
}

#[derive(Clone, Debug)]
enum Op {
	Range(u64, u64),
	/// like `Range`, the result is reduced to (length, hash)
	RangeDigest(u64, u64),
	Lookup(Coord),
	Stream(u8, (u32, u32, u32, u32)),
	/// a caller that opens the stream, takes that many tiles and drops it (no result to compare:
	/// it is there for what it does to the other callers and to the calls after it)
	StreamAbandon(u8, (u32, u32, u32, u32), u8),
}

/// result summary that can be compared
#[derive(Clone, Debug, PartialEq)]
enum Res {
	Bytes(Vec<u8>),
	None,
	Err,
	Tiles(Vec<(Coord, Vec<u8>)>),
	Digest(u64, u64),
}

fn digest(b: &[u8]) -> Res {
	// 8 bytes at a time: fast enough for hundreds of MiB per case
	let mut h = 0x9E3779B97F4A7C15u64;
	let mut it = b.chunks_exact(8);
	for c in &mut it {
		h = (h ^ u64::from_le_bytes(c.try_into().unwrap())).wrapping_mul(0x100000001b3).rotate_left(23);
	}
	for x in it.remainder() {
		h = (h ^ *x as u64).wrapping_mul(0x100000001b3);
	}
	Res::Digest(b.len() as u64, h)
}

fn expected_raw(data: &[u8], off: u64, len: u64) -> Res {
	if off + len <= data.len() as u64 {
		Res::Bytes(data[off as usize..(off + len) as usize].to_vec())
	} else {
		Res::Err
	}
}

enum Handle {
	Raw(Arc<Box<DataReaderFile>>),
	Tiles(Arc<Box<dyn TilesReaderTrait>>),
}

async fn run_op(h: &Handle, op: &Op) -> Res {
	match (h, op) {
		(Handle::Raw(r), Op::Range(off, len)) => match r.read_range(&ByteRange::new(*off, *len)).await {
			Ok(b) => Res::Bytes(b.into_vec()),
			Err(_) => Res::Err,
		},
		(Handle::Raw(r), Op::RangeDigest(off, len)) => match r.read_range(&ByteRange::new(*off, *len)).await {
			Ok(b) => digest(b.as_slice()),
			Err(_) => Res::Err,
		},
		(Handle::Tiles(r), Op::Lookup(c)) => match r.get_tile_data(&c.vt()).await {
			Ok(Some(b)) => Res::Bytes(b.into_vec()),
			Ok(None) => Res::None,
			Err(_) => Res::Err,
		},
		(Handle::Tiles(r), Op::Stream(z, b)) => {
			let bbox = TileBBox::new(*z, b.0, b.1, b.2, b.3).unwrap();
			let mut v: Vec<(Coord, Vec<u8>)> = r.get_bbox_tile_stream(bbox).await.collect().await.into_iter().map(|(c, b)| (Coord::from_vt(&c), b.into_vec())).collect();
			v.sort();
			Res::Tiles(v)
		}
		(Handle::Tiles(r), Op::StreamAbandon(z, b, take)) => {
			let bbox = TileBBox::new(*z, b.0, b.1, b.2, b.3).unwrap();
			let mut s = r.get_bbox_tile_stream(bbox).await;
			for _ in 0..*take {
				if s.next().await.is_none() {
					break;
				}
			}
			drop(s);
			Res::None
		}
		_ => unreachable!(),
	}
}

fn oracle(case: &Case, obs: &mut Obs) -> Result<(), Fail> {
	let callers = case.callers as usize;
	let calls = case.calls as usize;
	let mut guards: Vec<TmpGuard> = vec![];
	// subject, per-caller operations and their sequentially computed expectations
	let mut plans: Vec<Vec<(Op, Res)>> = vec![];
	let handle: Handle;
	match &case.subject {
		Subject::Raw { len, seed } => {
			let data = Mix::new(*seed as u64).bytes(*len as usize);
			let path = util::tmp_path(".bin");
			guards.push(TmpGuard(path.clone()));
			std::fs::write(&path, &data).map_err(|e| Fail::new("harness:io", e.to_string()))?;
			let r = DataReaderFile::open(&path).map_err(|e| Fail::new("concurrent:open", format!("{e:#}")))?;
			handle = Handle::Raw(Arc::new(r));
			for t in 0..callers {
				let mut m = Mix::new(case.seed as u64 ^ ((t as u64) << 32));
				let mut plan = vec![];
				for _ in 0..calls {
					let l = match m.below(10) {
						0 => 0,
						1..=5 => 1 + m.below(64),
						6..=8 => 1 + m.below(4096),
						_ => 1 + m.below(200_000),
					};
					let off = match m.below(20) {
						0 => (*len as u64).saturating_sub(l),
						1 => (*len as u64).saturating_sub(l / 2), // reaches beyond the end
						_ => m.below(*len as u64),
					};
					let l = if m.below(15) == 0 { l } else { l.min(*len as u64 - off.min(*len as u64)) };
					plan.push((Op::Range(off, l), expected_raw(&data, off, l)));
				}
				plans.push(plan);
			}
			obs.label("subject:raw-file");
		}
		Subject::RawBig { mib, seed } => {
			let len = (*mib as usize) << 20;
			// a short random block repeated with its block number mixed in: cheap to produce, and a
			// read from a wrong position gives another hash
			let block = Mix::new(*seed as u64).bytes(4096);
			let mut data = Vec::with_capacity(len);
			let mut k = 0u64;
			while data.len() < len {
				data.extend_from_slice(&k.to_le_bytes());
				data.extend_from_slice(&block[8..]);
				k += 1;
			}
			let path = util::tmp_path(".bin");
			guards.push(TmpGuard(path.clone()));
			std::fs::write(&path, &data).map_err(|e| Fail::new("harness:io", e.to_string()))?;
			let r = DataReaderFile::open(&path).map_err(|e| Fail::new("concurrent:open", format!("{e:#}")))?;
			handle = Handle::Raw(Arc::new(r));
			for t in 0..callers {
				let mut m = Mix::new(case.seed as u64 ^ ((t as u64) << 32) ^ 0xB16);
				let mut plan = vec![];
				for _ in 0..calls.min(8) {
					let l = match m.below(8) {
						0 => 1 + m.below(100_000),
						1 => (4 << 20) - 1 + m.below(3), // around 4 MiB
						2..=5 => (4 << 20) + 1 + m.below(4 << 20),
						_ => (8 << 20) + m.below(8 << 20),
					}
					.min(len as u64);
					let off = m.below(len as u64 - l + 1);
					plan.push((Op::RangeDigest(off, l), digest(&data[off as usize..(off + l) as usize])));
				}
				plans.push(plan);
			}
			obs.label("subject:raw-file-9-40MiB-ranges-to-16MiB");
		}
		Subject::Container(leaf) => {
			let set: TileSet = leaf.spec.materialise();
			let reader = leaf.open(&set, &mut guards)?;
			obs.label(format!("subject:{}", leaf.label()));
			let coords: Vec<Coord> = set.tiles.keys().copied().collect();
			let boxes = set.tight_boxes();
			let is_versatiles = matches!(leaf.kind, LeafKind::Repo(Target::Versatiles) | LeafKind::Enc(Target::Versatiles, _));
			let mut abandoned = 0u64;
			for t in 0..callers {
				let mut m = Mix::new(case.seed as u64 ^ ((t as u64) << 32) ^ 0xABCDEF);
				let mut plan = vec![];
				for _ in 0..calls {
					let k = m.below(20);
					if k == 0 && is_versatiles && !boxes.is_empty() {
						let (z, b) = boxes.iter().nth(m.below(boxes.len() as u64) as usize).unwrap();
						let mut want: Vec<(Coord, Vec<u8>)> = set.nonempty().filter(|(c, _)| c.z == *z).map(|(c, b)| (*c, b.clone())).collect();
						want.sort();
						plan.push((Op::Stream(*z, *b), Res::Tiles(want)));
					} else if k == 1 && is_versatiles && !boxes.is_empty() && m.below(2) == 0 {
						let (z, b) = boxes.iter().nth(m.below(boxes.len() as u64) as usize).unwrap();
						plan.push((Op::StreamAbandon(*z, *b, m.below(4) as u8), Res::None));
						abandoned += 1;
					} else if k < 4 {
						// a coordinate next to a stored tile, usually missing
						let c = coords[m.below(coords.len() as u64) as usize];
						let c2 = Coord::new(c.z, c.x ^ 1, c.y);
						let want = match set.tiles.get(&c2) {
							Some(b) if !b.is_empty() => Res::Bytes(b.clone()),
							Some(_) => continue,
							None => Res::None,
						};
						if c2.in_range() {
							plan.push((Op::Lookup(c2), want));
						}
					} else {
						let c = coords[m.below(coords.len() as u64) as usize];
						let b = &set.tiles[&c];
						if b.is_empty() {
							continue;
						}
						plan.push((Op::Lookup(c), Res::Bytes(b.clone())));
					}
				}
				plans.push(plan);
			}
			if abandoned > 0 {
				obs.label("with-abandoned-streams".to_string());
				obs.count("abandoned-streams", abandoned);
			}
			handle = Handle::Tiles(Arc::new(reader));
		}
	}
	let handle = Arc::new(handle);
	let plans = Arc::new(plans);
	let first_bad: Arc<std::sync::Mutex<Option<Bad>>> = Arc::new(std::sync::Mutex::new(None));
	let wrong = Arc::new(std::sync::atomic::AtomicU64::new(0));
	let done = Arc::new(std::sync::atomic::AtomicU64::new(0));

	// A reader that blocks all its callers for good (a lock cycle) cannot be told from a slow one
	// by this check; it is not waited for an hour either: no completed call for 180 s ends the run
	// as a machinery problem (exit 2) that names the suspicion.
	let finished = Arc::new(std::sync::atomic::AtomicBool::new(false));
	let blocked: Arc<std::sync::Mutex<Option<String>>> = Arc::new(std::sync::Mutex::new(None));
	// kernel thread ids of the threads that execute the callers of THIS case (other cases run in
	// the same process at the same time)
	let tids: Arc<std::sync::Mutex<Vec<i32>>> = Arc::new(std::sync::Mutex::new(vec![]));
	let blocked_cv = Arc::new(std::sync::Condvar::new());
	{
		let blocked_cv = blocked_cv.clone();
		let (done, finished, total_planned) = (done.clone(), finished.clone(), plans.iter().map(|p| p.len() as u64).sum::<u64>());
		let what = format!("{:?} callers={} mode={:?}", match &case.subject { Subject::Raw { .. } => "raw file".to_string(), Subject::RawBig { .. } => "large raw file".to_string(), Subject::Container(l) => l.label() }, callers, case.mode);
		let blocked = blocked.clone();
		let tids = tids.clone();
		std::thread::spawn(move || {
			// CPU time of the callers' threads in clock ticks (utime + stime of /proc/self/task/<tid>/stat)
			let cpu_ticks = || -> u64 {
				let list = tids.lock().unwrap().clone();
				list.iter()
					.map(|tid| {
						std::fs::read_to_string(format!("/proc/self/task/{tid}/stat"))
							.ok()
							.and_then(|s| s.rsplit_once(')').map(|(_, r)| r.to_string()))
							.map(|r| {
								let f: Vec<&str> = r.split_whitespace().collect();
								f.get(11).and_then(|v| v.parse::<u64>().ok()).unwrap_or(0) + f.get(12).and_then(|v| v.parse::<u64>().ok()).unwrap_or(0)
							})
							.unwrap_or(0)
					})
					.sum()
			};
			let mut last = (0u64, std::time::Instant::now(), cpu_ticks());
			while !finished.load(std::sync::atomic::Ordering::Relaxed) {
				std::thread::sleep(std::time::Duration::from_millis(500));
				let d = done.load(std::sync::atomic::Ordering::Relaxed);
				if d != last.0 {
					last = (d, std::time::Instant::now(), cpu_ticks());
				} else if d < total_planned && last.1.elapsed() > std::time::Duration::from_secs(90) && cpu_ticks().saturating_sub(last.2) < 50 {
					// 90 s without a completed call AND the threads that execute the callers used less than half a
					// second of CPU in that time: no caller is running or runnable, the files lie in memory
					// (/dev/shm), the library uses neither timers nor the network: the callers wait for
					// each other and nothing can wake them. Reported as a violation (a call that never
					// returns does not return what it returns alone); the process is left at once.
					*blocked.lock().unwrap() = Some(format!("{d} of {total_planned} calls completed, then none for 90 s while the callers' threads used {} ms of CPU ({what})", cpu_ticks().saturating_sub(last.2) * 10));
					finished.store(true, std::sync::atomic::Ordering::Relaxed);
					blocked_cv.notify_all();
					return;
				} else if d < total_planned && last.1.elapsed() > std::time::Duration::from_secs(180) {
					vt::engine::die(&format!("C13: no call completed for 180 s ({d} of {total_planned} done; {what}): the callers block each other for good or the machine is stalled; not a verdict"));
				}
			}
		});
	}
	// the callers run on a thread of their own: if they block each other for good, the oracle
	// still returns (the blocked threads are abandoned; the check process ends after the verdict)
	let (tx, rx) = std::sync::mpsc::channel();
	let case2 = case.clone();
	let (handle2, plans2, first_bad2, wrong2, done2, tids2) = (handle.clone(), plans.clone(), first_bad.clone(), wrong.clone(), done.clone(), tids.clone());
	std::thread::spawn(move || {
		let (case, handle, plans, first_bad, wrong, done) = (&case2, handle2, plans2, first_bad2, wrong2, done2);
		let callers = case.callers as usize;
		let r = run_callers(case, callers, handle, plans, first_bad, wrong, done, tids2);
		let _ = tx.send(r);
	});
	let result = loop {
		match rx.recv_timeout(std::time::Duration::from_millis(200)) {
			Ok(r) => break r,
			Err(_) => {
				if let Some(why) = blocked.lock().unwrap().take() {
					return Err(Fail::new("concurrent:callers-block-each-other", format!("concurrent calls on one reader never return: {why}")));
				}
			}
		}
	};
	let _ = &blocked_cv;
	finished.store(true, std::sync::atomic::Ordering::Relaxed);
	match result {
		Ok(Ok(())) => {}
		Ok(Err(())) => return Err(Fail::new("concurrent:caller-panicked", "a caller panicked during concurrent reads")),
		Err(p) => return Err(Fail::from_panic("concurrent reads", &p)),
	}
	let total = done.load(std::sync::atomic::Ordering::Relaxed);
	let bad = wrong.load(std::sync::atomic::Ordering::Relaxed);
	obs.count("calls", total);
	obs.label(format!("mode:{:?}", case.mode));
	obs.label(match callers { 2..=3 => "callers=2..3", 4..=8 => "callers=4..8", _ => "callers=9..16" });
	obs.nontrivial(callers >= 2 && plans.iter().filter(|p| p.len() >= 50 || matches!(case.subject, Subject::RawBig { .. })).count() >= 2);
	if let Some((t, i, op, got, want)) = first_bad.lock().unwrap().take() {
		let show = |r: &Res| match r {
			Res::Bytes(b) => format!("{} bytes ({})", b.len(), util::hex_short(b)),
			Res::Tiles(v) => format!("{} tiles", v.len()),
			other => format!("{other:?}"),
		};
		return Err(Fail::new(
			"concurrent:result-differs-from-sequential",
			format!("{bad} of {total} concurrent calls returned something else than the sequential result; first: caller {t} call {i} {op:?}: got {}, expected {}", show(&got), show(&want)),
		));
	}
	Ok(())
}

type Bad = (usize, usize, Op, Res, Res);

#[allow(clippy::too_many_arguments)]
fn run_callers(
	case: &Case,
	callers: usize,
	handle: Arc<Handle>,
	plans: Arc<Vec<Vec<(Op, Res)>>>,
	first_bad: Arc<std::sync::Mutex<Option<Bad>>>,
	wrong: Arc<std::sync::atomic::AtomicU64>,
	done: Arc<std::sync::atomic::AtomicU64>,
	tids: Arc<std::sync::Mutex<Vec<i32>>>,
) -> Result<Result<(), ()>, vt::engine::PanicInfo> {
	let note_tid = move || tids.lock().unwrap().push(unsafe { libc::gettid() });
	vt::guard(|| match case.mode {
		Mode::Threads => {
			let barrier = Arc::new(std::sync::Barrier::new(callers));
			let mut hs = vec![];
			for t in 0..callers {
				let (handle, plans, barrier, first_bad, wrong, done) = (handle.clone(), plans.clone(), barrier.clone(), first_bad.clone(), wrong.clone(), done.clone());
				let note_tid = note_tid.clone();
				hs.push(std::thread::spawn(move || {
					note_tid();
					let rt = tokio::runtime::Builder::new_current_thread().build().unwrap();
					barrier.wait();
					rt.block_on(async {
						for (i, (op, want)) in plans[t].iter().enumerate() {
							let got = run_op(&handle, op).await;
							done.fetch_add(1, std::sync::atomic::Ordering::Relaxed);
							if &got != want {
								wrong.fetch_add(1, std::sync::atomic::Ordering::Relaxed);
								let mut g = first_bad.lock().unwrap();
								if g.is_none() {
									*g = Some((t, i, op.clone(), got, want.clone()));
								}
							}
						}
					});
				}));
			}
			for h in hs {
				h.join().map_err(|_| ())?;
			}
			Ok::<(), ()>(())
		}
		Mode::Tasks => {
			let note = note_tid.clone();
			let rt = tokio::runtime::Builder::new_multi_thread().worker_threads(callers.min(16)).on_thread_start(move || note()).build().unwrap();
			rt.block_on(async {
				let barrier = Arc::new(tokio::sync::Barrier::new(callers));
				let mut hs = vec![];
				for t in 0..callers {
					let (handle, plans, barrier, first_bad, wrong, done) = (handle.clone(), plans.clone(), barrier.clone(), first_bad.clone(), wrong.clone(), done.clone());
					hs.push(tokio::spawn(async move {
						barrier.wait().await;
						for (i, (op, want)) in plans[t].iter().enumerate() {
							let got = run_op(&handle, op).await;
							done.fetch_add(1, std::sync::atomic::Ordering::Relaxed);
							if &got != want {
								wrong.fetch_add(1, std::sync::atomic::Ordering::Relaxed);
								let mut g = first_bad.lock().unwrap();
								if g.is_none() {
									*g = Some((t, i, op.clone(), got, want.clone()));
								}
							}
							if i % 16 == 0 {
								tokio::task::yield_now().await;
							}
						}
					}));
				}
				for h in hs {
					h.await.map_err(|_| ())?;
				}
				Ok::<(), ()>(())
			})
		}
	})
}

fn main() {
	let mut check = Check::from_args(
		"C13",
		"exploration",
		"subjects: raw files of 1 KiB-4 MB read through DataReaderFile::read_range (ranges of 0..200 000 bytes incl. ranges at and beyond the end of the file), raw files of 9-40 MiB read in ranges of up to 16 MiB (compared by length and hash) and container fixtures (versatiles, pmtiles, tar; written by the repository or the harness encoders) read through get_tile_data (stored and missing coordinates) and, for versatiles, level streams (read to the end, or dropped by their caller after 0-3 tiles); 2..16 callers start behind a barrier as OS threads with their own runtimes or as tasks on one multi-threaded runtime and issue generated call lists; oracle: every call's result equals the result computed sequentially from the in-memory copy (bytes, None, or error class); non-trivial = at least two callers with >= 50 calls each (large-range cases: at least two callers)",
	);
	check.assume("the kernel schedule is not controlled: this is stress exploration over real interleavings, not schedule enumeration");
	check.workers = check.workers.min(4);
	vt::engine::watchdog(3600);
	let reg: Vec<Case> = check.regression_cases("stress");
	check.enumerate("regressions", reg, false, oracle);
	let max_calls = check.cases(400, 1500) as u16;
	check.phase("stress", check.cases(6000, 100_000), || strategy(max_calls), oracle);
	check.finish();
}

//! C18 — every well-formed pipeline text parses to the pipeline it describes; text outside the
//! syntax, unknown operation names and missing or mistyped parameters are rejected with an error.
//!
//! Three proptest phases:
//! * `trees`   – generated syntax trees rendered with generated quoting / whitespace choices;
//!               `parse_vpl(text)` must equal the tree (model: `vt::vpltree::Tree::norm`).
//! * `broken`  – rendered valid texts broken in one way for which no reading as VPL exists
//!               (lexical certificate or construction); `parse_vpl` must return `Err`, never panic.
//! * `factory` – pipelines over the real operations built through `PipelineFactory::new_dummy()`:
//!               valid ones must build, ones with an unknown operation name, a missing required
//!               parameter or a mistyped parameter must be `Err`, never panic.

use proptest::collection::vec as pvec;
use proptest::prelude::*;
use proptest::sample::select;
use serde::{Deserialize, Serialize};
use std::collections::BTreeMap;
use std::sync::OnceLock;
use versatiles_pipeline::{parse_vpl, PipelineFactory, VPLPipeline};
use vt::engine::{guard, Check, Fail, Obs, Tier};
use vt::util::pick;
use vt::vpltree::{
	gap_text, is_bare, join, lex_certificate, quoted_unit_boundaries, render_tokens, Kind, Node, Norm, NormNode, Tok, Tree, Val, ILLEGAL_OUTSIDE,
	NOT_AN_ESCAPE, STRUCTURAL,
};
use vt::{ensure_prop, fail};

// =======================================================================================
// generators for syntax trees
// =======================================================================================

fn chars(s: &str) -> Vec<char> {
	s.chars().collect()
}

const LETTERS: &str = "abcdefghijklmnopqrstuvwxyzABCDEFGHIJKLMNOPQRSTUVWXYZ";
const IDENT_REST: &str = "abcdefghijklmnopqrstuvwxyzABCDEFGHIJKLMNOPQRSTUVWXYZ0123456789_-";
const BARE: &str = "abcxyzABCXYZ0123456789._-";

fn ident() -> impl Strategy<Value = String> {
	(select(chars(LETTERS)), pvec(select(chars(IDENT_REST)), 0..7)).prop_map(|(a, r)| std::iter::once(a).chain(r).collect())
}

/// keys come from a small pool most of the time so that repeated keys are frequent
fn key() -> impl Strategy<Value = String> {
	prop_oneof![
		3 => select(vec!["k", "key", "a", "min", "B-2", "x_y"]).prop_map(String::from),
		2 => ident(),
	]
}

fn bare_string() -> impl Strategy<Value = String> {
	pvec(select(chars(BARE)), 1..8).prop_map(|v| v.into_iter().collect())
}

fn free_char() -> impl Strategy<Value = char> {
	prop_oneof![
		5 => select(chars("|[],=\"\\")),
		3 => select(chars(" \n\t\r")),
		4 => select(chars("abcnt019._-")),
		2 => select(chars("%{};#'/:+*()<>!?&$@^~`")),
		2 => select(chars("äßé€λЖ中😀\u{a0}\u{2028}\u{feff}\u{0}\u{7f}")),
		1 => any::<char>(),
	]
}

/// arbitrary non-empty string (has to be quoted unless it happens to be bare-able)
fn free_string() -> impl Strategy<Value = String> {
	pvec(free_char(), 1..10).prop_map(|v| v.into_iter().collect())
}

fn scalar() -> impl Strategy<Value = String> {
	prop_oneof![3 => bare_string(), 4 => free_string()]
}

fn val() -> impl Strategy<Value = Val> {
	prop_oneof![
		5 => scalar().prop_map(Val::One),
		2 => pvec(scalar(), 0..=5).prop_map(Val::List),
	]
}

fn tree(depth: u32) -> BoxedStrategy<Tree> {
	let sources: BoxedStrategy<Vec<Tree>> = if depth == 0 {
		Just(vec![]).boxed()
	} else {
		prop_oneof![
			5 => Just(vec![]),
			2 => pvec(tree(depth - 1), 1..=1),
			2 => pvec(tree(depth - 1), 2..=3),
		]
		.boxed()
	};
	let node = (ident(), pvec((key(), val()), 0..=4), sources).prop_map(|(name, props, sources)| Node { name, props, sources });
	pvec(node, 1..=4).prop_map(Tree::new).boxed()
}

fn tree_any_depth(max_depth: u32) -> BoxedStrategy<Tree> {
	let mut alts: Vec<(u32, BoxedStrategy<Tree>)> = vec![];
	for d in 0..=max_depth {
		alts.push((if d == 0 { 2 } else { 3 }, tree(d)));
	}
	proptest::strategy::Union::new_weighted(alts).boxed()
}

fn tape() -> impl Strategy<Value = Vec<u8>> {
	prop_oneof![
		1 => Just(vec![]),
		6 => pvec(any::<u8>(), 1..64),
	]
}

// =======================================================================================
// phase "trees"
// =======================================================================================

#[derive(Clone, Debug, Serialize, Deserialize)]
struct TreeCase {
	tree: Tree,
	tape: Vec<u8>,
}

fn tree_case(max_depth: u32) -> impl Strategy<Value = TreeCase> {
	(tree_any_depth(max_depth), tape()).prop_map(|(tree, tape)| TreeCase { tree, tape })
}

/// the parsed pipeline in the model's normal form (keys with an empty list dropped on both sides)
fn norm_vpl(p: &VPLPipeline) -> Norm {
	p.pipeline
		.iter()
		.map(|n| {
			let props: BTreeMap<String, Vec<String>> = n.properties.iter().filter(|(_, v)| !v.is_empty()).map(|(k, v)| (k.clone(), v.clone())).collect();
			NormNode { name: n.name.clone(), props, sources: n.sources.iter().map(norm_vpl).collect() }
		})
		.collect()
}

fn has_structural(s: &str) -> bool {
	s.chars().any(|c| STRUCTURAL.contains(&c))
}

fn trees_oracle(case: &TreeCase, obs: &mut Obs) -> Result<(), Fail> {
	let tokens = render_tokens(&case.tree, &case.tape);
	let text = join(&tokens);
	let expected = case.tree.norm();
	match guard(|| parse_vpl(&text)) {
		Err(p) => return Err(Fail::from_panic(&format!("parse_vpl({text:?})"), &p)),
		Ok(Err(e)) => {
			let msg: String = e.to_string().chars().take(400).collect();
			fail!("vpl:valid-text-rejected", "well-formed text rejected: text {text:?}\nexpected tree {expected:?}\nerror: {msg}")
		}
		Ok(Ok(p)) => {
			let got = norm_vpl(&p);
			ensure_prop!(got == expected, "vpl:parsed-tree-differs", "text {text:?}\nexpected tree {expected:?}\nparsed tree   {got:?}");
		}
	}

	// classification
	let depth = case.tree.depth();
	obs.label(format!("depth={depth}"));
	let mut quoted_structural = false;
	let mut forced = false;
	let mut unicode = false;
	let mut esc_chars = false;
	case.tree.for_each_value(&mut |s| {
		quoted_structural |= has_structural(s);
		forced |= !is_bare(s);
		unicode |= !s.is_ascii();
		esc_chars |= s.contains(['\n', '\t', '\\', '"']);
	});
	let mut repeated = false;
	let mut empty_list = false;
	let mut list_then_sources = false;
	case.tree.for_each_node(&mut |n| {
		let mut seen = std::collections::BTreeSet::new();
		for (k, v) in &n.props {
			repeated |= !seen.insert(k.clone());
			empty_list |= matches!(v, Val::List(l) if l.is_empty());
		}
		list_then_sources |= !n.sources.is_empty() && matches!(n.props.last(), Some((_, Val::List(_))));
	});
	obs.label_if(quoted_structural, "quoted-with-structural-char");
	obs.label_if(forced, "forced-quote");
	obs.label_if(unicode, "unicode-value");
	obs.label_if(esc_chars, "value-needs-escape");
	obs.label_if(repeated, "repeated-key");
	obs.label_if(empty_list, "empty-list-value");
	obs.label_if(list_then_sources, "list-value-then-sources");
	let optional_quote = tokens.iter().any(|t| t.kind == Kind::Quoted && is_bare(&t.text[1..t.text.len() - 1]));
	obs.label_if(optional_quote, "optional-quote");
	obs.label_if(tokens.iter().any(|t| t.kind == Kind::Quoted && t.text.contains('\n')), "raw-newline-in-string");
	obs.label_if(tokens.iter().any(|t| t.kind == Kind::Quoted && (t.text.contains("\\n") || t.text.contains("\\t"))), "escape-n-or-t");
	let gaps: Vec<&Tok> = tokens.iter().filter(|t| matches!(t.kind, Kind::Gap | Kind::Gap1)).collect();
	obs.label_if(gaps.iter().any(|t| t.text.contains('\n')), "multiline");
	obs.label_if(gaps.iter().any(|t| t.text.contains("\r\n")), "crlf");
	obs.label_if(gaps.iter().all(|t| t.kind == Kind::Gap1 || t.text.is_empty()), "no-optional-whitespace");
	let empty_brackets = tokens.windows(3).any(|w| w[0].kind == Kind::SrcOpen && w[1].kind == Kind::Gap && w[2].kind == Kind::Gap);
	obs.label_if(empty_brackets, "empty-source-brackets");
	obs.label_if(tokens.windows(2).any(|w| matches!(w[0].kind, Kind::Bare | Kind::Quoted | Kind::ListClose | Kind::Name) && w[1].kind == Kind::Gap && w[1].text.is_empty()), "tight-after-value");
	obs.nontrivial(depth >= 1 && quoted_structural);
	obs.count("nodes", case.tree.count_nodes() as u64);
	obs.count("text_bytes", text.len() as u64);
	Ok(())
}

// =======================================================================================
// phase "broken"
// =======================================================================================

#[derive(Clone, Copy, Debug, PartialEq, Eq, Serialize, Deserialize)]
enum Class {
	ExtraOpen,
	ExtraClose,
	DropOpen,
	DropClose,
	DropQuote,
	ExtraQuote,
	BadEscape,
	IllegalChar,
	DoublePipe,
	LeadingPipe,
	TrailingPipe,
	MissingEq,
	Empty,
}

#[derive(Clone, Debug, Serialize, Deserialize)]
struct BrokenCase {
	tree: Tree,
	tape: Vec<u8>,
	class: Class,
	sel: u16,
	aux: u16,
}

fn broken_case() -> impl Strategy<Value = BrokenCase> {
	let class = prop_oneof![
		2 => Just(Class::ExtraOpen),
		2 => Just(Class::ExtraClose),
		2 => Just(Class::DropOpen),
		2 => Just(Class::DropClose),
		3 => Just(Class::DropQuote),
		2 => Just(Class::ExtraQuote),
		3 => Just(Class::BadEscape),
		3 => Just(Class::IllegalChar),
		2 => Just(Class::DoublePipe),
		2 => Just(Class::LeadingPipe),
		2 => Just(Class::TrailingPipe),
		3 => Just(Class::MissingEq),
		1 => Just(Class::Empty),
	];
	(tree_any_depth(2), tape(), class, any::<u16>(), any::<u16>()).prop_map(|(tree, tape, class, sel, aux)| BrokenCase { tree, tape, class, sel, aux })
}

/// why the mutated text cannot be valid
#[derive(Clone, Copy, PartialEq, Eq, Debug)]
enum Basis {
	/// the lexical certificate must hold by construction (harness bug otherwise)
	LexicalSure,
	/// asserted only if the lexical certificate holds for the mutated text
	LexicalIf,
	/// no valid reading by construction of the mutation (argued at each class)
	Construction,
}

fn positions(tokens: &[Tok], kinds: &[Kind]) -> Vec<usize> {
	tokens.iter().enumerate().filter(|(_, t)| kinds.contains(&t.kind)).map(|(i, _)| i).collect()
}

/// Apply one breakage; classes that need a token the text does not have fall back to a class
/// that is always applicable. Returns (text, effective class label, basis).
fn mutate(mut tokens: Vec<Tok>, class: Class, sel: u16, aux: u16) -> (String, &'static str, Basis) {
	let sel32 = sel as u32;
	let mut class = class;
	loop {
		match class {
			// brackets outside strings only ever occur as balanced list / source-list delimiters
			Class::ExtraOpen | Class::ExtraClose => {
				let i = pick(sel32, tokens.len() + 1);
				let (k, t, l) = if class == Class::ExtraOpen { (Kind::ListOpen, "[", "extra-open-bracket") } else { (Kind::ListClose, "]", "extra-close-bracket") };
				tokens.insert(i, Tok::new(k, t));
				return (join(&tokens), l, Basis::LexicalSure);
			}
			Class::DropOpen => {
				let p = positions(&tokens, &[Kind::ListOpen, Kind::SrcOpen]);
				if p.is_empty() {
					class = Class::ExtraClose;
					continue;
				}
				tokens.remove(p[pick(sel32, p.len())]);
				return (join(&tokens), "dropped-open-bracket", Basis::LexicalSure);
			}
			Class::DropClose => {
				let p = positions(&tokens, &[Kind::ListClose, Kind::SrcClose]);
				if p.is_empty() {
					class = Class::ExtraOpen;
					continue;
				}
				tokens.remove(p[pick(sel32, p.len())]);
				return (join(&tokens), "dropped-close-bracket", Basis::LexicalSure);
			}
			// quotes: the rest of the text is re-read with strings and non-strings swapped; asserted
			// only when the independent scan proves that no reading exists
			Class::DropQuote => {
				let p = positions(&tokens, &[Kind::Quoted]);
				if p.is_empty() {
					class = Class::ExtraQuote;
					continue;
				}
				let t = &mut tokens[p[pick(sel32, p.len())]];
				if aux & 1 == 0 {
					t.text.remove(0);
					return (join(&tokens), "dropped-opening-quote", Basis::LexicalIf);
				} else {
					t.text.pop();
					return (join(&tokens), "dropped-closing-quote", Basis::LexicalIf);
				}
			}
			Class::ExtraQuote => {
				let i = pick(sel32, tokens.len() + 1);
				tokens.insert(i, Tok::new(Kind::Quoted, "\""));
				return (join(&tokens), "extra-quote", Basis::LexicalIf);
			}
			Class::BadEscape => {
				let p = positions(&tokens, &[Kind::Quoted]);
				if p.is_empty() {
					class = Class::IllegalChar;
					continue;
				}
				let t = &mut tokens[p[pick(sel32, p.len())]];
				let b = quoted_unit_boundaries(&t.text);
				let at = b[(aux as usize >> 4) % b.len()];
				let e = NOT_AN_ESCAPE[(aux as usize & 15) % NOT_AN_ESCAPE.len()];
				t.text.insert_str(at, &format!("\\{e}"));
				return (join(&tokens), "illegal-escape", Basis::LexicalSure);
			}
			Class::IllegalChar => {
				let c = ILLEGAL_OUTSIDE[(aux as usize & 255) % ILLEGAL_OUTSIDE.len()];
				let i = pick(sel32, tokens.len() + 1);
				let inside = aux & 0x100 != 0 && i < tokens.len() && matches!(tokens[i].kind, Kind::Name | Kind::Key | Kind::Bare) && tokens[i].text.len() >= 2;
				if inside {
					let at = 1 + (aux as usize >> 9) % (tokens[i].text.len() - 1);
					tokens[i].text.insert(at, c);
				} else {
					tokens.insert(i, Tok::new(Kind::Bare, &c.to_string()));
				}
				return (join(&tokens), if inside { "illegal-char-inside-token" } else { "illegal-char-between-tokens" }, Basis::LexicalSure);
			}
			// `|` separates operations and every operation starts with its name: nothing but
			// whitespace between two `|`, before the first or after the last operation of a
			// pipeline (top level or inside a source list) has no reading
			Class::DoublePipe => {
				let p = positions(&tokens, &[Kind::Pipe]);
				if p.is_empty() {
					class = Class::LeadingPipe;
					continue;
				}
				let i = p[pick(sel32, p.len())];
				tokens.insert(i + 1, Tok::new(Kind::Pipe, "|"));
				tokens.insert(i + 1, Tok::new(Kind::Gap, gap_text(aux as u8, false)));
				return (join(&tokens), "double-pipe", Basis::Construction);
			}
			Class::LeadingPipe => {
				let p = positions(&tokens, &[Kind::PipeStart]);
				let i = p[pick(sel32, p.len())];
				let nested = i > 1;
				tokens.insert(i + 1, Tok::new(Kind::Gap, gap_text(aux as u8, false)));
				tokens.insert(i + 1, Tok::new(Kind::Pipe, "|"));
				return (join(&tokens), if nested { "leading-pipe-in-sources" } else { "leading-pipe" }, Basis::Construction);
			}
			Class::TrailingPipe => {
				let p = positions(&tokens, &[Kind::PipeEnd]);
				let i = p[pick(sel32, p.len())];
				let nested = i + 2 < tokens.len();
				tokens.insert(i, Tok::new(Kind::Pipe, "|"));
				tokens.insert(i, Tok::new(Kind::Gap, gap_text(aux as u8, false)));
				return (join(&tokens), if nested { "trailing-pipe-in-sources" } else { "trailing-pipe" }, Basis::Construction);
			}
			// `name … key value`: after the operation name only `key = value` pairs, the source
			// list, `|`, `,`, `]` or the end may follow; a key followed by whitespace and its value
			// without `=` leaves a lone word with no role
			Class::MissingEq => {
				let p = positions(&tokens, &[Kind::Eq]);
				if p.is_empty() {
					class = Class::TrailingPipe;
					continue;
				}
				let i = p[pick(sel32, p.len())];
				assert!(tokens[i - 1].kind == Kind::Gap && tokens[i + 1].kind == Kind::Gap && tokens[i - 2].kind == Kind::Key);
				tokens.splice(i - 1..=i + 1, [Tok::new(Kind::Gap1, gap_text(aux as u8, true))]);
				return (join(&tokens), "missing-equals", Basis::Construction);
			}
			// a pipeline has at least one operation
			Class::Empty => {
				let text = format!("{}{}{}", gap_text(sel as u8, false), gap_text((sel >> 8) as u8, false), gap_text(aux as u8, false));
				return (text, "empty-or-whitespace-only", Basis::Construction);
			}
		}
	}
}

fn broken_oracle(case: &BrokenCase, obs: &mut Obs) -> Result<(), Fail> {
	let tokens = render_tokens(&case.tree, &case.tape);
	let original = join(&tokens);
	let (text, label, basis) = mutate(tokens, case.class, case.sel, case.aux);
	let cert = lex_certificate(&text);
	match basis {
		Basis::LexicalSure => {
			if cert.is_none() {
				panic!("harness: mutation {label} produced a text without lexical certificate: {text:?} (from {original:?})");
			}
		}
		Basis::LexicalIf => {
			if cert.is_none() {
				obs.label(format!("not-asserted:{label}"));
				return Ok(());
			}
		}
		Basis::Construction => {}
	}
	match guard(|| parse_vpl(&text).map(|p| norm_vpl(&p))) {
		Err(p) => return Err(Fail::from_panic(&format!("parse_vpl({text:?})"), &p)),
		Ok(Ok(got)) => {
			fail!(format!("vpl:accepted:{label}"), "text outside the syntax ({label}{}) accepted: text {text:?} (valid original {original:?}) parsed as {got:?}", cert.map(|c| format!(", {c}")).unwrap_or_default())
		}
		Ok(Err(e)) => {
			// the error must be reportable as well
			if let Err(p) = guard(|| e.to_string()) {
				return Err(Fail::from_panic(&format!("formatting the error of parse_vpl({text:?})"), &p));
			}
		}
	}
	obs.label(format!("class={label}"));
	if let Some(c) = cert {
		obs.label(format!("certificate={c}"));
	}
	obs.nontrivial(true);
	Ok(())
}

// =======================================================================================
// phase "factory"
// =======================================================================================

static CSV_PATH: OnceLock<String> = OnceLock::new();
const CSV_COLUMNS: [&str; 3] = ["id", "name", "population"];
const FORMATS: [&str; 4] = ["pbf", "png", "jpg", "webp"];
const READ_OPS: [&str; 4] = ["from_container", "from_debug", "from_overlayed", "from_vectortiles_merged"];
const TRAN_OPS: [&str; 3] = ["filter_bbox", "filter_zoom", "vectortiles_update_properties"];

fn csv_path() -> &'static str {
	CSV_PATH.get_or_init(|| {
		let p = vt::util::tmp_path(".csv");
		std::fs::write(&p, "id,name,population\n1,Berlin,3600000\n2,Hamburg,1800000\n").expect("cannot write csv fixture");
		p.to_string_lossy().to_string()
	})
}

#[derive(Clone, Debug, Serialize, Deserialize)]
enum ReadOp {
	Container { filename: String },
	Debug { format: u8, fast: Option<bool> },
	Overlayed(Vec<OpPipe>),
	Merged(Vec<OpPipe>),
}

#[derive(Clone, Debug, Serialize, Deserialize)]
enum TranOp {
	Zoom { min: Option<u8>, max: Option<u8> },
	/// tenths of degrees [west, south, east, north]
	Bbox { tenths: [i16; 4] },
	Update { layer: String, id_tiles: String, id_data: u8, flags: [Option<bool>; 3] },
}

#[derive(Clone, Debug, Serialize, Deserialize)]
struct OpPipe {
	read: ReadOp,
	trans: Vec<TranOp>,
}

fn filename() -> impl Strategy<Value = String> {
	prop_oneof![
		3 => (bare_string(), select(vec![".versatiles", ".mbtiles", ".pmtiles", ".tar", ""])).prop_map(|(a, e)| format!("{a}{e}")),
		1 => select(vec!["world.versatiles", "data/europe.versatiles", "my tiles (1).mbtiles", "größe.pmtiles", "a|b,c[d]=e.tar", "C:\\tiles\\x.versatiles"]).prop_map(String::from),
	]
}

fn tran_op() -> impl Strategy<Value = TranOp> {
	let zoom = (proptest::option::of(0u8..=14), 0u8..=16).prop_map(|(min, span)| TranOp::Zoom { min, max: Some(min.unwrap_or(0) + span) });
	let zoom2 = proptest::option::of(0u8..=30).prop_map(|min| TranOp::Zoom { min, max: None });
	let bbox = (-1800i16..1800, -850i16..850, 1i16..1800, 1i16..850).prop_map(|(w, s, dx, dy)| TranOp::Bbox { tenths: [w, s, (w + dx).min(1800), (s + dy).min(850)] });
	let flag = || proptest::option::of(any::<bool>());
	let update = (prop_oneof![bare_string(), free_string()], prop_oneof![bare_string(), free_string()], 0u8..3, [flag(), flag(), flag()])
		.prop_map(|(layer, id_tiles, id_data, flags)| TranOp::Update { layer, id_tiles, id_data, flags });
	prop_oneof![3 => zoom, 1 => zoom2, 3 => bbox, 2 => update]
}

fn op_pipe(depth: u32, top: bool) -> BoxedStrategy<OpPipe> {
	let container = filename().prop_map(|filename| ReadOp::Container { filename });
	let mut reads: Vec<(u32, BoxedStrategy<ReadOp>)> = vec![(4, container.boxed())];
	if top {
		reads.push((2, (0u8..4, proptest::option::of(any::<bool>())).prop_map(|(format, fast)| ReadOp::Debug { format, fast }).boxed()));
	}
	if depth > 0 {
		reads.push((2, pvec(op_pipe(depth - 1, false), 2..=3).prop_map(ReadOp::Overlayed).boxed()));
		reads.push((1, pvec(op_pipe(depth - 1, false), 2..=3).prop_map(ReadOp::Merged).boxed()));
	}
	(proptest::strategy::Union::new_weighted(reads), pvec(tran_op(), 0..=3))
		.prop_map(|(read, mut trans)| {
			// raster debug tiles cannot be fed to the vector-only operation
			if matches!(read, ReadOp::Debug { format, .. } if format != 0) {
				trans.retain(|t| !matches!(t, TranOp::Update { .. }));
			}
			OpPipe { read, trans }
		})
		.boxed()
}

fn fmt_tenths(t: i16) -> String {
	if t % 10 == 0 {
		format!("{}", t / 10)
	} else {
		format!("{}{}.{}", if t < 0 { "-" } else { "" }, (t / 10).abs(), (t % 10).abs())
	}
}

fn flag_text(b: bool) -> &'static str {
	if b {
		"true"
	} else {
		"false"
	}
}

fn op_tree(p: &OpPipe) -> Tree {
	let mut nodes = vec![];
	nodes.push(match &p.read {
		ReadOp::Container { filename } => Node::new("from_container").prop("filename", filename.clone()),
		ReadOp::Debug { format, fast } => {
			let mut n = Node::new("from_debug").prop("format", FORMATS[*format as usize % 4]);
			if let Some(f) = fast {
				n = n.prop("fast", flag_text(*f));
			}
			n
		}
		ReadOp::Overlayed(s) => Node::new("from_overlayed").sources(s.iter().map(op_tree).collect()),
		ReadOp::Merged(s) => Node::new("from_vectortiles_merged").sources(s.iter().map(op_tree).collect()),
	});
	for t in &p.trans {
		nodes.push(match t {
			TranOp::Zoom { min, max } => {
				let mut n = Node::new("filter_zoom");
				if let Some(v) = min {
					n = n.prop("min", v.to_string());
				}
				if let Some(v) = max {
					n = n.prop("max", v.to_string());
				}
				n
			}
			TranOp::Bbox { tenths } => Node::new("filter_bbox").list("bbox", tenths.iter().map(|t| fmt_tenths(*t))),
			TranOp::Update { layer, id_tiles, id_data, flags } => {
				let mut n = Node::new("vectortiles_update_properties")
					.prop("data_source_path", csv_path())
					.prop("layer_name", layer.clone())
					.prop("id_field_tiles", id_tiles.clone())
					.prop("id_field_data", CSV_COLUMNS[*id_data as usize % 3]);
				for (name, f) in ["replace_properties", "remove_non_matching", "include_id"].iter().zip(flags) {
					if let Some(f) = f {
						n = n.prop(name, flag_text(*f));
					}
				}
				n
			}
		});
	}
	Tree::new(nodes)
}

#[derive(Clone, Debug, Serialize, Deserialize)]
enum BadNum {
	Word(String),
	TooBig(u32),
	Negative(u16),
}

#[derive(Clone, Debug, Serialize, Deserialize)]
enum Fault {
	/// rename a node to a name no operation has
	UnknownName { sel: u16, name: String },
	/// a transform operation where a read operation must stand, or the other way round
	WrongKind { sel: u16 },
	/// drop a required parameter
	MissingRequired { sel: u16, which: u8 },
	/// `filter_zoom min|max` = not a number / > 255 / negative
	BadNumber { sel: u16, max: bool, value: BadNum },
	/// a list of >= 2 entries where a single value is required
	ListForScalar { sel: u16, which: u8, extra: Vec<String> },
	/// bbox with 1, 2, 3, 5 or 6 numbers
	BboxArity { sel: u16, n: u8 },
	/// bbox with 4 entries one of which is a word
	BboxWord { sel: u16, idx: u8, word: String },
	/// a source list, holding an operation that does not exist, behind an operation that takes no
	/// sources (`from_container filename=x [ no_such_operation ]`)
	UnknownInSourcesOfLeaf { sel: u16, name: String },
}

/// a word that is not a number in any notation (does not start with i/n/e/f: "inf", "nan", …)
fn word() -> impl Strategy<Value = String> {
	(select(chars("abcdghklmopqrstuvwxyz")), pvec(select(chars("abcdghklmopqrstuvwxyz0123456789_")), 0..5)).prop_map(|(a, r)| std::iter::once(a).chain(r).collect())
}

fn fault() -> impl Strategy<Value = Fault> {
	let bad = prop_oneof![
		2 => word().prop_map(BadNum::Word),
		2 => prop_oneof![256u32..=300, 256u32..=100_000].prop_map(BadNum::TooBig),
		2 => (1u16..=300).prop_map(BadNum::Negative),
	];
	prop_oneof![
		3 => (any::<u16>(), ident()).prop_map(|(sel, name)| Fault::UnknownName { sel, name }),
		1 => any::<u16>().prop_map(|sel| Fault::WrongKind { sel }),
		3 => (any::<u16>(), any::<u8>()).prop_map(|(sel, which)| Fault::MissingRequired { sel, which }),
		3 => (any::<u16>(), any::<bool>(), bad).prop_map(|(sel, max, value)| Fault::BadNumber { sel, max, value }),
		3 => (any::<u16>(), any::<u8>(), pvec(bare_string(), 0..=3)).prop_map(|(sel, which, extra)| Fault::ListForScalar { sel, which, extra }),
		2 => (any::<u16>(), select(vec![1u8, 2, 3, 5, 6])).prop_map(|(sel, n)| Fault::BboxArity { sel, n }),
		2 => (any::<u16>(), 0u8..4, word()).prop_map(|(sel, idx, word)| Fault::BboxWord { sel, idx, word }),
		2 => (any::<u16>(), ident()).prop_map(|(sel, name)| Fault::UnknownInSourcesOfLeaf { sel, name }),
	]
}

#[derive(Clone, Debug, Serialize, Deserialize)]
struct FactoryCase {
	pipe: OpPipe,
	tape: Vec<u8>,
	fault: Option<Fault>,
}

fn factory_case() -> impl Strategy<Value = FactoryCase> {
	(op_pipe(2, true), tape(), prop_oneof![1 => Just(None), 3 => fault().prop_map(Some)]).prop_map(|(pipe, tape, fault)| FactoryCase { pipe, tape, fault })
}

struct Info {
	idx: usize,
	name: String,
	first: bool,
	nested: bool,
}

fn infos(tree: &Tree, nested: bool, counter: &mut usize, out: &mut Vec<Info>) {
	for (i, n) in tree.nodes.iter().enumerate() {
		out.push(Info { idx: *counter, name: n.name.clone(), first: i == 0, nested });
		*counter += 1;
		for s in &n.sources {
			infos(s, true, counter, out);
		}
	}
}

fn node_mut<'a>(tree: &'a mut Tree, target: usize, counter: &mut usize) -> Option<&'a mut Node> {
	for n in tree.nodes.iter_mut() {
		if *counter == target {
			return Some(n);
		}
		*counter += 1;
		for s in n.sources.iter_mut() {
			if let Some(x) = node_mut(s, target, counter) {
				return Some(x);
			}
		}
	}
	None
}

fn set_prop(n: &mut Node, key: &str, v: Val) {
	n.props.retain(|(k, _)| k != key);
	n.props.push((key.to_string(), v));
}

fn required_params(op: &str) -> &'static [&'static str] {
	match op {
		"from_container" => &["filename"],
		"from_debug" => &["format"],
		"filter_bbox" => &["bbox"],
		"vectortiles_update_properties" => &["data_source_path", "layer_name", "id_field_tiles", "id_field_data"],
		_ => &[],
	}
}

fn scalar_params(op: &str) -> &'static [&'static str] {
	match op {
		"from_container" => &["filename"],
		"from_debug" => &["format"],
		"filter_zoom" => &["min", "max"],
		"vectortiles_update_properties" => &["data_source_path", "layer_name", "id_field_tiles", "id_field_data"],
		_ => &[],
	}
}

fn known_like(name: &str) -> bool {
	let n = name.to_ascii_lowercase().replace('-', "_");
	READ_OPS.iter().chain(TRAN_OPS.iter()).any(|k| *k == n)
}

/// Pick a node among those `eligible`; if there is none append `fallback` to the top pipeline.
fn choose(tree: &mut Tree, sel: u16, eligible: &dyn Fn(&Info) -> bool, fallback: Option<Node>) -> Info {
	let mut all = vec![];
	infos(tree, false, &mut 0, &mut all);
	let mut el: Vec<Info> = all.into_iter().filter(|i| eligible(i)).collect();
	if el.is_empty() {
		let node = fallback.expect("harness: no eligible node and no fallback");
		tree.nodes.push(node);
		let mut all = vec![];
		infos(tree, false, &mut 0, &mut all);
		el = all.into_iter().filter(|i| eligible(i)).collect();
	}
	let i = pick(sel as u32, el.len());
	el.swap_remove(i)
}

/// Apply the fault to the (valid) tree; returns the class label.
fn apply_fault(tree: &mut Tree, fault: &Fault) -> String {
	let place = |i: &Info| if i.nested { ":nested" } else { "" };
	match fault {
		Fault::UnknownName { sel, name } => {
			let info = choose(tree, *sel, &|_| true, None);
			let mut name = name.clone();
			if known_like(&name) {
				name.push_str("_x");
			}
			node_mut(tree, info.idx, &mut 0).unwrap().name = name;
			format!("unknown-{}-operation{}", if info.first { "read" } else { "transform" }, place(&info))
		}
		Fault::WrongKind { sel } => {
			let info = choose(tree, *sel, &|_| true, None);
			let n = node_mut(tree, info.idx, &mut 0).unwrap();
			if info.first {
				*n = Node::new("filter_zoom").prop("min", "1");
				format!("transform-operation-as-read-operation{}", place(&info))
			} else {
				*n = Node::new("from_container").prop("filename", "x.versatiles");
				format!("read-operation-as-transform-operation{}", place(&info))
			}
		}
		Fault::MissingRequired { sel, which } => {
			let info = choose(tree, *sel, &|i| !required_params(&i.name).is_empty(), None);
			let req = required_params(&info.name);
			let key = req[*which as usize % req.len()];
			node_mut(tree, info.idx, &mut 0).unwrap().props.retain(|(k, _)| k != key);
			format!("missing:{}.{key}{}", info.name, place(&info))
		}
		Fault::BadNumber { sel, max, value } => {
			let info = choose(tree, *sel, &|i| i.name == "filter_zoom", Some(Node::new("filter_zoom")));
			let (text, label) = match value {
				BadNum::Word(w) => (w.clone(), "word"),
				BadNum::TooBig(v) => (v.to_string(), "above-255"),
				BadNum::Negative(v) => (format!("-{v}"), "negative"),
			};
			set_prop(node_mut(tree, info.idx, &mut 0).unwrap(), if *max { "max" } else { "min" }, Val::One(text));
			format!("u8-parameter:{label}{}", place(&info))
		}
		Fault::ListForScalar { sel, which, extra } => {
			let info = choose(tree, *sel, &|i| !scalar_params(&i.name).is_empty(), None);
			let params = scalar_params(&info.name);
			let key = params[*which as usize % params.len()];
			let n = node_mut(tree, info.idx, &mut 0).unwrap();
			let current = n.props.iter().find(|(k, _)| k == key).and_then(|(_, v)| if let Val::One(s) = v { Some(s.clone()) } else { None });
			if extra.is_empty() {
				// a list without entries where one value is expected (`min=[]`)
				set_prop(n, key, Val::List(vec![]));
				return format!("empty-list-for-scalar:{}.{key}{}", info.name, place(&info));
			}
			let mut list = vec![current.unwrap_or_else(|| "3".to_string())];
			if info.name == "filter_zoom" {
				list.extend(extra.iter().enumerate().map(|(i, _)| (4 + i).to_string()));
			} else {
				list.extend(extra.iter().cloned());
			}
			set_prop(n, key, Val::List(list));
			format!("list-for-scalar:{}.{key}{}", info.name, place(&info))
		}
		Fault::UnknownInSourcesOfLeaf { sel, name } => {
			let info = choose(tree, *sel, &|i| !matches!(i.name.as_str(), "from_overlayed" | "from_vectortiles_merged"), Some(Node::new("filter_zoom").prop("min", "1")));
			let mut name = name.clone();
			if known_like(&name) {
				name.push_str("_x");
			}
			node_mut(tree, info.idx, &mut 0).unwrap().sources = vec![Tree::new(vec![Node::new(&name)])];
			format!("unknown-operation-in-sources-of:{}{}", info.name, place(&info))
		}
		Fault::BboxArity { sel, n } => {
			let info = choose(tree, *sel, &|i| i.name == "filter_bbox", Some(Node::new("filter_bbox")));
			let all = ["-10", "-20.5", "10", "20", "30", "40"];
			set_prop(node_mut(tree, info.idx, &mut 0).unwrap(), "bbox", Val::List(all[..*n as usize].iter().map(|s| s.to_string()).collect()));
			format!("bbox-arity:{n}{}", place(&info))
		}
		Fault::BboxWord { sel, idx, word } => {
			let info = choose(tree, *sel, &|i| i.name == "filter_bbox", Some(Node::new("filter_bbox")));
			let mut l: Vec<String> = ["-10", "-20.5", "10", "20"].iter().map(|s| s.to_string()).collect();
			l[*idx as usize % 4] = word.clone();
			set_prop(node_mut(tree, info.idx, &mut 0).unwrap(), "bbox", Val::List(l));
			format!("bbox-entry-not-a-number{}", place(&info))
		}
	}
}

fn factory_oracle(case: &FactoryCase, obs: &mut Obs) -> Result<(), Fail> {
	let mut tree = op_tree(&case.pipe);
	let class = case.fault.as_ref().map(|f| apply_fault(&mut tree, f));
	let text = join(&render_tokens(&tree, &case.tape));
	let result = guard(|| {
		let factory = PipelineFactory::new_dummy();
		vt::util::block_on(factory.operation_from_vpl(&text)).map(|_| ()).map_err(|e| format!("{e:#}"))
	});
	let result = match result {
		Err(p) => return Err(Fail::from_panic(&format!("operation_from_vpl({text:?})"), &p)),
		Ok(r) => r,
	};
	match &class {
		None => {
			if let Err(e) = result {
				let e: String = e.chars().take(400).collect();
				fail!("factory:valid-pipeline-rejected", "valid pipeline rejected: text {text:?}\nerror: {e}");
			}
			obs.label("valid");
			obs.label(format!("valid:depth={}", tree.depth()));
			let mut names = std::collections::BTreeSet::new();
			tree.for_each_node(&mut |n| {
				names.insert(n.name.clone());
			});
			for n in names {
				obs.label(format!("valid:uses:{n}"));
			}
			obs.nontrivial(tree.depth() >= 1);
		}
		Some(class) => {
			let sig_class = class.split(':').next().unwrap_or("").to_string();
			ensure_prop!(result.is_err(), format!("factory:accepted:{sig_class}"), "pipeline with {class} was built without error: text {text:?}");
			obs.label(class.trim_end_matches(":nested").to_string());
			obs.label_if(class.ends_with(":nested"), "fault-in-nested-source");
			obs.nontrivial(true);
		}
	}
	Ok(())
}

// =======================================================================================


// ---------------------------------------------------------------------------------------
// phase order: the BUILT pipeline applies the operations in the order they are written
// ---------------------------------------------------------------------------------------
// parse_vpl returning the right tree is not enough if the factory then assembles the stages in
// another order. Stages that do not commute make the order observable: every
// vectortiles_update_properties stage sets the same property `v` (merge mode) to its own tag, so
// the value that comes out is the tag of the LAST stage written.

#[derive(Clone, Debug, Serialize, Deserialize)]
struct OrderCase {
	/// tags of the update stages in written order (2..=4 stages)
	tags: Vec<u8>,
	/// positions (after which stage) where a commuting filter_zoom is inserted
	filters: Vec<u8>,
	/// wrap the whole pipeline as first source of a from_overlayed
	nested: bool,
	tape: Vec<u8>,
}

fn order_case() -> impl Strategy<Value = OrderCase> {
	(proptest::collection::vec(0u8..6, 2..=4), proptest::collection::vec(0u8..4, 0..3), any::<bool>(), proptest::collection::vec(any::<u8>(), 0..40)).prop_map(|(tags, filters, nested, tape)| OrderCase { tags, filters, nested, tape })
}

fn order_oracle(case: &OrderCase, obs: &mut Obs) -> Result<(), Fail> {
	use vt::model::{Advert, Fmt, LevelSpec, MemReader, Pay, SetSpec, Shape};
	use vt::util::Comp;
	let spec = SetSpec {
		tag: "w".into(),
		levels: vec![LevelSpec { z: 3, x0: 1, y0: 2, w: 3, h: 2, shape: Shape::Dense, seed: 1 }],
		pay: Pay::Mvt,
		format: Fmt::Pbf,
		comp: Comp::None,
		really_compressed: false,
		advert: Advert::Tight,
		meta: None,
	};
	let set = spec.materialise();
	let dir = vt::util::tmp_dir();
	let _g = vt::util::TmpGuard(dir.clone());
	// one data file per tag: every tile's feature (property k = "w z/x/y") gets v = "T<tag>"
	for t in 0..6u8 {
		let mut text = String::from("key,v\n");
		for c in set.tiles.keys() {
			text.push_str(&format!("w {c},T{t}\n"));
		}
		std::fs::write(dir.join(format!("data{t}.csv")), text).map_err(|e| Fail::new("harness:io", e.to_string()))?;
	}
	let mut nodes = vec![Node::new("from_container").prop("filename", "leaf0")];
	for (i, t) in case.tags.iter().enumerate() {
		nodes.push(Node::new("vectortiles_update_properties").prop("data_source_path", format!("data{t}.csv")).prop("layer_name", "w").prop("id_field_tiles", "k").prop("id_field_data", "key"));
		if case.filters.contains(&(i as u8)) {
			nodes.push(Node::new("filter_zoom").prop("min", "0").prop("max", "20"));
		}
	}
	let mut tree = Tree::new(nodes);
	let mut readers: Vec<Box<dyn versatiles_core::types::TilesReaderTrait>> = vec![Box::new(MemReader::new(&set, "leaf0"))];
	if case.nested {
		// a second (disjoint) source, so that the overlay is legal
		let other = SetSpec { tag: "o".into(), levels: vec![LevelSpec { z: 5, x0: 9, y0: 9, w: 1, h: 1, shape: Shape::Dense, seed: 2 }], ..spec.clone() };
		readers.push(Box::new(MemReader::new(&other.materialise(), "leaf1")));
		tree = Tree::new(vec![Node::new("from_overlayed").sources(vec![tree, Tree::new(vec![Node::new("from_container").prop("filename", "leaf1")])])]);
	}
	let text = vt::vpltree::render(&tree, &case.tape);
	let factory = vt::sources::factory_with(readers, &dir);
	let op = match guard(|| vt::util::block_on(factory.operation_from_vpl(&text))) {
		Ok(Ok(op)) => op,
		Ok(Err(e)) => return Err(Fail::new("factory:valid-pipeline-rejected", format!("{text:?} was rejected: {e:#}"))),
		Err(p) => return Err(Fail::from_panic(&format!("building {text:?}"), &p)),
	};
	let want = format!("T{}", case.tags.last().unwrap());
	for c in set.tiles.keys() {
		let blob = match guard(|| vt::util::block_on(op.get_tile_data(&c.vt()))) {
			Ok(Ok(Some(b))) => b.into_vec(),
			Ok(Ok(None)) => return Err(Fail::new("order:tile-missing", format!("{text:?}: tile {c} is missing"))),
			Ok(Err(e)) => return Err(Fail::new("order:lookup-error", format!("{text:?}: {e:#}"))),
			Err(p) => return Err(Fail::from_panic(&format!("lookup in {text:?}"), &p)),
		};
		let layers = vt::mvt::decode_sem(&blob).map_err(|e| Fail::new("order:output-not-a-tile", format!("{text:?}: {e}")))?;
		let got = layers.iter().find(|l| l.name == "w").and_then(|l| l.features.first()).and_then(|f| f.props.get("v")).cloned();
		ensure_prop!(
			got == Some(vt::mvt::CanonValue::Str(want.clone())),
			"order:stages-applied-in-another-order",
			"{text:?}: tile {c}: property v is {got:?}, the last stage written sets {want:?} (stage tags in written order: {:?})",
			case.tags
		);
	}
	obs.label(format!("stages={}", case.tags.len()));
	obs.label_if(case.nested, "nested-in-source-list");
	obs.label_if(!case.filters.is_empty(), "with-commuting-filter");
	let distinct: std::collections::BTreeSet<&u8> = case.tags.iter().collect();
	obs.nontrivial(distinct.len() >= 2 && case.tags.first() != case.tags.last());
	Ok(())
}

fn main() {
	let mut check = Check::from_args(
		"C18",
		"exploration",
		"phase trees: proptest syntax trees (1-4 nodes per pipeline, 0-4 properties with keys from a small pool so that they repeat, values bare / arbitrary quoted strings / lists of 0-5, 0-3 nested pipelines per node, nesting depth <= 3, thorough 5) rendered with a generated tape of quoting and whitespace choices; non-trivial = nesting >= 1 and a (necessarily quoted) value containing one of | [ ] , = \"; phases broken and factory: every asserted mutation / fault class counts as non-trivial (factory faults: unknown operation names anywhere, also inside a source list behind an operation that takes no sources; read/transform operations swapped; missing required parameters; numbers that are words / above 255 / negative; lists of 0 or >= 2 entries where one value is expected; boxes with 1-6 entries or a word); phase order: built pipelines of 2-4 non-commuting vectortiles_update_properties stages (optionally with commuting filters in between, optionally nested in a source list) must apply the stages in the written order (the last stage's value wins), non-trivial = first and last stage differ; distinct = distinct serialised (tree, tape[, mutation]) cases",
	);
	check.assume("syntax = versatiles_pipeline/src/help.md + the property statement; the alphabet of bare values / identifiers, the escapes \\\\ \\\" \\n \\t and the whitespace set (space, tab, CR, LF) are those of vpl/parser.rs, the documentation is silent about them");
	check.assume("whitespace is generated before/after the text, around |, between name and properties and between properties (at least one character there), around =, inside list values around [ , ], before the source list and inside it around [ , ]; not generated (documentation silent, parser rejects): properties without separating whitespace, properties after the source list");
	check.assume("not asserted: empty quoted strings \"\" (never generated); whether k=[] leaves the key present with no entries or absent (both accepted); booleans given as arbitrary text; trailing commas; a second source list");
	check.assume("broken texts are asserted only when no reading exists: lexical certificate (unterminated string, unbalanced bracket outside strings, backslash + one of q z k p j y Q Z % ; inside a string, one of % { } ; ! ? ^ ~ ( ) < > & \\ outside strings) or construction (empty pipeline element next to |, key without =, no operation at all); quote mutations without certificate are counted as not-asserted");
	check.assume("factory phase uses PipelineFactory::new_dummy() (any filename opens a mock vector source) and a CSV fixture in the scratch directory; positive controls keep zoom ranges non-empty and bounding boxes non-degenerate inside +-180/+-85");
	let thorough = check.tier == Tier::Thorough;
	vt::engine::watchdog(if thorough { 7200 } else { 1800 });
	let _ = csv_path();
	let max_depth = if thorough { 5 } else { 3 };

	// C18_DUMP=<n>: print n generated texts of every phase and stop (for eyeballing the generators)
	if let Some(n) = std::env::var("C18_DUMP").ok().and_then(|s| s.parse::<u64>().ok()) {
		for i in 0..n {
			let c = vt::engine::sample_one(&tree_case(max_depth), i);
			println!("--- trees {i}: {:?}", join(&render_tokens(&c.tree, &c.tape)));
			let c = vt::engine::sample_one(&broken_case(), i);
			let (text, label, basis) = mutate(render_tokens(&c.tree, &c.tape), c.class, c.sel, c.aux);
			println!("--- broken {i} [{label}, {basis:?}, {:?}]: {text:?}", lex_certificate(&text));
			let c = vt::engine::sample_one(&factory_case(), i);
			let mut tree = op_tree(&c.pipe);
			let class = c.fault.as_ref().map(|f| apply_fault(&mut tree, f));
			println!("--- factory {i} [{class:?}]: {}", join(&render_tokens(&tree, &c.tape)));
		}
		vt::util::cleanup_tmp();
		return;
	}

	let reg: Vec<TreeCase> = check.regression_cases("trees");
	check.enumerate("regressions-trees", reg, false, trees_oracle);
	let reg: Vec<BrokenCase> = check.regression_cases("broken");
	check.enumerate("regressions-broken", reg, false, broken_oracle);
	let reg: Vec<FactoryCase> = check.regression_cases("factory");
	check.enumerate("regressions-factory", reg, false, factory_oracle);

	let reg: Vec<OrderCase> = check.regression_cases("order");
	check.enumerate("regressions-order", reg, false, order_oracle);
	check.phase("order", check.cases(15_000, 200_000), order_case, order_oracle);
	check.phase("trees", check.cases(400_000, 6_000_000), || tree_case(max_depth), trees_oracle);
	check.phase("broken", check.cases(250_000, 3_000_000), broken_case, broken_oracle);
	check.phase("factory", check.cases(60_000, 600_000), factory_case, factory_oracle);
	check.finish();
}

//! C09 — filter_zoom and filter_bbox pass exactly the tiles inside the filter; invalid
//! arguments are reported as errors when the pipeline is built.

use proptest::prelude::*;
use serde::{Deserialize, Serialize};
use std::collections::BTreeMap;
use versatiles_core::types::TileBBox;
use vt::engine::{guard, Check, Fail, Obs};
use vt::model::Coord;
use vt::sources::*;
use vt::util;
use vt::{ensure_prop, fail};

#[derive(Clone, Debug, Serialize, Deserialize)]
enum Filter {
	Zoom(Option<u8>, Option<u8>),
	Bbox([f64; 4]),
}

#[derive(Clone, Debug, Serialize, Deserialize)]
struct Case {
	leaf: Leaf,
	filters: Vec<Filter>,
	boxes: Vec<BoxSpec>,
}

/// geographic boxes aimed at the leaf's coverage: cutting it, tile-aligned, degenerate
fn filter(leaf: &Leaf) -> BoxedStrategy<Filter> {
	let set = leaf.spec.materialise();
	let boxes = set.tight_boxes();
	let levels: Vec<u8> = boxes.keys().copied().collect();
	let zlo = *levels.first().unwrap_or(&0);
	let zhi = *levels.last().unwrap_or(&0);
	let zooms = (proptest::option::weighted(0.7, prop_oneof![3 => zlo.saturating_sub(2)..=zhi.saturating_add(2).min(40), 1 => 0u8..=40]), proptest::option::weighted(0.7, prop_oneof![3 => zlo.saturating_sub(2)..=zhi.saturating_add(2).min(40), 1 => 0u8..=40]))
		.prop_map(|(a, b)| Filter::Zoom(a, b));
	let (z, b) = boxes.iter().next().map(|(z, b)| (*z, *b)).unwrap_or((0, (0, 0, 0, 0)));
	let near = (0u32..=8, 0u32..=8, 0u32..=8, 0u32..=8, 0u8..7, -0.4f64..0.4, -0.4f64..0.4).prop_map(move |(a, bb, c, d, kind, fx, fy)| {
		use vt::model::georef as g;
		// tile-space rectangle around/inside the coverage, then to degrees
		let x0 = (b.0 as f64 + a as f64 - 3.0).max(0.0);
		let y0 = (b.1 as f64 + bb as f64 - 3.0).max(0.0);
		let x1 = (b.2 as f64 + 1.0 - c as f64 + 3.0).max(x0);
		let y1 = (b.3 as f64 + 1.0 - d as f64 + 3.0).max(y0);
		let n = Coord::size(z) as f64;
		let (x0, y0, x1, y1) = (x0.min(n), y0.min(n), x1.min(n), y1.min(n));
		let (fx, fy) = match kind {
			0 | 4 | 5 => (0.0, 0.0), // exactly on tile edges
			_ => (fx, fy),           // cutting through tiles
		};
		let (x0, x1) = ((x0 + fx).clamp(0.0, n), (x1 + fx).clamp(0.0, n));
		let (y0, y1) = ((y0 + fy).clamp(0.0, n), (y1 + fy).clamp(0.0, n));
		// degenerate: a point (3), a vertical (4, 6) or horizontal (5) line – on a tile edge (4, 5) or inside tiles (6)
		let (x1, y1) = match kind {
			3 => (x0, y0),
			4 | 6 => (x0, y1.max(y0)),
			5 => (x1.max(x0), y0),
			_ => (x1.max(x0), y1.max(y0)),
		};
		Filter::Bbox([g::lon(x0, z).clamp(-180.0, 180.0), g::lat(y1, z).clamp(-90.0, 90.0), g::lon(x1, z).clamp(-180.0, 180.0), g::lat(y0, z).clamp(-90.0, 90.0)])
	});
	// boxes spanning (nearly) all longitudes whose latitude limits lie between 84 and 90 degrees:
	// at zoom >= 10 the rows next to the poles are outside of a box ending at 85 degrees
	let polar = (prop_oneof![Just(85.0f64), Just(85.04), Just(85.0511), Just(84.9), Just(90.0), 84.0f64..86.0], prop_oneof![Just(85.0f64), Just(85.02), Just(90.0), Just(85.0511287798066), 84.0f64..86.0], prop_oneof![3 => Just((-180.0f64, 180.0f64)), 1 => Just((-180.0, 179.9)), 1 => Just((-179.99, 180.0))])
		.prop_map(|(n, s, (w, e))| Filter::Bbox([w, -s, e, n]));
	prop_oneof![3 => zooms, 4 => near, 1 => geo_bbox().prop_map(Filter::Bbox), 1 => polar].boxed()
}

fn strategy() -> impl Strategy<Value = Case> {
	prop_oneof![3 => leaf(31, false, false, 16), 2 => leaf_any_pair(31, 16)].prop_flat_map(|leaf| {
		let f = filter(&leaf);
		(Just(leaf), proptest::collection::vec(f, 1..4), proptest::collection::vec(box_spec(), 1..4)).prop_map(|(leaf, filters, boxes)| Case { leaf, filters, boxes })
	})
}

fn node_of(case: &Case) -> Node {
	let mut n = Node::Leaf(case.leaf.clone());
	for f in &case.filters {
		n = match f {
			Filter::Zoom(min, max) => Node::FilterZoom { src: Box::new(n), min: *min, max: *max },
			Filter::Bbox(b) => Node::FilterBbox { src: Box::new(n), bbox: *b },
		};
	}
	n
}

fn oracle(case: &Case, obs: &mut Obs) -> Result<(), Fail> {
	let root = node_of(case);
	let built = build_pipeline(&root)?;
	let model = &built.model;
	let set = model.sets()[0].clone();
	let source = Source::Op(built.op);
	let cov = source.coverage();
	let probes = set.probes(1, 200);
	let mut kept = 0u64;
	let mut dropped = 0u64;
	let check_one = |ctx: &str, c: &Coord, got: Option<&Vec<u8>>| -> Result<(), Fail> {
		match model.expect(c) {
			Expect::DontCare => {
				// the guard band: if a tile is returned it must still be the source's tile
				if let (Some(g), Some(stored)) = (got, set.tiles.get(c)) {
					ensure_prop!(g == stored, "filter:bytes-changed", "{ctx}: tile {c} was altered by the filter");
				} else if let Some(g) = got {
					fail!("filter:extra-tile", "{ctx}: {c} returns {} bytes, the source has no tile there", g.len());
				}
				Ok(())
			}
			Expect::Absent => {
				ensure_prop!(got.is_none(), "filter:tile-outside-filter-passed", "{ctx}: {c} is returned although it is outside the filter (or the source has no tile there); filters {:?}", case.filters);
				Ok(())
			}
			Expect::Raw(_) | Expect::Exists => {
				let stored = &set.tiles[c];
				match got {
					None => fail!("filter:tile-inside-filter-dropped", "{ctx}: {c} lies inside the filter and the source has the tile, but nothing is returned; filters {:?}", case.filters),
					Some(g) => {
						ensure_prop!(g == stored, "filter:bytes-changed", "{ctx}: tile {c} was altered by the filter ({} vs {} bytes)", g.len(), stored.len());
						Ok(())
					}
				}
			}
		}
	};
	let mut returned: std::collections::BTreeSet<Coord> = Default::default();
	for c in &probes {
		let got = match source.lookup(c) {
			Ok(Ok(g)) => g,
			Ok(Err(e)) => fail!("filter:lookup-error", "lookup of {c} failed: {e}"),
			Err(p) => return Err(Fail::from_panic(&format!("lookup of {c}"), &p)),
		};
		check_one("lookup", c, got.as_ref())?;
		if set.tiles.contains_key(c) {
			if got.is_some() {
				kept += 1;
				returned.insert(*c);
			} else {
				dropped += 1;
			}
		}
	}
	// The filters select a BOX per level (a column interval times a row interval). Tiles on the
	// guard band of one axis are don't-care one by one, but not independently: if a tile of
	// column x passes, column x is in the interval, so every source tile of column x whose row is
	// definitely inside must pass as well (and likewise for rows).
	let bboxes: Vec<&[f64; 4]> = case.filters.iter().filter_map(|f| if let Filter::Bbox(b) = f { Some(b) } else { None }).collect();
	if !bboxes.is_empty() {
		use vt::model::georef as g;
		let cls = |c: &Coord| -> (bool, bool) {
			// (column definitely inside every box, row definitely inside every box)
			let x_in = bboxes.iter().all(|b| g::classify(c.x, g::tx(b[0], c.z), g::tx(b[2], c.z), c.z) == g::Cls::In);
			let y_in = bboxes.iter().all(|b| g::classify(c.y, g::ty(b[3], c.z), g::ty(b[1], c.z), c.z) == g::Cls::In);
			(x_in, y_in)
		};
		let zoom_ok = |z: u8| case.filters.iter().all(|f| if let Filter::Zoom(a, b) = f { a.map(|m| z >= m).unwrap_or(true) && b.map(|m| z <= m).unwrap_or(true) } else { true });
		let cols: std::collections::BTreeSet<(u8, u32)> = returned.iter().map(|c| (c.z, c.x)).collect();
		let rows: std::collections::BTreeSet<(u8, u32)> = returned.iter().map(|c| (c.z, c.y)).collect();
		for c in probes.iter().filter(|c| set.tiles.get(c).map(|b| !b.is_empty()).unwrap_or(false) && zoom_ok(c.z) && !returned.contains(c)) {
			let (x_in, y_in) = cls(c);
			if y_in && cols.contains(&(c.z, c.x)) {
				fail!("filter:selection-is-not-a-box", "lookup: {c} is not returned although another tile of column {} passes the filter and row {} is definitely inside every box; filters {:?}", c.x, c.y, case.filters);
			}
			if x_in && rows.contains(&(c.z, c.y)) {
				fail!("filter:selection-is-not-a-box", "lookup: {c} is not returned although another tile of row {} passes the filter and column {} is definitely inside every box; filters {:?}", c.y, c.x, case.filters);
			}
		}
	}
	for bs in &case.boxes {
		// boxes relative to the SOURCE's coverage (the filtered coverage may be empty)
		let src_cov = set.pyramid.clone();
		let bbox: TileBBox = resolve_box(bs, &src_cov, 40);
		let desc = format!("{bbox:?}");
		let got = match source.stream(bbox.clone()) {
			Ok(v) => v,
			Err(p) => return Err(Fail::from_panic(&format!("stream over {desc}"), &p)),
		};
		let mut m: BTreeMap<Coord, Vec<u8>> = BTreeMap::new();
		for (c, b) in got {
			ensure_prop!(!bbox.is_empty() && bbox.contains3(&c.vt()), "filter:stream-outside-box", "stream over {desc} delivers {c}");
			ensure_prop!(m.insert(c, b).is_none(), "filter:stream-duplicate", "stream over {desc} delivers {c} twice");
		}
		if !bbox.is_empty() {
			for c in bbox.iter_coords().map(|c| Coord::from_vt(&c)) {
				check_one(&format!("stream over {desc}"), &c, m.get(&c))?;
			}
		}
	}
	// the advertised coverage of the filter chain contains what it returns
	for c in set.tiles.keys() {
		if matches!(model.expect(c), Expect::Raw(_)) {
			let inside = cov.get(&c.z).map(|b| c.x >= b.0 && c.x <= b.2 && c.y >= b.1 && c.y <= b.3).unwrap_or(false);
			ensure_prop!(inside, "filter:tile-outside-coverage", "tile {c} passes the filter but lies outside the advertised coverage {:?}", cov.get(&c.z));
		}
	}
	obs.label(case.leaf.label());
	obs.label(format!("filters={}", case.filters.len()));
	for f in &case.filters {
		match f {
			Filter::Zoom(a, b) => {
				obs.label("filter_zoom");
				obs.label_if(matches!((a, b), (Some(x), Some(y)) if x > y), "zoom:min>max");
				obs.label_if(a.is_none() || b.is_none(), "zoom:open-ended");
			}
			Filter::Bbox(b) => {
				obs.label("filter_bbox");
				obs.label_if(b[0] == b[2] || b[1] == b[3], "bbox:degenerate");
			}
		}
	}
	obs.label_if(kept > 0 && dropped > 0, "removes-some-keeps-some");
	obs.count("lookups", probes.len() as u64);
	obs.nontrivial(kept > 0 && dropped > 0);
	Ok(())
}

// ---------------------------------------------------------------------------------------
// invalid arguments
// ---------------------------------------------------------------------------------------

#[derive(Clone, Debug, Serialize, Deserialize)]
struct BadCase {
	class: String,
	/// the transform stage text after `from_container filename="leaf0" | `
	stage: String,
	valid: bool,
	/// index into `PREFIXES`: a valid stage in front of the examined one (0 = none)
	#[serde(default)]
	prefix: u8,
}

/// valid stages that keep everything, something, or nothing of the source
const PREFIXES: [&str; 7] = ["", "filter_zoom min=0", "filter_zoom min=7 max=3", "filter_zoom min=30", "filter_bbox bbox=[170,80,171,81]", "filter_zoom max=2 | filter_zoom min=5", "filter_bbox bbox=[-180,-85,180,85]"];

fn bad_strategy() -> impl Strategy<Value = BadCase> {
	(bad_stage(), prop_oneof![3 => Just(0u8), 4 => 1u8..PREFIXES.len() as u8]).prop_map(|(mut c, prefix)| {
		c.prefix = prefix;
		c
	})
}

fn bad_stage() -> impl Strategy<Value = BadCase> {
	let num = || prop_oneof![(-400i32..400).prop_map(|v| v.to_string()), (-400.0f64..400.0).prop_map(|v| format!("{v:.3}"))];
	prop_oneof![
		// positive controls
		(0u8..=40, 0u8..=40).prop_map(|(a, b)| BadCase { class: "valid-zoom".into(), stage: format!("filter_zoom min={a} max={b}"), valid: true, prefix: 0 }),
		(-180.0f64..180.0, -90.0f64..90.0, 0.0f64..100.0, 0.0f64..50.0).prop_map(|(w, s, dw, dh)| BadCase { class: "valid-bbox".into(), stage: format!("filter_bbox bbox=[{},{},{},{}]", w, s, (w + dw).min(180.0), (s + dh).min(90.0)), valid: true, prefix: 0 }),
		// invalid ones
		"[a-zA-Z]{1,6}".prop_map(|w| BadCase { class: "zoom:non-numeric".into(), stage: format!("filter_zoom min={w}"), valid: false, prefix: 0 }),
		(256u32..100000).prop_map(|v| BadCase { class: "zoom:u8-overflow".into(), stage: format!("filter_zoom max={v}"), valid: false, prefix: 0 }),
		(1i32..300).prop_map(|v| BadCase { class: "zoom:negative".into(), stage: format!("filter_zoom min=-{v}"), valid: false, prefix: 0 }),
		(0u8..9, 0u8..9).prop_map(|(a, b)| BadCase { class: "zoom:list-for-scalar".into(), stage: format!("filter_zoom min=[{a},{b}]"), valid: false, prefix: 0 }),
		proptest::collection::vec(num(), 0..8).prop_filter("arity", |v| v.len() != 4).prop_map(|v| BadCase { class: format!("bbox:arity-{}", v.len()), stage: format!("filter_bbox bbox=[{}]", v.join(",")), valid: false, prefix: 0 }),
		("[a-zA-Z]{1,5}", 0usize..4).prop_map(|(w, i)| {
			let mut v = vec!["-10".to_string(), "-10".into(), "10".into(), "10".into()];
			v[i] = w;
			BadCase { class: "bbox:non-numeric".into(), stage: format!("filter_bbox bbox=[{}]", v.join(",")), valid: false, prefix: 0 }
		}),
		(-179.0f64..179.0, 0.001f64..100.0, -80.0f64..80.0).prop_map(|(e, d, s)| BadCase { class: "bbox:west>east".into(), stage: format!("filter_bbox bbox=[{},{},{},{}]", (e + d).min(180.0), s, e, s + 1.0), valid: false, prefix: 0 }),
		(-89.0f64..89.0, 0.001f64..100.0, -170.0f64..170.0).prop_map(|(n, d, w)| BadCase { class: "bbox:south>north".into(), stage: format!("filter_bbox bbox=[{},{},{},{}]", w, (n + d).min(90.0), w + 1.0, n), valid: false, prefix: 0 }),
		(180.001f64..1000.0, 0usize..4).prop_map(|(v, i)| {
			let mut b = [-10.0, -10.0, 10.0, 10.0];
			b[i] = if i < 2 { -v } else { v };
			BadCase { class: "bbox:out-of-range".into(), stage: format!("filter_bbox bbox=[{},{},{},{}]", b[0], b[1], b[2], b[3]), valid: false, prefix: 0 }
		}),
		Just(BadCase { class: "bbox:missing".into(), stage: "filter_bbox".into(), valid: false, prefix: 0 }),
		// not-a-number and infinities in every spelling the number parser accepts
		(prop_oneof![Just("NaN"), Just("nan"), Just("inf"), Just("-inf"), Just("infinity"), Just("-Infinity"), Just("\"NaN\"")], 0usize..4).prop_map(|(w, i)| {
			let mut v = vec!["-10".to_string(), "-10".into(), "10".into(), "10".into()];
			v[i] = w.to_string();
			BadCase { class: "bbox:nan-or-infinite".into(), stage: format!("filter_bbox bbox=[{}]", v.join(",")), valid: false, prefix: 0 }
		}),
	]
}

fn bad_oracle(case: &BadCase, obs: &mut Obs) -> Result<(), Fail> {
	let leaf = vt::engine::sample_one(&leaf(8, false, false, 4), 7);
	let set = leaf.spec.materialise();
	let reader: Box<dyn versatiles_core::types::TilesReaderTrait> = Box::new(vt::model::MemReader::new(&set, "mem"));
	let factory = factory_with(vec![reader], std::path::Path::new(""));
	let prefix = PREFIXES[case.prefix as usize % PREFIXES.len()];
	let text = if prefix.is_empty() { format!("from_container filename=\"leaf0\" | {}", case.stage) } else { format!("from_container filename=\"leaf0\" | {prefix} | {}", case.stage) };
	let r = guard(|| util::block_on(factory.operation_from_vpl(&text)));
	obs.label(case.class.clone());
	obs.label_if(matches!(case.prefix as usize % PREFIXES.len(), 2 | 3 | 4 | 5), "behind-a-stage-that-keeps-nothing");
	obs.nontrivial(true);
	match (r, case.valid) {
		(Err(p), _) => Err(Fail::from_panic(&format!("building {text:?}"), &p)),
		(Ok(Ok(_)), true) | (Ok(Err(_)), false) => Ok(()),
		(Ok(Ok(_)), false) => fail!(format!("filter:invalid-argument-accepted:{}", case.class), "{text:?} was accepted although the argument is invalid"),
		(Ok(Err(e)), true) => fail!("filter:valid-argument-rejected", "{text:?} was rejected: {e:#}"),
	}
}

fn main() {
	let mut check = Check::from_args(
		"C09",
		"exploration",
		"a leaf source (in-memory or container fixture of any format) under a chain of 1-3 filters: filter_zoom with min/max in 0..=40 incl. min > max and open ends, filter_bbox with geographic boxes derived from the source's coverage in tile space (on tile edges, cutting through tiles, degenerate points and lines (on tile edges and inside tiles), containing / disjoint), boxes over all longitudes with latitude limits between 84 and 90 degrees, or arbitrary; oracle: lookup(c) and streams over generated boxes return the source's stored bytes exactly when c is in every zoom range and definitely inside every bbox by the independent Mercator reference (tiles on the 1e-6 guard band are don't-care), nothing otherwise, and the tiles that pass form a box per level (a tile on the guard band of one axis passes iff its column / row passes); second phase: invalid arguments (non-numeric, u8 overflow, negative, list for scalar, arity != 4, west > east, south > north, out of +-180/+-90, NaN / infinities, missing; directly behind the source or behind a valid stage that keeps everything, something or nothing) must make operation_from_vpl return Err (not Ok, not panic), valid controls must build; non-trivial = chain that removes some but not all tiles of the source",
	);
	vt::engine::watchdog(3600);
	vt::sources::MBTILES_THINNING.store(25, std::sync::atomic::Ordering::Relaxed);
	let reg: Vec<Case> = check.regression_cases("filters");
	check.enumerate("regressions", reg, false, oracle);
	check.phase("filters", check.cases(250_000, 4_000_000), strategy, oracle);
	check.phase("arguments", check.cases(40_000, 600_000), bad_strategy, bad_oracle);
	check.finish();
}

//! C01 — container round trip is lossless for every tile set and every format.
//! Generated tile sets are written with the repository's writers; the result is read back
//! (a) with the repository's reader and (b) with an independent decoder of the format.

use proptest::prelude::*;
use serde::{Deserialize, Serialize};
use vt::containers::*;
use vt::engine::{Check, Fail, Obs};
use vt::gen::{self, GenCfg};
use vt::model::{Fmt, SetSpec};
use vt::util::{Comp, TmpGuard};
use vt::{ensure_prop, fail};

#[derive(Clone, Debug, Serialize, Deserialize)]
struct Case {
	target: Target,
	spec: SetSpec,
	/// source streams through the trait's default lookup loop (small areas only)
	default_stream: bool,
	/// convert the written container once more into this format
	chain: Option<Target>,
	/// an older container of the same format (other payloads, one more level, written by the
	/// harness's encoder with this layout seed) already lies at the target path; file formats only
	#[serde(default)]
	over_existing: Option<u32>,
}

fn strategy(target: Target, big: bool) -> impl Strategy<Value = Case> {
	let mut cfg = GenCfg::small(target.pairs());
	cfg.allow_big = big;
	cfg.allow_empty_payloads = true;
	if target == Target::Dir {
		cfg.max_side = 12;
	}
	(gen::set_spec(cfg), any::<bool>(), proptest::option::weighted(0.25, 0usize..5), proptest::option::weighted(0.2, any::<u32>())).prop_map(move |(spec, default_stream, chain, over_existing)| {
		let chain = chain.map(|i| Target::ALL[i]).filter(|t| t.accepts(spec.format, spec.comp));
		Case { target, spec, default_stream, chain, over_existing: over_existing.filter(|_| target != Target::Dir) }
	})
}

fn check_container(target: Target, path: &std::path::Path, set: &vt::model::TileSet, spec: &SetSpec, obs: &mut Obs, ctx: &str, check_meta: bool) -> Result<(), Fail> {
	// (a) the repository's reader
	let reader = open_with_repo(path)?;
	let p = reader.get_parameters();
	ensure_prop!(Fmt::from_vt(p.tile_format) == spec.format, "roundtrip:format-changed", "{ctx}: declared format {:?}, source {:?}", p.tile_format, spec.format);
	ensure_prop!(Comp::from_vt(p.tile_compression) == spec.comp, "roundtrip:compression-changed", "{ctx}: declared compression {:?}, source {:?}", p.tile_compression, spec.comp);
	let probes = set.probes(2, 200);
	let n = compare_reader_with_model(reader.as_ref(), set, &probes, ctx)?;
	obs.count("lookups", n);
	coverage_contains_model(reader.as_ref(), set, ctx)?;
	drop(reader);
	// (b) the independent decoder
	let dec = decode_independent(target, path).map_err(|e| Fail::new("layout:undecodable", format!("{ctx}: independent decoder rejects the file: {e}")))?;
	compare_decoded_with_model(&dec, set, ctx)?;
	ensure_prop!(dec.format == Some(spec.format), "layout:format", "{ctx}: file declares format {:?}, source {:?}", dec.format, spec.format);
	ensure_prop!(dec.comp == Some(spec.comp), "layout:compression", "{ctx}: file declares compression {:?}, source {:?}", dec.comp, spec.comp);
	if spec.meta.is_some() && check_meta {
		let m = dec.meta.as_ref().ok_or_else(|| Fail::new("layout:meta-missing", format!("{ctx}: no metadata in the file")))?;
		let v: Result<serde_json::Value, _> = serde_json::from_slice(m);
		ensure_prop!(v.is_ok(), "layout:meta-not-json", "{ctx}: stored metadata is not JSON");
		let want: serde_json::Value = serde_json::from_str(spec.meta.as_ref().unwrap()).unwrap();
		let got = v.unwrap();
		for (k, val) in want.as_object().unwrap() {
			ensure_prop!(got.get(k) == Some(val), "layout:meta-key", "{ctx}: metadata key {k:?} is {:?}, source {:?}", got.get(k), val);
		}
	}
	// conformance remarks of the independent decoder (header counts that disagree with the
	// directories, root directory beyond the first 16 KiB, tiles outside their block's range, …):
	// files written by the repository must not give rise to any
	if let Some(n) = dec.notes.iter().find(|n| !n.starts_with("other ")) {
		fail!("layout:nonconformant", "{ctx}: the file deviates from the published layout: {n}");
	}
	Ok(())
}

fn oracle(case: &Case, obs: &mut Obs) -> Result<(), Fail> {
	let set = case.spec.materialise();
	if set.nonempty().count() == 0 {
		obs.label("skipped:no-nonempty-tile");
		return Ok(());
	}
	let path = case.target.fresh_path();
	let _g = TmpGuard(path.clone());
	let mut src = mem_reader(&set, case.default_stream);
	let mut ctx = format!("{} {:?}/{:?}", case.target.name(), case.spec.format, case.spec.comp);
	if let Some(seed) = case.over_existing {
		let mut old = case.spec.clone();
		old.tag = format!("{}-old", old.tag);
		old.pay = vt::model::Pay::CoordText;
		old.really_compressed = false;
		old.levels.push(vt::model::LevelSpec { z: 5, x0: 3, y0: 3, w: 6, h: 6, shape: vt::model::Shape::Dense, seed });
		let old_path = vt::sources::encode_fixture(&old.materialise(), case.target, seed)?;
		std::fs::rename(&old_path, &path).map_err(|e| Fail::new("harness:io", format!("{e}")))?;
		ctx.push_str(" (written over an existing, older container)");
		obs.label("target-path-held-an-older-container");
	}
	write_with_repo(&mut src, &path)?;
	check_container(case.target, &path, &set, &case.spec, obs, &ctx, case.target != Target::Mbtiles)?;

	if let Some(t2) = case.chain {
		let path2 = t2.fresh_path();
		let _g2 = TmpGuard(path2.clone());
		let mut r = open_with_repo(&path)?;
		write_with_repo(r.as_mut(), &path2)?;
		drop(r);
		let ctx2 = format!("{ctx} -> {}", t2.name());
		// empty payloads may or may not survive the first hop: they are don't-care anyway
		// MBTiles cannot carry arbitrary metadata keys (metadata is C17's subject, without mbtiles)
		check_container(t2, &path2, &set, &case.spec, obs, &ctx2, case.target != Target::Mbtiles && t2 != Target::Mbtiles)?;
		obs.label(format!("chain:{}->{}", case.target.name(), t2.name()));
	}

	obs.label(format!("target:{}", case.target.name()));
	obs.label(format!("comp:{}", case.spec.comp.name()));
	obs.label(format!("format:{:?}", case.spec.format));
	obs.label(format!("pay:{}", format!("{:?}", case.spec.pay).split([' ', '{', '(']).next().unwrap()));
	for l in &case.spec.levels {
		obs.label(format!("shape:{}", format!("{:?}", l.shape).split('(').next().unwrap()));
	}
	let n = set.tiles.len();
	obs.label(match n { 1 => "tiles=1", 2..=20 => "tiles=2..20", 21..=400 => "tiles=21..400", 401..=16384 => "tiles=401..16384", _ => "tiles>16384" });
	let border = set.crosses_block_border();
	let gap = set.has_zoom_gap();
	let dups = set.has_small_duplicates();
	let sparse = set.is_sparse();
	obs.label_if(border, "crosses-block-border");
	obs.label_if(gap, "zoom-gap");
	obs.label_if(dups, "small-duplicates");
	obs.label_if(sparse, "sparse");
	obs.label_if(set.levels().contains(&31), "level-31");
	obs.label_if(set.levels().contains(&0), "level-0");
	obs.label_if(src.default_stream, "source:default-stream");
	obs.nontrivial(set.distinct_payloads() >= 2 && (border || gap || dups || sparse || n >= 16385));
	Ok(())
}

/// pairs a target cannot express must be refused by its writer, not written as something else
#[derive(Clone, Debug, Serialize, Deserialize)]
struct RefuseCase {
	spec: SetSpec,
}

fn refuse_oracle(case: &RefuseCase, obs: &mut Obs) -> Result<(), Fail> {
	let set = case.spec.materialise();
	let path = Target::Mbtiles.fresh_path();
	let _g = TmpGuard(path.clone());
	let mut src = mem_reader(&set, false);
	match write_with_repo(&mut src, &path) {
		Err(f) if f.sig == "write:error" => {
			obs.nontrivial(true);
			obs.label(format!("refused:{:?}/{:?}", case.spec.format, case.spec.comp));
			Ok(())
		}
		Err(f) => Err(f),
		Ok(()) => {
			// accepted: then it must at least read back with the same declaration
			let r = open_with_repo(&path)?;
			let p = r.get_parameters();
			if Fmt::from_vt(p.tile_format) != case.spec.format || Comp::from_vt(p.tile_compression) != case.spec.comp {
				fail!("roundtrip:inexpressible-pair-accepted", "mbtiles writer accepted {:?}/{:?} and the file declares {:?}/{:?}", case.spec.format, case.spec.comp, p.tile_format, p.tile_compression);
			}
			Ok(())
		}
	}
}

// ---------------------------------------------------------------------------------------
// PMTiles: tile counts around the point where the root directory stops fitting into the
// first 16 KiB and leaf directories are introduced
// ---------------------------------------------------------------------------------------

#[derive(Clone, Debug, Serialize, Deserialize)]
struct RootCase {
	seed: u32,
	n: u32,
}

/// the first `n` tiles of a fixed pseudo-random sparse sequence at zoom 11 with irregular sizes
/// (a directory that compresses badly)
fn root_set(seed: u32, n: u32) -> (vt::model::TileSet, SetSpec) {
	let mut mix = vt::model::Mix::new(0x5EED ^ ((seed as u64) << 20));
	let mut tiles = std::collections::BTreeMap::new();
	let spread = 4 + (seed % 4) as u64;
	while (tiles.len() as u32) < n {
		let c = vt::model::Coord::new(11, mix.below(2048) as u32, mix.below(2048 / spread) as u32);
		let len = 1 + mix.below(if seed % 2 == 0 { 300 } else { 40 }) as usize;
		tiles.entry(c).or_insert_with(|| {
			let mut v = format!("{c}|").into_bytes();
			v.resize(len.max(v.len()), b'x');
			v
		});
	}
	let mut set = vt::model::TileSet { format: Fmt::Png, comp: Comp::None, raw: tiles.clone(), tiles, pyramid: Default::default(), meta: None };
	set.pyramid = set.all_boxes();
	let spec = SetSpec { tag: "root".into(), levels: vec![], pay: vt::model::Pay::CoordText, format: Fmt::Png, comp: Comp::None, really_compressed: false, advert: vt::model::Advert::Tight, meta: None };
	(set, spec)
}

/// length of the leaf directory section according to the header of a PMTiles file
fn leaf_section_len(path: &std::path::Path) -> Option<u64> {
	let b = std::fs::read(path).ok()?;
	if b.len() < 127 || &b[..7] != b"PMTiles" {
		return None;
	}
	Some(u64::from_le_bytes(b[48..56].try_into().ok()?))
}

fn root_oracle(case: &RootCase, obs: &mut Obs) -> Result<(), Fail> {
	let (set, spec) = root_set(case.seed, case.n);
	let path = Target::Pmtiles.fresh_path();
	let _g = TmpGuard(path.clone());
	let mut src = mem_reader(&set, false);
	write_with_repo(&mut src, &path)?;
	let leaves = leaf_section_len(&path).unwrap_or(0) > 0;
	check_container(Target::Pmtiles, &path, &set, &spec, obs, &format!("pmtiles with {} sparse tiles ({})", case.n, if leaves { "leaf directories" } else { "root directory only" }), false)?;
	obs.label(if leaves { "layout:leaf-directories" } else { "layout:root-only" });
	obs.nontrivial(true);
	Ok(())
}

/// smallest tile count of the family at which the writer introduces leaf directories
fn root_switch(seed: u32) -> Option<u32> {
	let has_leaves = |n: u32| -> Option<bool> {
		let (set, _) = root_set(seed, n);
		let path = Target::Pmtiles.fresh_path();
		let _g = TmpGuard(path.clone());
		let mut src = mem_reader(&set, false);
		write_with_repo(&mut src, &path).ok()?;
		Some(leaf_section_len(&path)? > 0)
	};
	let (mut lo, mut hi) = (200u32, 16_500u32);
	if has_leaves(lo)? || !has_leaves(hi)? {
		return None;
	}
	while hi - lo > 1 {
		let mid = (lo + hi) / 2;
		if has_leaves(mid)? {
			hi = mid;
		} else {
			lo = mid;
		}
	}
	Some(hi)
}

fn main() {
	let mut check = Check::from_args(
		"C01",
		"exploration",
		"proptest tile-set specs (1-3 levels placed at level origin / maximum / across 256-block borders, shapes dense/sparse/diamond/anti-diagonal/off-centre/corners, payload classes incl. duplicates, 998..1001-byte sizes, 70 KiB, some empty) x target format x every (format, compression) pair the target expresses x tight/loose/full advertised pyramid x optional second conversion; plus, for PMTiles, every tile count around the count at which the root directory no longer fits the first 16 KiB (families of sparse tiles with irregular sizes, switch found by bisection); oracle = lookups through the repository reader over all model tiles + probe coordinates, and an independent decoder of the written file; non-trivial = >= 2 distinct payloads and (crosses a block border | zoom gap | duplicates < 1000 bytes | >= 16385 tiles | sparse); distinct = distinct serialised cases",
	);
	check.assume("independent decoders implement DESIGN.md Appendix A; flate2, brotli, rusqlite are trusted for the generic layers");
	check.assume("empty tile sets and empty payloads are outside the asserted domain");
	check.assume("a directory target is written into a fresh directory (what writing into a directory that already holds tiles means is not stated anywhere); file targets are also written over an existing older container");
	vt::engine::watchdog(3600);
	vt::codec::pmtiles::self_test();
	for t in Target::ALL {
		let name = format!("roundtrip-{}", t.name());
		let reg: Vec<Case> = check.regression_cases(&name);
		check.enumerate(&format!("regress-{}", t.name()), reg, false, oracle);
		let n = if t == Target::Dir { check.cases(400, 6000) } else { check.cases(1500, 40_000) };
		check.phase(&name, n, || strategy(t, false), oracle);
		if t != Target::Dir {
			check.phase(&format!("big-{}", t.name()), check.cases(3, 48), || strategy(t, true).prop_filter("big", |c| c.spec.levels.iter().any(|l| l.w >= 130)), oracle);
		}
	}
	// PMTiles around the root-directory limit: every tile count from 110 below to 6 above the
	// count at which the writer switches to leaf directories (found by bisection), per family
	let mut root_cases = vec![];
	for seed in 0..check.cases(2, 12) as u32 {
		let seed = seed + 16 * check.seed as u32;
		match root_switch(seed) {
			Some(sw) => root_cases.extend((sw.saturating_sub(110)..sw + 6).map(|n| RootCase { seed, n })),
			// no switch found (writer failing or never using leaves): the extremes are still checked
			None => root_cases.extend([200u32, 3000, 16_500].map(|n| RootCase { seed, n })),
		}
	}
	check.enumerate("pmtiles-root-limit", root_cases, false, root_oracle);

	// pairs MBTiles cannot express
	let others: Vec<_> = gen::all_pairs().into_iter().filter(|(f, c)| !Target::Mbtiles.accepts(*f, *c)).collect();
	check.phase(
		"mbtiles-refuses-other-pairs",
		check.cases(104, 2000),
		|| {
			let mut cfg = GenCfg::small(others.clone());
			cfg.max_side = 3;
			cfg.max_levels = 1;
			gen::set_spec(cfg).prop_map(|spec| RefuseCase { spec })
		},
		refuse_oracle,
	);
	check.finish();
}

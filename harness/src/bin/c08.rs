//! C08 — from_overlayed returns the tile of the first listed source that has one.

use proptest::prelude::*;
use serde::{Deserialize, Serialize};
use std::collections::BTreeMap;
use versatiles_core::types::TileBBox;
use vt::engine::{Check, Fail, Obs};
use vt::model::Coord;
use vt::sources::*;
use vt::util::{self, Comp};
use vt::{ensure_prop, fail};

#[derive(Clone, Debug, Serialize, Deserialize)]
struct Case {
	root: Node,
	boxes: Vec<BoxSpec>,
}

fn strategy() -> impl Strategy<Value = Case> {
	let child = |leaf: Leaf| -> BoxedStrategy<Node> {
		let n = Node::Leaf(leaf);
		prop_oneof![
			5 => Just(n.clone()),
			1 => (proptest::option::of(0u8..20), proptest::option::of(0u8..32)).prop_map({ let n = n.clone(); move |(min, max)| Node::FilterZoom { src: Box::new(n.clone()), min, max } }),
			1 => geo_bbox().prop_map(move |bbox| Node::FilterBbox { src: Box::new(n.clone()), bbox }),
		]
		.boxed()
	};
	(overlay_leaves(None).prop_flat_map(move |leaves| leaves.into_iter().map(child).collect::<Vec<_>>()), 0u8..6, proptest::option::of(0u8..20), proptest::option::of(0u8..32), geo_bbox(), proptest::collection::vec(box_spec(), 1..5)).prop_map(
		|(children, wrap, min, max, bbox, boxes)| {
			let overlay = Node::Overlay(children);
			let root = match wrap {
				0 => Node::FilterZoom { src: Box::new(overlay), min, max },
				1 => Node::FilterBbox { src: Box::new(overlay), bbox },
				_ => overlay,
			};
			Case { root, boxes }
		},
	)
}

fn find_overlay(n: &Node) -> Option<&Node> {
	match n {
		Node::Overlay(_) => Some(n),
		Node::FilterZoom { src, .. } | Node::FilterBbox { src, .. } => find_overlay(src),
		_ => None,
	}
}

fn check_tile(ctx: &str, c: &Coord, got: Option<&Vec<u8>>, want: &Expect, comp: Comp) -> Result<(), Fail> {
	match (want, got) {
		(Expect::DontCare, _) => Ok(()),
		(Expect::Absent, None) => Ok(()),
		(Expect::Absent, Some(b)) => fail!("overlay:extra-tile", "{ctx}: {c} returns {} bytes although no source has a tile there", b.len()),
		(Expect::Exists, Some(_)) => Ok(()),
		(Expect::Raw(_) | Expect::Exists, None) => fail!("overlay:tile-missing", "{ctx}: {c} returns nothing although a source has a tile there"),
		(Expect::Raw(raw), Some(b)) => {
			let dec = util::decompress(b, comp).map_err(|e| Fail::new("overlay:not-decodable", format!("{ctx}: tile {c} does not decode with the declared compression {comp:?}: {e}")))?;
			ensure_prop!(&dec == raw, "overlay:wrong-source", "{ctx}: tile {c} decodes to {:?}, the first source that has the tile holds {:?}", String::from_utf8_lossy(&dec[..dec.len().min(60)]), String::from_utf8_lossy(&raw[..raw.len().min(60)]));
			Ok(())
		}
	}
}

fn oracle(case: &Case, obs: &mut Obs) -> Result<(), Fail> {
	let built = build_pipeline(&case.root)?;
	let model = &built.model;
	let source = Source::Op(built.op);
	let comp = source.comp();
	ensure_prop!(comp == model.comp(), "overlay:declared-compression", "declared compression {comp:?}, expected {:?} (common compression of the sources, else uncompressed)", model.comp());
	let cov = source.coverage();

	// lookups over all candidate coordinates and their neighbourhood
	let mut probes = std::collections::BTreeSet::new();
	for s in model.sets() {
		probes.extend(s.probes(1, 60));
	}
	let mut first_lacks = false;
	let mut lookups = 0u64;
	for c in &probes {
		let want = model.expect(c);
		let got = match source.lookup(c) {
			Ok(Ok(g)) => g,
			Ok(Err(e)) => fail!("overlay:lookup-error", "lookup of {c} failed: {e}"),
			Err(p) => return Err(Fail::from_panic(&format!("lookup of {c}"), &p)),
		};
		lookups += 1;
		check_tile("lookup", c, got.as_ref(), &want, comp)?;
		if got.is_some() {
			let inside = cov.get(&c.z).map(|b| c.x >= b.0 && c.x <= b.2 && c.y >= b.1 && c.y <= b.3).unwrap_or(false);
			ensure_prop!(inside, "overlay:tile-outside-coverage", "tile {c} is returned but lies outside the advertised coverage {:?}", cov.get(&c.z));
		}
	}
	obs.count("lookups", lookups);

	// streams over generated boxes
	for (i, bs) in case.boxes.iter().enumerate() {
		let bbox: TileBBox = resolve_box(bs, &cov, 40);
		let desc = format!("{bbox:?}");
		// before every second box: a consumer opens the stream over the previous box, polls it a
		// few times - ready or not - and goes away; the overlay may be in the middle of a cell
		if i % 2 == 1 {
			let prev: TileBBox = resolve_box(&case.boxes[i - 1], &cov, 40);
			match source.stream_abandon_polls(prev.clone(), 1 + (i * 3 + case.boxes.len()) % 7) {
				Ok((_, pending)) => obs.label(if pending > 0 { "abandoned-stream:while-pending" } else { "abandoned-stream:never-pending" }.to_string()),
				Err(p) => return Err(Fail::from_panic(&format!("stream over {prev:?}, dropped after a few polls"), &p)),
			}
		}
		let got = match source.stream(bbox.clone()) {
			Ok(v) => v,
			Err(p) => return Err(Fail::from_panic(&format!("stream over {desc}"), &p)),
		};
		let mut m: BTreeMap<Coord, Vec<u8>> = BTreeMap::new();
		for (c, b) in got {
			ensure_prop!(!bbox.is_empty() && bbox.contains3(&c.vt()), "overlay:stream-outside-box", "stream over {desc} delivers {c}");
			ensure_prop!(m.insert(c, b).is_none(), "overlay:stream-duplicate", "stream over {desc} delivers {c} twice");
		}
		if !bbox.is_empty() {
			for c in bbox.iter_coords().map(|c| Coord::from_vt(&c)) {
				check_tile(&format!("stream over {desc}"), &c, m.get(&c), &model.expect(&c), comp)?;
			}
		}
		obs.label(format!("box:{}", relation(&bbox, cov.get(&bbox.level))));
	}

	// coverage = union of the sources' coverages
	if let Some(Node::Overlay(children)) = find_overlay(&case.root) {
		let alone = if matches!(case.root, Node::Overlay(_)) { cov.clone() } else { Source::Op(build_pipeline(&Node::Overlay(children.clone()))?.op).coverage() };
		let mut union: BTreeMap<u8, (u32, u32, u32, u32)> = BTreeMap::new();
		for ch in children {
			let c = Source::Op(build_pipeline(ch)?.op).coverage();
			for (z, b) in c {
				let e = union.entry(z).or_insert(b);
				*e = (e.0.min(b.0), e.1.min(b.1), e.2.max(b.2), e.3.max(b.3));
			}
		}
		ensure_prop!(alone == union, "overlay:coverage-not-union", "advertised coverage {:?} differs from the union of the sources' coverages {:?}", alone, union);
	}

	// classification
	let mut l = vec![];
	case.root.labels(&mut l);
	l.into_iter().for_each(|x| obs.label(x));
	if let Some(Node::Overlay(children)) = find_overlay(&case.root) {
		let ms: Vec<MNode> = children.iter().map(|c| c.materialise()).collect();
		let mut differ = false;
		for c in &probes {
			let e: Vec<Expect> = ms.iter().map(|m| m.expect(c)).collect();
			if matches!(e[0], Expect::Absent) && e[1..].iter().any(|x| matches!(x, Expect::Raw(_))) {
				first_lacks = true;
			}
			let raws: Vec<&Vec<u8>> = e.iter().filter_map(|x| if let Expect::Raw(r) = x { Some(r) } else { None }).collect();
			if raws.len() >= 2 && raws.iter().any(|r| *r != raws[0]) {
				differ = true;
			}
		}
		let comps: std::collections::BTreeSet<Comp> = ms.iter().map(|m| m.comp()).collect();
		obs.label_if(comps.len() > 1, "mixed-compressions");
		obs.label_if(first_lacks, "later-source-fills-gap");
		obs.label_if(differ, "sources-overlap-with-different-payloads");
		obs.label(format!("sources={}", children.len()));
		obs.nontrivial(first_lacks && differ);
	}
	Ok(())
}

fn main() {
	let mut check = Check::from_args(
		"C08",
		"exploration",
		"from_overlayed over 2-4 sources (in-memory readers, containers of every format written by the repository or by the harness encoders) placed around a common anchor so that coverages overlap partially, nest or are disjoint, with different zoom ranges, mixed compressions (payloads really compressed), optional filter_zoom/filter_bbox per source and around the overlay; oracle = reference model 'first source in list order that has the tile', compared after decompressing with the declared compression, for lookups over all tile coordinates + neighbours and for streams over generated boxes (before every second box a consumer opens the stream over the previous box, polls it 1-7 times, ready or not, and drops it); declared compression = common compression or none; coverage = bounding union of the sources' coverages; non-trivial = some coordinate where the first source lacks the tile and a later one has it, and some coordinate where two sources hold different payloads",
	);
	vt::engine::watchdog(3600);
	let reg: Vec<Case> = check.regression_cases("overlays");
	check.enumerate("regressions", reg, false, oracle);
	check.phase("overlays", check.cases(6000, 150_000), strategy, oracle);
	check.finish();
}

//! C15 — tile bounding boxes and coverage pyramids behave as the sets of tiles they denote.
//!
//! Reference: `vt::boxset` (explicit coordinate sets at zoom <= 3, interval model up to zoom 31,
//! geographic tolerance bands on top of `vt::model::georef`).

use proptest::prelude::*;
use serde::{Deserialize, Serialize};
use std::collections::BTreeMap;
use versatiles_core::types::{GeoBBox, TileBBox, TileBBoxPyramid, TileCoord2, TileCoord3};
use versatiles_core::utils::TransformCoord;
use vt::boxset::{self as bs, all_specs, axis_bounds, denote, level_max, show, BoxSpec, IBox, Rect, SmallSet};
use vt::engine::{guard, Check, Fail, Obs};
use vt::model::georef;
use vt::{ensure_prop, fail};

// =======================================================================================
// laws of one box
// =======================================================================================

/// What is probed on one box. In the exhaustive phases the lists are complete for the level.
#[derive(Clone, Debug, Default)]
struct Probes {
	coords: Vec<(u32, u32)>,
	indices: Vec<u64>,
	grid_sizes: Vec<u32>,
	borders: Vec<[u32; 4]>,
	/// how many members are enumerated at most (usize::MAX = the whole box)
	enum_limit: usize,
	/// largest number of grid cells for which iter_bbox_grid is run
	cell_limit: u128,
}

#[derive(Default, Debug)]
struct Tally {
	grids_run: u64,
	grids_skipped: u64,
	index_probes: u64,
	coord_probes: u64,
}

/// explicit-set cross check of the interval model (a disagreement is a harness bug)
fn small(z: u8, m: &IBox) -> Option<SmallSet> {
	if z <= 3 {
		Some(SmallSet::of(z, m))
	} else {
		None
	}
}

/// `denote` with a context that is only formatted on failure
fn den(b: &TileBBox, z: u8, ctx: impl Fn() -> String) -> Result<IBox, Fail> {
	denote(b, z, "").map_err(|f| Fail::new(f.sig, format!("{}{}", ctx(), f.what)))
}

fn same_set(z: u8, got: &TileBBox, want: &IBox, sig: &str, ctx: impl Fn() -> String) -> Result<(), Fail> {
	let g = den(got, z, &ctx)?;
	ensure_prop!(g == *want, sig, "{}: result {got:?} denotes {}, the set model gives {}", ctx(), show(&g), show(want));
	Ok(())
}

/// number of candidate cells `iter_bbox_grid(size)` walks through (cost guard only, not an oracle)
fn grid_candidates(b: &TileBBox, size: u32) -> u128 {
	let (x0, x1, y0, y1) = (b.x_min / size, b.x_max / size, b.y_min / size, b.y_max / size);
	if x0 > x1 || y0 > y1 {
		0
	} else {
		((x1 - x0) as u128 + 1) * ((y1 - y0) as u128 + 1)
	}
}

fn unary_laws(z: u8, name: &str, b: &TileBBox, m: &IBox, p: &Probes, t: &mut Tally) -> Result<(), Fail> {
	let max = level_max(z);
	let set = small(z, m);
	let d = denote(b, z, name)?;
	ensure_prop!(d == *m, "box:construction-differs-from-set", "{name}: box {b:?} denotes {}, expected {}", show(&d), show(m));

	// emptiness, count
	ensure_prop!(b.is_empty() == m.is_none(), "box:is_empty-differs-from-set", "{name}: {b:?}.is_empty() = {}, set is {}", b.is_empty(), show(m));
	let cnt = bs::count(m);
	if let Some(s) = set {
		assert_eq!(s.len(), cnt, "harness: interval count vs explicit set");
	}
	ensure_prop!(b.count_tiles() == cnt, "box:count-differs-from-set", "{name}: {b:?}.count_tiles() = {}, set has {cnt} members", b.count_tiles());

	// enumeration: row-major, each member once
	let want = bs::enumerate_prefix(m, p.enum_limit);
	if let Some(s) = set {
		if p.enum_limit == usize::MAX {
			assert_eq!(s.members(z), want, "harness: interval enumeration vs explicit set");
		}
	}
	let take = if p.enum_limit == usize::MAX { usize::MAX } else { p.enum_limit };
	let got: Vec<TileCoord3> = b.iter_coords().take(take).collect();
	let got_into: Vec<TileCoord3> = b.clone().into_iter_coords().take(take).collect();
	for (which, got) in [("iter_coords", &got), ("into_iter_coords", &got_into)] {
		ensure_prop!(
			got.len() == want.len(),
			"box:iter_coords-differs-from-set",
			"{name}: {b:?}.{which}() yields {} coordinates (limit {}), the set has {} in that prefix",
			got.len(),
			p.enum_limit,
			want.len()
		);
		for (i, (g, w)) in got.iter().zip(want.iter()).enumerate() {
			ensure_prop!(
				g.x == w.0 && g.y == w.1 && g.z == z,
				"box:iter_coords-differs-from-set",
				"{name}: {b:?}.{which}() item {i} is {g:?}, row-major order of the set gives ({},{}) at level {z}",
				w.0,
				w.1
			);
		}
	}

	// containment and coordinate -> index
	for &(x, y) in &p.coords {
		t.coord_probes += 1;
		let inside = bs::contains(m, x, y);
		if let Some(s) = set {
			assert_eq!(s.has(z, x, y), inside, "harness: interval contains vs explicit set");
		}
		let c2 = TileCoord2::new(x, y);
		let c3 = TileCoord3::new(x, y, z).expect("harness: coord");
		ensure_prop!(b.contains2(&c2) == inside, "box:contains-differs-from-set", "{name}: {b:?}.contains2(({x},{y})) = {}, membership in {} is {inside}", !inside, show(m));
		ensure_prop!(b.contains3(&c3) == inside, "box:contains-differs-from-set", "{name}: {b:?}.contains3({c3:?}) = {}, membership in {} is {inside}", !inside, show(m));
		// a coordinate of another level is not a member
		let oz = if z == 31 { 30 } else { z + 1 };
		let other = TileCoord3::new(x, y, oz).expect("harness: coord");
		ensure_prop!(!b.contains3(&other), "box:contains-other-level", "{name}: {b:?}.contains3({other:?}) is true for a coordinate of another level");

		let want_idx = bs::index_of(m, x, y);
		let i2 = b.get_tile_index2(&c2);
		let i3 = b.get_tile_index3(&c3);
		match want_idx {
			Some(w) => {
				for (which, r) in [("get_tile_index2", &i2), ("get_tile_index3", &i3)] {
					match r {
						Ok(i) => ensure_prop!(*i as u64 == w, "box:index-differs-from-enumeration", "{name}: {b:?}.{which}(({x},{y})) = {i}, row-major position is {w}"),
						Err(e) => fail!("box:index-undefined-for-member", "{name}: {b:?}.{which}(({x},{y})) failed for a member: {e}"),
					}
				}
				// inverse direction where the index fits the u32 argument
				if w <= u32::MAX as u64 {
					match b.get_coord3_by_index(w as u32) {
						Ok(c) => ensure_prop!(c.x == x && c.y == y && c.z == z, "box:index-not-inverse", "{name}: {b:?}.get_coord3_by_index({w}) = {c:?}, but ({x},{y}) has index {w}"),
						Err(e) => fail!("box:coord-by-index-undefined", "{name}: {b:?}.get_coord3_by_index({w}) failed although ({x},{y}) has that index: {e}"),
					}
				}
			}
			None => {
				ensure_prop!(i2.is_err(), "box:index-defined-for-non-member", "{name}: {b:?}.get_tile_index2(({x},{y})) = {:?} for a non-member", i2.as_ref().ok());
				ensure_prop!(i3.is_err(), "box:index-defined-for-non-member", "{name}: {b:?}.get_tile_index3(({x},{y})) = {:?} for a non-member", i3.as_ref().ok());
			}
		}

		// include_coord = bounding union with the singleton
		let single: IBox = Some(Rect::new(x, y, x, y));
		let want_inc = bs::bounding_union(m, &single);
		if let Some(s) = set {
			let u = SmallSet(s.0 | SmallSet::bit(z, x, y));
			assert_eq!(SmallSet::of(z, &u.bounding(z)), SmallSet::of(z, &want_inc), "harness: bounding union vs explicit set");
		}
		let mut inc = b.clone();
		inc.include_coord(x, y);
		same_set(z, &inc, &want_inc, "box:include_coord-differs-from-set", || format!("{name}: {b:?}.include_coord({x},{y})"))?;
		let mut inc3 = b.clone();
		if let Err(e) = inc3.include_coord3(&c3) {
			fail!("box:include_coord-differs-from-set", "{name}: {b:?}.include_coord3({c3:?}) failed: {e}");
		}
		same_set(z, &inc3, &want_inc, "box:include_coord-differs-from-set", || format!("{name}: {b:?}.include_coord3({c3:?})"))?;
	}

	// index -> coordinate
	for &i in &p.indices {
		if i > u32::MAX as u64 {
			continue;
		}
		t.index_probes += 1;
		let want = bs::coord_at(m, i);
		let r2 = b.get_coord2_by_index(i as u32);
		let r3 = b.get_coord3_by_index(i as u32);
		match want {
			Some((x, y)) => {
				match &r2 {
					Ok(c) => ensure_prop!(c.x == x && c.y == y, "box:coord-by-index-differs-from-enumeration", "{name}: {b:?}.get_coord2_by_index({i}) = {c:?}, member {i} in row-major order is ({x},{y})"),
					Err(e) => fail!("box:coord-by-index-undefined", "{name}: {b:?}.get_coord2_by_index({i}) failed, the box has {cnt} tiles: {e}"),
				}
				match &r3 {
					Ok(c) => ensure_prop!(c.x == x && c.y == y && c.z == z, "box:coord-by-index-differs-from-enumeration", "{name}: {b:?}.get_coord3_by_index({i}) = {c:?}, member {i} in row-major order is ({x},{y})"),
					Err(e) => fail!("box:coord-by-index-undefined", "{name}: {b:?}.get_coord3_by_index({i}) failed, the box has {cnt} tiles: {e}"),
				}
				// and back
				match b.get_tile_index2(&TileCoord2::new(x, y)) {
					Ok(j) => ensure_prop!(j as u64 == i, "box:index-not-inverse", "{name}: {b:?}.get_tile_index2(({x},{y})) = {j}, but that coordinate is member {i}"),
					Err(e) => fail!("box:index-undefined-for-member", "{name}: {b:?}.get_tile_index2(({x},{y})) failed for member {i}: {e}"),
				}
			}
			None => {
				ensure_prop!(r2.is_err(), "box:coord-by-index-beyond-count", "{name}: {b:?}.get_coord2_by_index({i}) = {:?} although the box has only {cnt} tiles", r2.as_ref().ok());
				ensure_prop!(r3.is_err(), "box:coord-by-index-beyond-count", "{name}: {b:?}.get_coord3_by_index({i}) = {:?} although the box has only {cnt} tiles", r3.as_ref().ok());
			}
		}
	}

	// aligned grid = partition
	for &size in &p.grid_sizes {
		if size == 0 {
			let n = b.iter_bbox_grid(0).count();
			ensure_prop!(n == 0, "box:grid-size0-yields", "{name}: {b:?}.iter_bbox_grid(0) yields {n} boxes");
			continue;
		}
		// iter_bbox_grid materialises one candidate per aligned cell of the scaled-down fields, also
		// for an empty box whose scaled-down ranges are not empty (e.g. x 5..=3, y 0..=2^31-1 with
		// size 256); that is slow but not wrong, so the run is bounded by that number of candidates
		if bs::grid_cells(m, size).max(grid_candidates(b, size)) > p.cell_limit {
			t.grids_skipped += 1;
			continue;
		}
		t.grids_run += 1;
		let parts: Vec<TileBBox> = b.iter_bbox_grid(size).collect();
		let mut total: u128 = 0;
		let mut by_cell: BTreeMap<(u32, u32), Vec<Rect>> = BTreeMap::new();
		let mut acc = 0u64;
		for part in &parts {
			let ctx = || format!("{name}: {b:?}.iter_bbox_grid({size}) part {part:?}");
			let pm = den(part, z, ctx)?;
			let r = match pm {
				Some(r) => r,
				None => fail!("box:grid-part-empty", "{} is empty", ctx()),
			};
			ensure_prop!(bs::inter(&pm, m) == pm, "box:grid-part-outside-box", "{} is not inside the box {}", ctx(), show(m));
			ensure_prop!(
				r.x0 / size == r.x1 / size && r.y0 / size == r.y1 / size,
				"box:grid-part-crosses-cell",
				"{} does not lie within one aligned cell of edge {size}",
				ctx()
			);
			let cell = by_cell.entry((r.x0 / size, r.y0 / size)).or_default();
			for o in cell.iter() {
				ensure_prop!(!bs::overlaps(&Some(*o), &pm), "box:grid-parts-overlap", "{} overlaps the part {}", ctx(), show(&Some(*o)));
			}
			cell.push(r);
			total += bs::count(&pm) as u128;
			if set.is_some() {
				let s = SmallSet::of(z, &pm);
				ensure_prop!(acc & s.0 == 0, "box:grid-parts-overlap", "{} overlaps an earlier part", ctx());
				acc |= s.0;
			}
		}
		ensure_prop!(
			total == cnt as u128,
			"box:grid-union-differs-from-box",
			"{name}: {b:?}.iter_bbox_grid({size}) yields {} disjoint parts with {total} tiles in total, the box has {cnt}",
			parts.len()
		);
		if let Some(s) = set {
			ensure_prop!(acc == s.0, "box:grid-union-differs-from-box", "{name}: {b:?}.iter_bbox_grid({size}): the union of the parts is not the box");
		}
	}

	// y-flip and x/y swap: image of the set, involutions; empty stays empty
	{
		let want = bs::flip_y(m, z);
		if let Some(s) = set {
			assert_eq!(s.map(z, |x, y| (x, max - y)), SmallSet::of(z, &want), "harness: flip vs explicit set");
		}
		let mut f = b.clone();
		f.flip_y();
		same_set(z, &f, &want, "box:flip_y-differs-from-set", || format!("{name}: {b:?}.flip_y()"))?;
		f.flip_y();
		same_set(z, &f, m, "box:flip_y-not-involution", || format!("{name}: {b:?}.flip_y().flip_y()"))?;
		let want = bs::swap_xy(m);
		if let Some(s) = set {
			assert_eq!(s.map(z, |x, y| (y, x)), SmallSet::of(z, &want), "harness: swap vs explicit set");
		}
		let mut f = b.clone();
		f.swap_xy();
		same_set(z, &f, &want, "box:swap_xy-differs-from-set", || format!("{name}: {b:?}.swap_xy()"))?;
		f.swap_xy();
		same_set(z, &f, m, "box:swap_xy-not-involution", || format!("{name}: {b:?}.swap_xy().swap_xy()"))?;
	}

	// add_border: widen, clamped to the level; empty stays empty
	for am in &p.borders {
		let want = bs::border(m, z, *am);
		if let Some(s) = set {
			assert_eq!(s.widen(z, *am), SmallSet::of(z, &want), "harness: border vs explicit set");
		}
		let mut w = b.clone();
		w.add_border(am[0], am[1], am[2], am[3]);
		same_set(z, &w, &want, "box:add_border-differs-from-set", || format!("{name}: {b:?}.add_border({},{},{},{})", am[0], am[1], am[2], am[3]))?;
	}

	// operations between levels are refused (documented)
	{
		let oz = if z == 31 { 30 } else { z + 1 };
		let other = TileBBox::new_full(oz).expect("harness: new_full");
		let mut c = b.clone();
		ensure_prop!(c.intersect_bbox(&other).is_err(), "box:level-mismatch-accepted", "{name}: {b:?}.intersect_bbox(level {oz}) is Ok");
		let mut c = b.clone();
		ensure_prop!(c.include_bbox(&other).is_err(), "box:level-mismatch-accepted", "{name}: {b:?}.include_bbox(level {oz}) is Ok");
		ensure_prop!(b.overlaps_bbox(&other).is_err(), "box:level-mismatch-accepted", "{name}: {b:?}.overlaps_bbox(level {oz}) is Ok");
		let c3 = TileCoord3::new(0, 0, oz).expect("harness: coord");
		let mut c = b.clone();
		ensure_prop!(c.include_coord3(&c3).is_err(), "box:level-mismatch-accepted", "{name}: {b:?}.include_coord3({c3:?}) is Ok");
	}
	Ok(())
}

// =======================================================================================
// laws of two boxes of one level
// =======================================================================================

fn binary_laws(z: u8, a: &TileBBox, ma: &IBox, b: &TileBBox, mb: &IBox) -> Result<TileBBox, Fail> {
	let sets = small(z, ma).zip(small(z, mb));

	let want = bs::inter(ma, mb);
	if let Some((sa, sb)) = sets {
		assert_eq!(SmallSet(sa.0 & sb.0), SmallSet::of(z, &want), "harness: interval intersection vs explicit sets");
	}
	let mut i = a.clone();
	if let Err(e) = i.intersect_bbox(b) {
		fail!("box:intersect-differs-from-set", "{a:?}.intersect_bbox({b:?}) failed: {e}");
	}
	same_set(z, &i, &want, "box:intersect-differs-from-set", || format!("{a:?}.intersect_bbox({b:?})"))?;

	let want_u = bs::bounding_union(ma, mb);
	if let Some((sa, sb)) = sets {
		assert_eq!(SmallSet::of(z, &SmallSet(sa.0 | sb.0).bounding(z)), SmallSet::of(z, &want_u), "harness: bounding union vs explicit sets");
	}
	let mut u = a.clone();
	if let Err(e) = u.include_bbox(b) {
		fail!("box:include_bbox-differs-from-set", "{a:?}.include_bbox({b:?}) failed: {e}");
	}
	same_set(z, &u, &want_u, "box:include_bbox-differs-from-set", || format!("{a:?}.include_bbox({b:?})"))?;

	let want_o = bs::overlaps(ma, mb);
	if let Some((sa, sb)) = sets {
		assert_eq!(sa.0 & sb.0 != 0, want_o, "harness: overlap vs explicit sets");
	}
	match a.overlaps_bbox(b) {
		Ok(o) => ensure_prop!(o == want_o, "box:overlaps-differs-from-set", "{a:?}.overlaps_bbox({b:?}) = {o}, the sets {} and {} {}", show(ma), show(mb), if want_o { "share a tile" } else { "are disjoint" }),
		Err(e) => fail!("box:overlaps-differs-from-set", "{a:?}.overlaps_bbox({b:?}) failed: {e}"),
	}
	Ok(i)
}

/// probes that are cheap enough to run on every derived box of the pair phase
fn lite_probes(z: u8) -> Probes {
	let max = level_max(z);
	Probes {
		coords: vec![(0, 0), (max, max), (max / 2, max.min(1))],
		indices: vec![0, 1, u32::MAX as u64],
		grid_sizes: vec![0, 1, 2, 3, 256, u32::MAX],
		borders: vec![[1, 1, 1, 1], [u32::MAX, 0, 0, u32::MAX]],
		enum_limit: 64,
		cell_limit: 4096,
	}
}

// =======================================================================================
// labels
// =======================================================================================

fn zoom_labels(z: u8, obs: &mut Obs) {
	obs.label_if(z == 0, "zoom=0");
	obs.label_if(z >= 17, "zoom>=17");
	obs.label_if(z == 31, "zoom=31");
}

// =======================================================================================
// phase: exhaustive, one box (z <= 3)
// =======================================================================================

#[derive(Clone, Debug, Serialize, Deserialize)]
struct SmallCase {
	z: u8,
	b: BoxSpec,
}

const SPECIAL_GRID: [u32; 5] = [255, 256, 257, 1 << 31, u32::MAX];

fn full_probes(z: u8, m: &IBox) -> Probes {
	let n = 1u32 << z;
	let mut coords = vec![];
	for y in 0..n {
		for x in 0..n {
			coords.push((x, y));
		}
	}
	let cnt = bs::count(m);
	let mut indices: Vec<u64> = (0..cnt + 3).collect();
	indices.extend([255, 256, 65535, 65536, (1 << 31) - 1, 1 << 31, u32::MAX as u64 - 1, u32::MAX as u64]);
	let mut grid_sizes: Vec<u32> = (0..=10).collect();
	grid_sizes.extend(SPECIAL_GRID);
	let vals = [0u32, 1, 2, u32::MAX];
	let mut borders = vec![];
	for a in vals {
		for b in vals {
			for c in vals {
				for d in vals {
					borders.push([a, b, c, d]);
				}
			}
		}
	}
	borders.push([3, 5, 7, 1 << 31]);
	Probes { coords, indices, grid_sizes, borders, enum_limit: usize::MAX, cell_limit: u128::MAX }
}

fn small_cases() -> Vec<SmallCase> {
	let mut v = vec![];
	for z in 0..=3u8 {
		for b in all_specs(z) {
			v.push(SmallCase { z, b });
		}
	}
	v
}

fn small_oracle(case: &SmallCase, obs: &mut Obs) -> Result<(), Fail> {
	let z = case.z;
	assert!(z <= 3, "harness: exhaustive phase is for z <= 3");
	let m = case.b.model();
	let b = case.b.build(z);
	let p = full_probes(z, &m);
	let mut t = Tally::default();
	unary_laws(z, &format!("{:?}@{z}", case.b), &b, &m, &p, &mut t)?;
	// tile-aligned geographic round trip (non-empty boxes only)
	if let Some(r) = m {
		roundtrip(z, &r)?;
	}
	obs.label(format!("level={z}"));
	match case.b {
		BoxSpec::EmptyNew => obs.label("empty-operand:new_empty"),
		BoxSpec::EmptySet => obs.label("empty-operand:set_empty"),
		BoxSpec::Rect(..) => {}
	}
	obs.label_if(m.is_none(), "empty-operand");
	obs.label_if(bs::has_border_coord(z, &m), "border-coordinate");
	obs.label_if(bs::count(&m) == 1, "single-tile");
	obs.label_if(m == Some(Rect::new(0, 0, level_max(z), level_max(z))), "full-level");
	obs.nontrivial(m.is_none() || bs::has_border_coord(z, &m));
	obs.count("grids", t.grids_run);
	obs.count("coordinate-probes", t.coord_probes);
	obs.count("index-probes", t.index_probes);
	obs.count("border-probes", p.borders.len() as u64);
	Ok(())
}

// =======================================================================================
// phase: exhaustive, pairs of boxes (z <= 3); one case = one row
// =======================================================================================

#[derive(Clone, Debug, Serialize, Deserialize)]
struct PairRow {
	z: u8,
	a: BoxSpec,
}

fn pair_rows(zmax: u8) -> Vec<PairRow> {
	let mut v = vec![];
	for z in 0..=zmax {
		for a in all_specs(z) {
			v.push(PairRow { z, a });
		}
	}
	v
}

fn pair_oracle(case: &PairRow, obs: &mut Obs) -> Result<(), Fail> {
	let z = case.z;
	assert!(z <= 3, "harness: exhaustive phase is for z <= 3");
	let ma = case.a.model();
	let a = case.a.build(z);
	let lite = lite_probes(z);
	let (mut pairs, mut with_empty, mut partial, mut disjoint, mut nested, mut derived) = (0u64, 0u64, 0u64, 0u64, 0u64, 0u64);
	let mut t = Tally::default();
	for spec_b in all_specs(z) {
		let mb = spec_b.model();
		let b = spec_b.build(z);
		pairs += 1;
		let i = binary_laws(z, &a, &ma, &b, &mb)?;
		let mi = bs::inter(&ma, &mb);
		if ma.is_none() || mb.is_none() {
			with_empty += 1;
		} else if mi.is_none() {
			disjoint += 1;
		} else if bs::partial_overlap(&ma, &mb) {
			partial += 1;
		} else {
			nested += 1;
		}
		// the result of an operation is a box like any other: use it as an operand again
		if mi.is_none() {
			derived += 1;
			let name = format!("({a:?} ∩ {b:?})");
			unary_laws(z, &name, &i, &None, &lite, &mut t)?;
			binary_laws(z, &i, &None, &a, &ma)?;
			binary_laws(z, &a, &ma, &i, &None)?;
			binary_laws(z, &b, &mb, &i, &None)?;
			binary_laws(z, &i, &None, &i, &None)?;
		} else {
			// absorption: (A ∩ B) ∪bound A = A as sets, through the code under test
			binary_laws(z, &i, &mi, &a, &ma)?;
			binary_laws(z, &b, &mb, &i, &mi)?;
		}
	}
	obs.label(format!("level={z}"));
	obs.label_if(ma.is_none(), "empty-operand(A)");
	obs.label_if(bs::has_border_coord(z, &ma), "border-coordinate");
	obs.label_if(partial > 0, "partial-overlap");
	obs.nontrivial(with_empty > 0 || partial > 0 || bs::has_border_coord(z, &ma));
	obs.count("pairs", pairs);
	obs.count("pairs:empty-operand", with_empty);
	obs.count("pairs:partial-overlap", partial);
	obs.count("pairs:disjoint", disjoint);
	obs.count("pairs:nested-or-equal", nested);
	obs.count("derived-empty-operands", derived);
	Ok(())
}

// =======================================================================================
// geographic laws
// =======================================================================================

const MERCATOR_LAT: f64 = 85.051_128_779_806_6;

/// `from_geo(as_geo_bbox(b)) = b` for a non-empty box
fn roundtrip(z: u8, r: &Rect) -> Result<GeoBBox, Fail> {
	let b = TileBBox::new(z, r.x0, r.y0, r.x1, r.y1).expect("harness: rect must be valid");
	let geo = match guard(|| b.as_geo_bbox()) {
		Ok(g) => g,
		Err(p) => return Err(Fail::from_panic(&format!("{b:?}.as_geo_bbox()"), &p)),
	};
	let back = match guard(|| TileBBox::from_geo(z, &geo)) {
		Ok(Ok(t)) => t,
		Ok(Err(e)) => fail!("geo:roundtrip-rejected", "{b:?}.as_geo_bbox() = {geo:?}; from_geo({z}, ..) failed: {e}"),
		Err(p) => return Err(Fail::from_panic(&format!("from_geo({z}, {geo:?})"), &p)),
	};
	let d = denote(&back, z, &format!("from_geo({z}, {geo:?})"))?;
	// one class per cause: from zoom 30 on the latitude of a tile edge near the Mercator limit is
	// not representable in f64 within the 1e-6 tile guard
	let sig = if z >= 30 { "geo:roundtrip-differs-at-zoom>=30" } else { "geo:roundtrip-differs" };
	ensure_prop!(d == Some(*r), sig, "{b:?}.as_geo_bbox() = {geo:?}; from_geo({z}, ..) = {back:?} instead of the same box");
	Ok(geo)
}

fn valid_geo(g: &[f64; 4]) -> bool {
	g.iter().all(|v| v.is_finite()) && g[0] >= -180.0 && g[2] <= 180.0 && g[1] >= -90.0 && g[3] <= 90.0 && g[0] <= g[2] && g[1] <= g[3]
}

/// Every valid geographic box maps, at level z, to a non-empty tile box that contains every
/// definitely-inside tile and no definitely-outside tile. Returns the box as a set.
fn geo_cover(z: u8, g: &[f64; 4]) -> Result<Rect, Fail> {
	let geo = GeoBBox(g[0], g[1], g[2], g[3]);
	let t = match guard(|| TileBBox::from_geo(z, &geo)) {
		Ok(Ok(t)) => t,
		Ok(Err(e)) => fail!("geo:valid-box-rejected", "from_geo({z}, {geo:?}) failed for a valid geographic box: {e}"),
		Err(p) => return Err(Fail::from_panic(&format!("from_geo({z}, {geo:?})"), &p)),
	};
	let ctx = format!("from_geo({z}, {geo:?})");
	let r = match denote(&t, z, &ctx)? {
		Some(r) => r,
		None => fail!("geo:empty-result", "{ctx} = {t:?} is empty"),
	};
	ensure_prop!(!t.is_empty(), "geo:empty-result", "{ctx} = {t:?} reports is_empty()");
	let (ax, bx) = (georef::tx(g[0], z), georef::tx(g[2], z));
	let (ay, by) = (georef::ty(g[3], z), georef::ty(g[1], z));
	for (axis, lo, hi, a, b) in [("x", r.x0, r.x1, ax, bx), ("y", r.y0, r.y1, ay, by)] {
		let ab = axis_bounds(z, a, b);
		if let Some((m0, m1)) = ab.must {
			ensure_prop!(
				lo <= m0 && hi >= m1,
				"geo:box-does-not-cover",
				"{ctx} = {t:?}: {axis} range {lo}..={hi} misses tiles of {m0}..={m1}, which lie inside the geographic interval (tile units {a}..{b}) by more than the tolerance"
			);
		}
		ensure_prop!(
			lo >= ab.allow.0 && hi <= ab.allow.1,
			"geo:box-exceeds",
			"{ctx} = {t:?}: {axis} range {lo}..={hi} contains tiles outside {}..={}, i.e. farther than the tolerance from the geographic interval (tile units {a}..{b})",
			ab.allow.0,
			ab.allow.1
		);
		// the same statement tile by tile with the shared reference, where that is cheap
		if z <= 5 {
			let (a, b) = (a.min(b), a.max(b));
			for tile in 0..=level_max(z) {
				let inside = lo <= tile && tile <= hi;
				match georef::classify(tile, a, b, z) {
					georef::Cls::In => ensure_prop!(inside, "geo:box-does-not-cover", "{ctx} = {t:?}: {axis} tile {tile} is definitely inside (tile units {a}..{b}) but not in the box"),
					georef::Cls::Out => ensure_prop!(!inside, "geo:box-exceeds", "{ctx} = {t:?}: {axis} tile {tile} is definitely outside (tile units {a}..{b}) but in the box"),
					georef::Cls::Boundary => {}
				}
			}
		}
	}
	Ok(r)
}

/// all levels + the pyramid constructors that go through from_geo
fn geo_laws(g: &[f64; 4], zmin: u8, zmax: u8) -> Result<(), Fail> {
	assert!(valid_geo(g), "harness: generated geographic box {g:?} is not valid");
	assert!(zmin <= zmax && zmax <= 31, "harness: zoom range");
	let geo = GeoBBox(g[0], g[1], g[2], g[3]);
	let mut per_level: Vec<Rect> = vec![];
	for z in 0..=31u8 {
		per_level.push(geo_cover(z, g)?);
	}
	let p = match guard(|| TileBBoxPyramid::from_geo_bbox(zmin, zmax, &geo)) {
		Ok(p) => p,
		Err(pi) => return Err(Fail::from_panic(&format!("TileBBoxPyramid::from_geo_bbox({zmin}, {zmax}, {geo:?})"), &pi)),
	};
	let mut q = TileBBoxPyramid::new_full(zmax);
	q.set_zoom_min(zmin);
	if let Err(pi) = guard(|| q.intersect_geo_bbox(&geo)) {
		return Err(Fail::from_panic(&format!("intersect_geo_bbox({geo:?})"), &pi));
	}
	let mut f = TileBBoxPyramid::new_full(31);
	if let Err(pi) = guard(|| f.intersect_geo_bbox(&geo)) {
		return Err(Fail::from_panic(&format!("intersect_geo_bbox({geo:?})"), &pi));
	}
	// a pyramid whose occupied levels are not contiguous (levels emptied by a mask derived from the
	// zoom range): every occupied level must be intersected, whatever lies between
	let gone = |z: u8| (z as u32 * 7 + zmin as u32 * 3 + zmax as u32) % 3 == 0;
	let mut h = TileBBoxPyramid::new_full(31);
	for z in 0..=31u8 {
		if gone(z) {
			h.set_level_bbox(TileBBox::new_empty(z).unwrap());
		}
	}
	if let Err(pi) = guard(|| h.intersect_geo_bbox(&geo)) {
		return Err(Fail::from_panic(&format!("intersect_geo_bbox({geo:?}) on a pyramid with gaps"), &pi));
	}
	for z in 0..=31u8 {
		let want_h: IBox = if gone(z) { None } else { Some(per_level[z as usize]) };
		same_set(z, h.get_level_bbox(z), &want_h, "pyramid:intersect_geo_bbox-differs-from-per-level", || format!("(full pyramid without the levels {:?}).intersect_geo_bbox({geo:?}) level {z}", (0..=31u8).filter(|z| gone(*z)).collect::<Vec<_>>()))?;
	}
	for z in 0..=31u8 {
		let inside = zmin <= z && z <= zmax;
		let want: IBox = if inside { Some(per_level[z as usize]) } else { None };
		same_set(z, p.get_level_bbox(z), &want, "pyramid:from_geo_bbox-differs-from-per-level", || format!("from_geo_bbox({zmin}, {zmax}, {geo:?}) level {z}"))?;
		same_set(z, q.get_level_bbox(z), &want, "pyramid:intersect_geo_bbox-differs-from-per-level", || format!("full({zmin}..={zmax}).intersect_geo_bbox({geo:?}) level {z}"))?;
		same_set(z, f.get_level_bbox(z), &Some(per_level[z as usize]), "pyramid:intersect_geo_bbox-differs-from-per-level", || format!("full(0..=31).intersect_geo_bbox({geo:?}) level {z}"))?;
	}
	Ok(())
}

fn geo_labels(g: &[f64; 4], obs: &mut Obs) -> bool {
	let zero = g[0] == g[2] || g[1] == g[3];
	let beyond = g[1].abs() > MERCATOR_LAT || g[3].abs() > MERCATOR_LAT;
	let world = g[0] == -180.0 || g[2] == 180.0 || g[1] == -90.0 || g[3] == 90.0;
	let tiny = !zero && ((g[2] - g[0]) < 1e-6 || (g[3] - g[1]) < 1e-6);
	let mut edge = false;
	for z in [0u8, 1, 2, 4, 8, 16] {
		edge |= bs::on_tile_edge(georef::tx(g[0], z)) || bs::on_tile_edge(georef::tx(g[2], z));
		if g[1].abs() <= MERCATOR_LAT {
			edge |= bs::on_tile_edge(georef::ty(g[1], z));
		}
		if g[3].abs() <= MERCATOR_LAT {
			edge |= bs::on_tile_edge(georef::ty(g[3], z));
		}
	}
	obs.label_if(zero, "geo:zero-area");
	obs.label_if(g[0] == g[2] && g[1] == g[3], "geo:point");
	obs.label_if(beyond, "geo:beyond-mercator");
	obs.label_if(world, "geo:world-bound");
	obs.label_if(tiny, "geo:tiny");
	obs.label_if(edge, "geo:on-tile-edge");
	obs.label_if(zero && edge, "geo:zero-area-on-tile-edge");
	obs.label_if(!(zero || beyond || world || tiny || edge), "geo:plain");
	zero || beyond || world || tiny || edge
}

#[derive(Clone, Debug, Serialize, Deserialize)]
enum GeoCase {
	/// west, south, east, north; zoom range for the pyramid constructors
	Raw { g: [f64; 4], zmin: u8, zmax: u8 },
	/// the geographic bounds of a tile box
	Aligned { z: u8, r: Rect },
}

fn geo_oracle(case: &GeoCase, obs: &mut Obs) -> Result<(), Fail> {
	match case {
		GeoCase::Raw { g, zmin, zmax } => {
			geo_laws(g, *zmin, *zmax)?;
			let nt = geo_labels(g, obs);
			obs.nontrivial(nt);
		}
		GeoCase::Aligned { z, r } => {
			let geo = roundtrip(*z, r)?;
			let g = [geo.0, geo.1, geo.2, geo.3];
			ensure_prop!(valid_geo(&g), "geo:as_geo_bbox-invalid", "as_geo_bbox of {r:?} at level {z} = {geo:?} is not a valid geographic box");
			geo_laws(&g, (*z).min(3), *z)?;
			obs.label("geo:tile-aligned");
			zoom_labels(*z, obs);
			obs.label_if(bs::has_border_coord(*z, &Some(*r)), "border-coordinate");
			obs.label_if(r.x0 == r.x1 && r.y0 == r.y1, "single-tile");
			obs.nontrivial(true);
		}
	}
	obs.count("from_geo-evaluations", 32);
	Ok(())
}

/// hand-picked geographic boxes: all combinations of special longitudes and latitudes
fn geo_special_cases() -> Vec<GeoCase> {
	let lons = [-180.0, -179.999_999_9, -135.0, -90.0, -1e-7, 0.0, 1e-7, 11.25, 90.0, 179.999_999_9, 180.0];
	let lats = [
		-90.0,
		-89.999_999,
		-MERCATOR_LAT - 1e-9,
		-MERCATOR_LAT,
		-66.513_260_443_111_86,
		-1e-7,
		0.0,
		1e-7,
		40.979_898_069_620_13,
		66.513_260_443_111_86,
		MERCATOR_LAT,
		MERCATOR_LAT + 1e-9,
		89.999_999,
		90.0,
	];
	let mut v = vec![];
	let mut k = 0u32;
	for (i, w) in lons.iter().enumerate() {
		for e in &lons[i..] {
			for (j, s) in lats.iter().enumerate() {
				for n in &lats[j..] {
					k += 1;
					let zmin = (k % 7) as u8;
					let zmax = zmin + (k % 25) as u8;
					v.push(GeoCase::Raw { g: [*w, *s, *e, *n], zmin, zmax });
				}
			}
		}
	}
	v
}

// =======================================================================================
// generators
// =======================================================================================

fn zoom_strategy() -> impl Strategy<Value = u8> {
	prop_oneof![
		4 => 0u8..=31,
		2 => 16u8..=31,
		1 => Just(31u8),
		1 => Just(0u8),
		1 => 7u8..=9,
	]
}

/// a coordinate of level z, biased to 0, 1, 2^z-2, 2^z-1 and multiples of 256 (+-1)
fn coord_strategy(z: u8) -> BoxedStrategy<u32> {
	let max = level_max(z);
	prop_oneof![
		2 => Just(0u32),
		1 => Just(1u32.min(max)),
		1 => Just(max.saturating_sub(1)),
		2 => Just(max),
		3 => (0..=(max / 256), -1i64..=1).prop_map(move |(k, d)| (k as i64 * 256 + d).clamp(0, max as i64) as u32),
		3 => 0..=max,
	]
	.boxed()
}

fn offset_strategy() -> impl Strategy<Value = i64> {
	prop_oneof![
		4 => -2i64..=2,
		2 => -40i64..=40,
		1 => -700i64..=700,
		1 => -70_000i64..=70_000,
	]
}

fn shifted(z: u8, c: u32, d: i64) -> u32 {
	(c as i64 + d).clamp(0, level_max(z) as i64) as u32
}

/// two boxes of one level whose edges come from a small pool of coordinates, so that touching,
/// nested, partially overlapping and disjoint pairs all occur at every zoom
fn box_pair_strategy(z: u8) -> impl Strategy<Value = (BoxSpec, BoxSpec)> {
	let pool = proptest::collection::vec(coord_strategy(z), 3);
	let edge = || (0usize..3, offset_strategy());
	let kind = || prop_oneof![10 => Just(0u8), 1 => Just(1u8), 1 => Just(2u8), 1 => Just(3u8), 1 => Just(4u8)];
	(pool.clone(), pool, [edge(), edge(), edge(), edge()], [edge(), edge(), edge(), edge()], kind(), kind()).prop_map(move |(px, py, ea, eb, ka, kb)| {
		let mk = |e: &[(usize, i64); 4], kind: u8| -> BoxSpec {
			let xa = shifted(z, px[e[0].0], e[0].1);
			let xb = shifted(z, px[e[1].0], e[1].1);
			let ya = shifted(z, py[e[2].0], e[2].1);
			let yb = shifted(z, py[e[3].0], e[3].1);
			match kind {
				1 => BoxSpec::EmptyNew,
				2 => BoxSpec::EmptySet,
				3 => BoxSpec::Rect(0, 0, level_max(z), level_max(z)),
				4 => BoxSpec::Rect(xa, ya, xa, ya),
				_ => BoxSpec::Rect(xa.min(xb), ya.min(yb), xa.max(xb), ya.max(yb)),
			}
		};
		(mk(&ea, ka), mk(&eb, kb))
	})
}

fn grid_size_strategy() -> impl Strategy<Value = u32> {
	prop_oneof![
		4 => 1u32..=10,
		1 => Just(0u32),
		3 => prop_oneof![Just(255u32), Just(256u32), Just(257u32)],
		2 => prop_oneof![Just(1u32 << 31), Just(u32::MAX)],
		3 => (0u32..=31).prop_map(|k| 1u32 << k),
		2 => (0u32..=31, 0u32..=2).prop_map(|(k, d)| ((1u64 << k) + d as u64 - 1).clamp(1, u32::MAX as u64) as u32),
		1 => 1u32..=u32::MAX,
	]
}

fn border_amount_strategy() -> impl Strategy<Value = u32> {
	prop_oneof![
		3 => Just(0u32),
		3 => 1u32..=3,
		2 => 250u32..=260,
		2 => Just(u32::MAX),
		1 => Just(1u32 << 31),
		1 => Just((1u32 << 31) - 1),
		2 => any::<u32>(),
	]
}

// =======================================================================================
// phase: sampled boxes up to zoom 31 (interval model)
// =======================================================================================

#[derive(Clone, Debug, Serialize, Deserialize)]
struct BoxCase {
	z: u8,
	a: BoxSpec,
	b: BoxSpec,
	/// probe coordinates of level z (more are derived from the corners of the boxes)
	coords: Vec<(u32, u32)>,
	/// index selectors, scaled into 0..min(count, 2^32)
	idx: Vec<u32>,
	grid: Vec<u32>,
	borders: Vec<[u32; 4]>,
}

fn box_case_strategy() -> impl Strategy<Value = BoxCase> {
	zoom_strategy().prop_flat_map(|z| {
		(
			box_pair_strategy(z),
			proptest::collection::vec((coord_strategy(z), coord_strategy(z)), 0..4),
			proptest::collection::vec(any::<u32>(), 0..4),
			proptest::collection::vec(grid_size_strategy(), 1..4),
			proptest::collection::vec([border_amount_strategy(), border_amount_strategy(), border_amount_strategy(), border_amount_strategy()], 1..3),
		)
			.prop_map(move |((a, b), coords, idx, grid, borders)| BoxCase { z, a, b, coords, idx, grid, borders })
	})
}

/// probes of one box: generated ones + corners, their neighbours, first/last index, row ends
fn derived_probes(z: u8, case: &BoxCase, m: &IBox, others: &[IBox]) -> Probes {
	let max = level_max(z) as i64;
	let mut coords = case.coords.clone();
	for o in std::iter::once(m).chain(others.iter()) {
		if let Some(r) = o {
			for (x, y) in [(r.x0, r.y0), (r.x1, r.y0), (r.x0, r.y1), (r.x1, r.y1)] {
				for (dx, dy) in [(0i64, 0i64), (-1, 0), (1, 0), (0, -1), (0, 1)] {
					let (xx, yy) = (x as i64 + dx, y as i64 + dy);
					if xx >= 0 && xx <= max && yy >= 0 && yy <= max {
						coords.push((xx as u32, yy as u32));
					}
				}
			}
		}
	}
	coords.sort();
	coords.dedup();
	let cnt = bs::count(m);
	let lim = cnt.min(1u64 << 32);
	let mut indices = vec![];
	if let Some(r) = m {
		let w = r.width();
		indices.extend([0, lim - 1, w - 1, w, w.saturating_mul(r.height() - 1), lim / 2]);
		for s in &case.idx {
			indices.push(((*s as u128 * lim as u128) >> 32) as u64);
		}
	}
	// beyond the count (only expressible while the count fits the u32 argument)
	indices.extend([cnt, cnt.saturating_add(1), u32::MAX as u64]);
	indices.retain(|i| *i <= u32::MAX as u64);
	indices.sort();
	indices.dedup();
	Probes { coords, indices, grid_sizes: case.grid.clone(), borders: case.borders.clone(), enum_limit: 300, cell_limit: 4096 }
}

fn box_oracle(case: &BoxCase, obs: &mut Obs) -> Result<(), Fail> {
	let z = case.z;
	let (ma, mb) = (case.a.model(), case.b.model());
	let (a, b) = (case.a.build(z), case.b.build(z));
	let mut t = Tally::default();

	let i = binary_laws(z, &a, &ma, &b, &mb)?;
	let i2 = binary_laws(z, &b, &mb, &a, &ma)?;
	let mi = bs::inter(&ma, &mb);
	// self-operations
	binary_laws(z, &a, &ma, &a, &ma)?;

	unary_laws(z, "A", &a, &ma, &derived_probes(z, case, &ma, &[mb]), &mut t)?;
	unary_laws(z, "B", &b, &mb, &derived_probes(z, case, &mb, &[ma]), &mut t)?;
	// results are boxes like any other
	unary_laws(z, "A∩B", &i, &mi, &derived_probes(z, case, &mi, &[ma]), &mut t)?;
	unary_laws(z, "B∩A", &i2, &mi, &derived_probes(z, case, &mi, &[]), &mut t)?;
	binary_laws(z, &i, &mi, &a, &ma)?;
	binary_laws(z, &b, &mb, &i, &mi)?;
	let mut u = a.clone();
	u.include_bbox(&b).map_err(|e| Fail::new("box:include_bbox-differs-from-set", format!("{a:?}.include_bbox({b:?}) failed: {e}")))?;
	let mu = bs::bounding_union(&ma, &mb);
	unary_laws(z, "A∪B", &u, &mu, &derived_probes(z, case, &mu, &[]), &mut t)?;

	let empty = ma.is_none() || mb.is_none();
	let border = bs::has_border_coord(z, &ma) || bs::has_border_coord(z, &mb);
	let partial = bs::partial_overlap(&ma, &mb);
	zoom_labels(z, obs);
	obs.label_if(empty, "empty-operand");
	obs.label_if(matches!(case.a, BoxSpec::EmptyNew) || matches!(case.b, BoxSpec::EmptyNew), "empty-operand:new_empty");
	obs.label_if(matches!(case.a, BoxSpec::EmptySet) || matches!(case.b, BoxSpec::EmptySet), "empty-operand:set_empty");
	obs.label_if(border, "border-coordinate");
	obs.label_if(partial, "partial-overlap");
	obs.label_if(!empty && mi.is_none(), "disjoint");
	obs.label_if(!empty && mi.is_some() && !partial, "nested-or-equal");
	obs.label_if(bs::count(&ma).max(bs::count(&mb)) >= 1 << 32, "count>=2^32");
	obs.label_if(ma.map(|r| r.x0 / 256 != r.x1 / 256 || r.y0 / 256 != r.y1 / 256).unwrap_or(false), "crosses-256-border");
	obs.label_if(t.grids_run > 0, "grid-run");
	obs.label_if(t.grids_skipped > 0, "grid-skipped(too many cells)");
	obs.nontrivial(empty || border || partial);
	obs.count("grids", t.grids_run);
	obs.count("coordinate-probes", t.coord_probes);
	obs.count("index-probes", t.index_probes);
	Ok(())
}

// =======================================================================================
// phase: pyramids = per-level application
// =======================================================================================

#[derive(Clone, Debug, Serialize, Deserialize)]
enum Base {
	Empty,
	Full(u8),
}

#[derive(Clone, Debug, Serialize, Deserialize)]
struct PyrSpec {
	base: Base,
	/// `set_level_bbox` of each, in order
	levels: Vec<(u8, BoxSpec)>,
}

#[derive(Clone, Debug, Serialize, Deserialize)]
enum PyrOp {
	Intersect,
	IncludePyramid,
	IncludeBBox(u8, BoxSpec),
	IncludeCoord(u8, u32, u32),
	SetLevel(u8, BoxSpec),
	SetZoomMin(u8),
	SetZoomMax(u8),
	AddBorder([u32; 4]),
	FlipY,
	SwapXY,
}

#[derive(Clone, Debug, Serialize, Deserialize)]
struct PyrCase {
	p: PyrSpec,
	q: PyrSpec,
	ops: Vec<PyrOp>,
	probes: Vec<(u8, u32, u32)>,
}

fn level_strategy() -> impl Strategy<Value = u8> {
	prop_oneof![3 => Just(0u8), 2 => Just(31u8), 2 => 0u8..=4, 1 => 29u8..=31, 6 => 0u8..=31]
}

fn level_box_strategy() -> impl Strategy<Value = (u8, BoxSpec)> {
	level_strategy().prop_flat_map(|z| box_pair_strategy(z).prop_map(move |(a, _)| (z, a)))
}

fn level_coord_strategy() -> impl Strategy<Value = (u8, u32, u32)> {
	level_strategy().prop_flat_map(|z| (Just(z), coord_strategy(z), coord_strategy(z)))
}

fn pyr_spec_strategy() -> impl Strategy<Value = PyrSpec> {
	let base = prop_oneof![3 => Just(Base::Empty), 1 => (0u8..=31).prop_map(Base::Full), 1 => (0u8..=5).prop_map(Base::Full)];
	(base, proptest::collection::vec(level_box_strategy(), 0..8)).prop_map(|(base, levels)| PyrSpec { base, levels })
}

fn pyr_op_strategy() -> impl Strategy<Value = PyrOp> {
	let amounts = || [border_amount_strategy(), border_amount_strategy(), border_amount_strategy(), border_amount_strategy()];
	prop_oneof![
		3 => Just(PyrOp::Intersect),
		2 => Just(PyrOp::IncludePyramid),
		3 => level_box_strategy().prop_map(|(z, b)| PyrOp::IncludeBBox(z, b)),
		3 => level_coord_strategy().prop_map(|(z, x, y)| PyrOp::IncludeCoord(z, x, y)),
		1 => level_box_strategy().prop_map(|(z, b)| PyrOp::SetLevel(z, b)),
		1 => prop_oneof![0u8..=33, Just(0u8), Just(255u8)].prop_map(PyrOp::SetZoomMin),
		1 => prop_oneof![0u8..=33, Just(31u8), Just(255u8)].prop_map(PyrOp::SetZoomMax),
		2 => amounts().prop_map(PyrOp::AddBorder),
		1 => Just(PyrOp::FlipY),
		1 => Just(PyrOp::SwapXY),
	]
}

/// related boxes of one level: the first goes into P, the second into Q
fn level_pair_strategy() -> impl Strategy<Value = (u8, BoxSpec, BoxSpec)> {
	level_strategy().prop_flat_map(|z| box_pair_strategy(z).prop_map(move |(a, b)| (z, a, b)))
}

fn pyr_case_strategy() -> impl Strategy<Value = PyrCase> {
	(
		pyr_spec_strategy(),
		pyr_spec_strategy(),
		proptest::collection::vec(level_pair_strategy(), 0..5),
		proptest::collection::vec(pyr_op_strategy(), 1..8),
		proptest::collection::vec(level_coord_strategy(), 0..4),
	)
		.prop_map(|(mut p, mut q, pairs, ops, probes)| {
			for (z, a, b) in pairs {
				p.levels.push((z, a));
				q.levels.push((z, b));
			}
			PyrCase { p, q, ops, probes }
		})
}

type PyrModel = Vec<IBox>; // 32 levels

fn build_pyramid(spec: &PyrSpec) -> (TileBBoxPyramid, PyrModel) {
	let (mut p, mut m) = match spec.base {
		Base::Empty => (TileBBoxPyramid::new_empty(), vec![None; 32]),
		Base::Full(k) => (
			TileBBoxPyramid::new_full(k),
			(0..32u8).map(|z| if z <= k { Some(Rect::new(0, 0, level_max(z), level_max(z))) } else { None }).collect(),
		),
	};
	for (z, b) in &spec.levels {
		p.set_level_bbox(b.build(*z));
		m[*z as usize] = b.model();
	}
	(p, m)
}

fn pyramid_agrees(p: &TileBBoxPyramid, m: &PyrModel, case: &PyrCase, after: &str) -> Result<(), Fail> {
	for z in 0..32u8 {
		same_set(z, p.get_level_bbox(z), &m[z as usize], "pyramid:level-differs-from-per-level-set", || format!("after {after}: level {z}"))?;
	}
	let nonempty: Vec<u8> = (0..32u8).filter(|z| m[*z as usize].is_some()).collect();
	ensure_prop!(p.is_empty() == nonempty.is_empty(), "pyramid:is_empty-differs", "after {after}: is_empty() = {}, non-empty levels of the model: {nonempty:?}", p.is_empty());
	let total: u128 = m.iter().map(|b| bs::count(b) as u128).sum();
	let got = match guard(|| p.count_tiles()) {
		Ok(c) => c,
		Err(pi) => return Err(Fail::from_panic(&format!("after {after}: count_tiles()"), &pi)),
	};
	ensure_prop!(got as u128 == total, "pyramid:count-differs", "after {after}: count_tiles() = {got}, the levels hold {total} tiles");
	ensure_prop!(p.get_zoom_min() == nonempty.first().copied(), "pyramid:zoom_min-differs", "after {after}: get_zoom_min() = {:?}, non-empty levels {nonempty:?}", p.get_zoom_min());
	ensure_prop!(p.get_zoom_max() == nonempty.last().copied(), "pyramid:zoom_max-differs", "after {after}: get_zoom_max() = {:?}, non-empty levels {nonempty:?}", p.get_zoom_max());
	let levels: Vec<&TileBBox> = p.iter_levels().collect();
	let got_levels: Vec<u8> = levels.iter().map(|b| b.level).collect();
	ensure_prop!(got_levels == nonempty, "pyramid:iter_levels-differs", "after {after}: iter_levels() yields levels {got_levels:?}, non-empty levels {nonempty:?}");
	for b in levels {
		same_set(b.level, b, &m[b.level as usize], "pyramid:iter_levels-differs", || format!("after {after}: iter_levels() item of level {}", b.level))?;
	}
	// membership: generated probes + corners of every level of the model
	let mut probes = case.probes.clone();
	for z in 0..32u8 {
		if let Some(r) = m[z as usize] {
			probes.push((z, r.x0, r.y0));
			probes.push((z, r.x1, r.y1));
			if r.x1 < level_max(z) {
				probes.push((z, r.x1 + 1, r.y1));
			}
			if r.y0 > 0 {
				probes.push((z, r.x0, r.y0 - 1));
			}
		}
	}
	for (z, x, y) in probes {
		let c = TileCoord3::new(x, y, z).expect("harness: coord");
		let want = bs::contains(&m[z as usize], x, y);
		ensure_prop!(p.contains_coord(&c) == want, "pyramid:contains-differs", "after {after}: contains_coord({c:?}) = {}, level set is {}", !want, show(&m[z as usize]));
	}
	// overlap with the boxes that occur in the case
	let mut boxes: Vec<(u8, BoxSpec)> = case.q.levels.clone();
	boxes.extend(case.p.levels.iter().cloned());
	for op in &case.ops {
		if let PyrOp::IncludeBBox(z, b) | PyrOp::SetLevel(z, b) = op {
			boxes.push((*z, *b));
		}
	}
	for (z, spec) in boxes {
		let b = spec.build(z);
		let want = bs::overlaps(&m[z as usize], &spec.model());
		ensure_prop!(p.overlaps_bbox(&b) == want, "pyramid:overlaps-differs", "after {after}: overlaps_bbox({b:?}) = {}, level set is {}", !want, show(&m[z as usize]));
	}
	Ok(())
}

fn pyr_oracle(case: &PyrCase, obs: &mut Obs) -> Result<(), Fail> {
	let (mut p, mut m) = build_pyramid(&case.p);
	let (q, mq) = build_pyramid(&case.q);
	pyramid_agrees(&p, &m, case, "construction")?;
	pyramid_agrees(&q, &mq, case, "construction of Q")?;
	let (mut empties, mut border, mut partial, mut level0, mut level31) = (false, false, false, false, false);
	for z in 0..32u8 {
		let (a, b) = (&m[z as usize], &mq[z as usize]);
		empties |= a.is_some() != b.is_some();
		border |= bs::has_border_coord(z, a) || bs::has_border_coord(z, b);
		partial |= bs::partial_overlap(a, b);
	}
	for (k, op) in case.ops.iter().enumerate() {
		let after = format!("op {k} {op:?}");
		match op {
			PyrOp::Intersect => {
				p.intersect(&q);
				for z in 0..32 {
					m[z] = bs::inter(&m[z], &mq[z]);
				}
			}
			PyrOp::IncludePyramid => {
				p.include_bbox_pyramid(&q);
				for z in 0..32 {
					m[z] = bs::bounding_union(&m[z], &mq[z]);
				}
			}
			PyrOp::IncludeBBox(z, b) => {
				p.include_bbox(&b.build(*z));
				m[*z as usize] = bs::bounding_union(&m[*z as usize], &b.model());
				empties |= b.is_empty() || m[*z as usize].is_none();
				border |= bs::has_border_coord(*z, &b.model());
			}
			PyrOp::IncludeCoord(z, x, y) => {
				p.include_coord(&TileCoord3::new(*x, *y, *z).expect("harness: coord"));
				m[*z as usize] = bs::bounding_union(&m[*z as usize], &Some(Rect::new(*x, *y, *x, *y)));
				border |= bs::is_border_coord(*z, *x) || bs::is_border_coord(*z, *y);
			}
			PyrOp::SetLevel(z, b) => {
				p.set_level_bbox(b.build(*z));
				m[*z as usize] = b.model();
			}
			PyrOp::SetZoomMin(k) => {
				p.set_zoom_min(*k);
				for z in 0..32u8 {
					if z < *k {
						m[z as usize] = None;
					}
				}
			}
			PyrOp::SetZoomMax(k) => {
				p.set_zoom_max(*k);
				for z in 0..32u8 {
					if z > *k {
						m[z as usize] = None;
					}
				}
			}
			PyrOp::AddBorder(am) => {
				p.add_border(am[0], am[1], am[2], am[3]);
				for z in 0..32u8 {
					m[z as usize] = bs::border(&m[z as usize], z, *am);
				}
			}
			PyrOp::FlipY => {
				p.flip_y();
				for z in 0..32u8 {
					m[z as usize] = bs::flip_y(&m[z as usize], z);
				}
			}
			PyrOp::SwapXY => {
				p.swap_xy();
				for z in 0..32 {
					m[z] = bs::swap_xy(&m[z]);
				}
			}
		}
		level0 |= m[0].is_some();
		level31 |= m[31].is_some();
		pyramid_agrees(&p, &m, case, &after)?;
		obs.label(match op {
			PyrOp::Intersect => "op:intersect",
			PyrOp::IncludePyramid => "op:include_bbox_pyramid",
			PyrOp::IncludeBBox(..) => "op:include_bbox",
			PyrOp::IncludeCoord(..) => "op:include_coord",
			PyrOp::SetLevel(..) => "op:set_level_bbox",
			PyrOp::SetZoomMin(_) => "op:set_zoom_min",
			PyrOp::SetZoomMax(_) => "op:set_zoom_max",
			PyrOp::AddBorder(_) => "op:add_border",
			PyrOp::FlipY => "op:flip_y",
			PyrOp::SwapXY => "op:swap_xy",
		});
	}
	// involutions on the final state
	let before = m.clone();
	p.flip_y();
	p.flip_y();
	pyramid_agrees(&p, &before, case, "flip_y twice")?;
	p.swap_xy();
	p.swap_xy();
	pyramid_agrees(&p, &before, case, "swap_xy twice")?;
	obs.labels.sort();
	obs.labels.dedup();
	obs.label_if(empties, "empty-operand");
	obs.label_if(border, "border-coordinate");
	obs.label_if(partial, "partial-overlap");
	obs.label_if(level0, "level0-populated");
	obs.label_if(level31, "level31-populated");
	obs.label_if(m.iter().all(|b| b.is_none()), "ends-empty");
	obs.nontrivial(empties || border || partial);
	obs.count("operations", case.ops.len() as u64);
	Ok(())
}

// =======================================================================================
// phase: geographic boxes
// =======================================================================================

fn lon_strategy() -> impl Strategy<Value = f64> {
	prop_oneof![
		5 => -180.0f64..=180.0,
		1 => prop_oneof![Just(-180.0f64), Just(180.0f64), Just(0.0f64)],
		// on a tile edge of some level, or next to it
		4 => (0u8..=31, 0.0f64..=1.0, tiny_strategy()).prop_map(|(z, f, d)| {
			let k = ((1u64 << z) as f64 * f).floor();
			(georef::lon(k, z) + d).clamp(-180.0, 180.0)
		}),
	]
}

fn tiny_strategy() -> impl Strategy<Value = f64> {
	prop_oneof![
		4 => Just(0.0f64),
		1 => prop_oneof![Just(1e-12f64), Just(-1e-12f64), Just(1e-9f64), Just(-1e-9f64), Just(1e-7f64), Just(-1e-7f64)],
		1 => -1e-5f64..=1e-5,
	]
}

fn lat_strategy() -> impl Strategy<Value = f64> {
	prop_oneof![
		4 => -90.0f64..=90.0,
		2 => -MERCATOR_LAT..=MERCATOR_LAT,
		1 => prop_oneof![Just(-90.0f64), Just(90.0f64), Just(0.0f64), Just(MERCATOR_LAT), Just(-MERCATOR_LAT)],
		1 => 85.0f64..=90.0,
		1 => -90.0f64..=-85.0,
		1 => 85.05f64..=85.0512,
		1 => -85.0512f64..=-85.05,
		4 => (0u8..=31, 0.0f64..=1.0, tiny_strategy()).prop_map(|(z, f, d)| {
			let k = ((1u64 << z) as f64 * f).floor();
			(georef::lat(k, z) + d).clamp(-90.0, 90.0)
		}),
	]
}

fn geo_raw_strategy() -> impl Strategy<Value = GeoCase> {
	let extent = prop_oneof![2 => Just(0.0f64), 1 => 0.0f64..=1e-6, 1 => 0.0f64..=1e-3];
	(lon_strategy(), lon_strategy(), lat_strategy(), lat_strategy(), 0u8..=9, extent, 0u8..=31, 0u8..=31).prop_map(|(l1, l2, b1, b2, mode, ext, z1, z2)| {
		let (mut w, mut e) = (l1.min(l2), l1.max(l2));
		let (mut s, mut n) = (b1.min(b2), b1.max(b2));
		match mode {
			// point, vertical line, horizontal line, small box around one corner
			1 => {
				e = w;
				n = s;
			}
			2 => e = w,
			3 => n = s,
			4 => {
				e = (w + ext).min(180.0);
				n = (s + ext).min(90.0);
			}
			_ => {}
		}
		if e < w {
			std::mem::swap(&mut w, &mut e);
		}
		if n < s {
			std::mem::swap(&mut s, &mut n);
		}
		GeoCase::Raw { g: [w, s, e, n], zmin: z1.min(z2), zmax: z1.max(z2) }
	})
}

fn geo_aligned_strategy() -> impl Strategy<Value = GeoCase> {
	prop_oneof![3 => zoom_strategy(), 2 => 0u8..=31, 1 => 26u8..=31].prop_flat_map(|z| {
		box_pair_strategy(z).prop_map(move |(a, b)| {
			let r = a.model().or(b.model()).unwrap_or(Rect::new(0, 0, level_max(z), level_max(z)));
			GeoCase::Aligned { z, r }
		})
	})
}

// =======================================================================================

fn main() {
	let mut check = Check::from_args(
		"C15",
		"exploration",
		"exhaustive: every box of zoom 0..=3 incl. both empty encodings (unary laws with every coordinate, index, grid size 0..=10/255/256/257/2^31/u32::MAX, 257 border amounts), every ordered pair of boxes of one level (zoom <= 3 in both tiers, 1.7 million pairs; one case = one row A x all B, pairs counted in counters), against explicit coordinate sets; sampled: proptest boxes of zoom 0..=31 whose edges come from a pool of border-biased coordinates (0, 1, 2^z-2, 2^z-1, 256k, 256k+-1), pyramids built from such boxes with operation sequences, geographic boxes (random, on/next to tile edges, points/lines, beyond +-85.0511, world bounds, tile-aligned) against an interval model / a Mercator reference with tolerance band. A case is non-trivial when it involves an empty operand (either encoding or a derived empty result), a border coordinate (for geographic cases: an edge on a tile edge, on/after the Mercator limit or the world bound, zero or sub-guard extent, tile-aligned) or a partial overlap; distinct = distinct serialised cases",
	);
	check.assume("the denotation of a TileBBox is read from its public fields level, x_min, y_min, x_max, y_max as documented (empty iff x_max < x_min or y_max < y_min)");
	check.assume("geographic tolerance: model::georef::delta(z) = 2.5e-6 + 64 eps 2^z tiles around each mapped edge; tiles on the band are don't-care");
	check.assume("iter_bbox_grid is run only when the box touches at most 4096 aligned cells (it materialises all parts); get_coord*_by_index only for indices < 2^32 (u32 argument)");
	check.assume("shift_by, subtract*, scale_down, width/height, get_good_zoom, is_full are not part of the statement and are not asserted");
	vt::engine::watchdog(3000);

	let reg_geo: Vec<GeoCase> = check.regression_cases("geo");
	let reg_box: Vec<BoxCase> = check.regression_cases("sampled-boxes");
	let reg_pyr: Vec<PyrCase> = check.regression_cases("pyramids");
	check.enumerate("regressions-geo", reg_geo, false, geo_oracle);
	check.enumerate("regressions-boxes", reg_box, false, box_oracle);
	check.enumerate("regressions-pyramids", reg_pyr, false, pyr_oracle);

	check.enumerate("exhaustive-boxes", small_cases(), true, small_oracle);
	check.enumerate("exhaustive-pairs", pair_rows(3), true, pair_oracle);
	check.phase("sampled-boxes", check.cases(500_000, 15_000_000), box_case_strategy, box_oracle);
	check.phase("pyramids", check.cases(200_000, 5_000_000), pyr_case_strategy, pyr_oracle);
	check.enumerate("geo-special", geo_special_cases(), false, geo_oracle);
	check.phase("geo", check.cases(200_000, 5_000_000), geo_raw_strategy, geo_oracle);
	check.phase("geo-aligned", check.cases(120_000, 3_000_000), geo_aligned_strategy, geo_oracle);
	check.finish();
}

//! C12 — an interrupted write never leaves a file that opens as a valid, wrong container.
//! Fault enumeration: the writer runs against a recording `DataWriterTrait`; every prefix of
//! the recorded write sequence and byte-granular cuts of individual writes are turned into
//! crash images and handed to the reader.

use proptest::prelude::*;
use serde::{Deserialize, Serialize};
use versatiles_container::{PMTilesReader, PMTilesWriter, TilesWriterTrait, VersaTilesReader, VersaTilesWriter};
use versatiles_core::io::{DataReaderBlob, DataWriterFile, DataWriterTrait};
use versatiles_core::types::{Blob, ByteRange, TilesReaderTrait};
use vt::engine::{guard, Check, Fail, Obs};
use vt::gen::{self, GenCfg};
use vt::model::{Advert, Fmt, MemReader, Mix, SetSpec};
use vt::util::{self, Comp};
use vt::{ensure_prop, fail};

#[derive(Clone, Copy, Debug, Serialize, Deserialize, PartialEq, Eq)]
enum Writer {
	Versatiles,
	Pmtiles,
}

#[derive(Clone, Debug, Serialize, Deserialize)]
struct Case {
	writer: Writer,
	spec: SetSpec,
	/// every byte cut of every write (small sets only)
	all_cuts: bool,
	seed: u32,
}

/// one recorded medium write: `bytes` land at `offset`
#[derive(Clone, Debug)]
struct Write {
	offset: u64,
	bytes: Vec<u8>,
	what: &'static str,
}

#[derive(Default)]
struct Recorder {
	pos: u64,
	writes: Vec<Write>,
}

impl DataWriterTrait for Recorder {
	fn append(&mut self, blob: &Blob) -> anyhow::Result<ByteRange> {
		let off = self.pos;
		self.writes.push(Write { offset: off, bytes: blob.as_slice().to_vec(), what: "append" });
		self.pos += blob.len();
		Ok(ByteRange::new(off, blob.len()))
	}
	fn write_start(&mut self, blob: &Blob) -> anyhow::Result<()> {
		self.writes.push(Write { offset: 0, bytes: blob.as_slice().to_vec(), what: "write_start" });
		Ok(())
	}
	fn get_position(&mut self) -> anyhow::Result<u64> {
		Ok(self.pos)
	}
	fn set_position(&mut self, position: u64) -> anyhow::Result<()> {
		self.pos = position;
		Ok(())
	}
}

/// image after the first `k` writes completely and `cut` bytes of write `k`
fn image(writes: &[Write], k: usize, cut: usize) -> Vec<u8> {
	let mut img: Vec<u8> = vec![];
	let mut put = |off: u64, bytes: &[u8]| {
		let end = off as usize + bytes.len();
		if img.len() < end {
			img.resize(end, 0);
		}
		img[off as usize..end].copy_from_slice(bytes);
	};
	for w in &writes[..k] {
		put(w.offset, &w.bytes);
	}
	if k < writes.len() && cut > 0 {
		put(writes[k].offset, &writes[k].bytes[..cut]);
	}
	img
}

fn strategy(writer: Writer, small: bool) -> impl Strategy<Value = Case> {
	let pairs = match writer {
		Writer::Versatiles => gen::all_pairs(),
		Writer::Pmtiles => vec![Fmt::Pbf, Fmt::Png, Fmt::Jpg, Fmt::Webp, Fmt::Avif].into_iter().flat_map(|f| Comp::ALL.map(|c| (f, c))).collect(),
	};
	let mut cfg = GenCfg::small(pairs);
	cfg.max_side = if small { 4 } else { 17 };
	cfg.max_levels = if small { 2 } else { 3 };
	cfg.heavy_payloads = false;
	cfg.adverts = vec![Advert::Tight, Advert::Loose(1)];
	(gen::set_spec(cfg), any::<u32>()).prop_map(move |(spec, seed)| Case { writer, spec, all_cuts: small, seed })
}

enum Opened {
	Rejected,
	Panicked,
	Reader(Box<dyn TilesReaderTrait>),
}

fn open_image(writer: Writer, img: Vec<u8>) -> Opened {
	let r = guard(|| {
		util::block_on(async {
			let dr = Box::new(DataReaderBlob::from(img));
			match writer {
				Writer::Versatiles => VersaTilesReader::open_reader(dr).await.map(|r| Box::new(r) as Box<dyn TilesReaderTrait>),
				Writer::Pmtiles => PMTilesReader::open_reader(dr).await.map(|r| Box::new(r) as Box<dyn TilesReaderTrait>),
			}
		})
	});
	match r {
		Ok(Ok(r)) => Opened::Reader(r),
		Ok(Err(_)) => Opened::Rejected,
		Err(_) => Opened::Panicked,
	}
}

fn oracle(case: &Case, obs: &mut Obs) -> Result<(), Fail> {
	let set = case.spec.materialise();
	if set.nonempty().count() == 0 {
		return Ok(());
	}
	let mut src = MemReader::new(&set, "mem");
	let mut rec = Recorder::default();
	let res = guard(|| {
		util::block_on(async {
			match case.writer {
				Writer::Versatiles => VersaTilesWriter::write_to_writer(&mut src, &mut rec).await,
				Writer::Pmtiles => PMTilesWriter::write_to_writer(&mut src, &mut rec).await,
			}
		})
	});
	match res {
		Ok(Ok(())) => {}
		Ok(Err(e)) => fail!("crash:writer-error", "writer failed on a valid tile set: {e:#}"),
		Err(p) => return Err(Fail::from_panic("writer", &p)),
	}
	let writes = rec.writes;
	let n = writes.len();
	ensure_prop!(n >= 2, "harness:too-few-writes", "only {n} writes recorded");
	// sanity: the complete image is accepted and complete
	let mut mix = Mix::new(case.seed as u64);
	let mut images = 0u64;
	let mut accepted = 0u64;
	let mut rejected = 0u64;
	let mut panicked = 0u64;
	let mut header_cuts = 0u64;
	let last = n - 1;
	for k in 0..=n {
		// cuts of write k (0 = nothing of it: the pure prefix)
		let mut cuts: Vec<usize> = vec![0];
		if k < n {
			let len = writes[k].bytes.len();
			if case.all_cuts || len <= 256 || k == last {
				cuts.extend(1..len);
			} else {
				cuts.extend([1, len - 1]);
				cuts.extend((64..len).step_by(64));
				for _ in 0..4 {
					cuts.push(1 + mix.below(len as u64 - 1) as usize);
				}
			}
		}
		cuts.sort();
		cuts.dedup();
		for cut in cuts {
			let img = image(&writes, k, cut);
			images += 1;
			let complete = k == n;
			if k == last && cut > 0 {
				header_cuts += 1;
			}
			match open_image(case.writer, img) {
				Opened::Rejected => {
					rejected += 1;
					ensure_prop!(!complete, "crash:complete-file-rejected", "the complete file is rejected by the reader");
				}
				Opened::Panicked => {
					panicked += 1;
					ensure_prop!(!complete, "crash:complete-file-rejected", "the reader panics on the complete file");
				}
				Opened::Reader(r) => {
					accepted += 1;
					let at = format!("crash after {k} of {n} writes + {cut} bytes of write {k} ({} at offset {}, {} bytes)", writes.get(k).map(|w| w.what).unwrap_or("-"), writes.get(k).map(|w| w.offset).unwrap_or(0), writes.get(k).map(|w| w.bytes.len()).unwrap_or(0));
					// the stored bytes are only the tile together with the compression the container
					// declares for them
					let declared = Comp::from_vt(r.get_parameters().tile_compression);
					ensure_prop!(declared == case.spec.comp, "crash:accepted-with-wrong-compression", "{at}: the image opens and declares its tiles as {}, they were written as {}", declared.name(), case.spec.comp.name());
					for (c, want) in set.nonempty() {
						match guard(|| vt::model::lookup(r.as_ref(), c)) {
							Ok(Ok(Some(got))) if &got == want => {}
							Ok(Ok(Some(got))) => fail!("crash:accepted-with-wrong-tile", "{at}: the image opens and tile {c} has {} bytes ({}) instead of {} ({})", got.len(), util::hex_short(&got), want.len(), util::hex_short(want)),
							Ok(Ok(None)) => fail!("crash:accepted-with-missing-tile", "{at}: the image opens as a container that lacks tile {c}"),
							Ok(Err(e)) => fail!("crash:accepted-with-unreadable-tile", "{at}: the image opens but tile {c} cannot be read: {e}"),
							Err(p) => fail!("crash:accepted-with-unreadable-tile", "{at}: the image opens but reading tile {c} panics: {}", p.message),
						}
					}
				}
			}
		}
	}
	obs.count("crash-images", images);
	obs.count("images-accepted-intact", accepted);
	obs.count("images-rejected", rejected);
	obs.count("images-rejected-by-panic", panicked);
	obs.count("cuts-inside-final-header", header_cuts);
	obs.label(format!("writer:{:?}", case.writer));
	obs.label(format!("comp:{}", case.spec.comp.name()));
	obs.label_if(case.all_cuts, "all-byte-cuts");
	obs.label(match n { 0..=5 => "writes<=5", 6..=20 => "writes=6..20", 21..=100 => "writes=21..100", _ => "writes>100" });
	obs.label_if(panicked > 0, "some-images-rejected-by-panic");
	obs.nontrivial(header_cuts > 0 && n >= 3);
	Ok(())
}

// ---------------------------------------------------------------------------------------
// interrupted rewrite of an existing file, through the repository's own file writer
// ---------------------------------------------------------------------------------------

/// `DataWriterFile` that stops after `ops_left` medium writes (+ `cut` bytes of the next one)
struct Interrupting {
	inner: DataWriterFile,
	ops_left: usize,
	cut: usize,
}

impl Interrupting {
	fn gate(&mut self, blob: &Blob, start: bool) -> anyhow::Result<bool> {
		if self.ops_left == 0 {
			if self.cut > 0 {
				let part = Blob::from(&blob.as_slice()[..self.cut.min(blob.len() as usize)]);
				if start {
					self.inner.write_start(&part)?;
				} else {
					self.inner.append(&part)?;
				}
			}
			anyhow::bail!("harness: interrupted");
		}
		self.ops_left -= 1;
		Ok(true)
	}
}

impl DataWriterTrait for Interrupting {
	fn append(&mut self, blob: &Blob) -> anyhow::Result<ByteRange> {
		self.gate(blob, false)?;
		self.inner.append(blob)
	}
	fn write_start(&mut self, blob: &Blob) -> anyhow::Result<()> {
		self.gate(blob, true)?;
		self.inner.write_start(blob)
	}
	fn get_position(&mut self) -> anyhow::Result<u64> {
		self.inner.get_position()
	}
	fn set_position(&mut self, position: u64) -> anyhow::Result<()> {
		self.inner.set_position(position)
	}
}

fn record(writer: Writer, set: &vt::model::TileSet) -> Result<Vec<Write>, Fail> {
	let mut src = MemReader::new(set, "mem");
	let mut rec = Recorder::default();
	let res = guard(|| {
		util::block_on(async {
			match writer {
				Writer::Versatiles => VersaTilesWriter::write_to_writer(&mut src, &mut rec).await,
				Writer::Pmtiles => PMTilesWriter::write_to_writer(&mut src, &mut rec).await,
			}
		})
	});
	match res {
		Ok(Ok(())) => Ok(rec.writes),
		Ok(Err(e)) => fail!("crash:writer-error", "writer failed on a valid tile set: {e:#}"),
		Err(p) => Err(Fail::from_panic("writer", &p)),
	}
}

/// A complete container of an older generation (same coordinates, other payloads) lies at the
/// path; the new generation is written to the same path through `DataWriterFile::from_path` and
/// stops after k medium writes. What is on disk then must be rejected or hold the new tiles.
fn rewrite_oracle(case: &Case, obs: &mut Obs) -> Result<(), Fail> {
	let set = case.spec.materialise();
	if set.nonempty().count() == 0 {
		return Ok(());
	}
	let mut old_spec = case.spec.clone();
	old_spec.tag = format!("{}-old", old_spec.tag);
	old_spec.pay = vt::model::Pay::CoordText;
	old_spec.really_compressed = false;
	let old = old_spec.materialise();
	let old_writes = record(case.writer, &old)?;
	let old_image = image(&old_writes, old_writes.len(), 0);
	let writes = record(case.writer, &set)?;
	let n = writes.len();
	let last = n - 1;
	let mut mix = Mix::new(case.seed as u64 ^ 0x77);
	// crash points: all prefixes when there are few writes, else the first and last ones and a sample
	let mut points: Vec<(usize, usize)> = vec![];
	let ks: Vec<usize> = if n <= 24 { (0..=n).collect() } else { (0..4).chain(n - 4..=n).chain((0..12).map(|_| mix.below(n as u64) as usize)).collect() };
	for k in ks {
		points.push((k, 0));
		if k < n {
			let len = writes[k].bytes.len();
			if len > 1 {
				points.push((k, 1 + mix.below(len as u64 - 1) as usize));
			}
			if k == last {
				for cut in [1usize, 7, 8, 32, 56, 64, 96, 97, 98, 99, 100, 120, len - 1] {
					if cut < len {
						points.push((k, cut));
					}
				}
			}
		}
	}
	points.sort();
	points.dedup();
	let ext = match case.writer {
		Writer::Versatiles => "versatiles",
		Writer::Pmtiles => "pmtiles",
	};
	let path = util::tmp_path(&format!(".{ext}"));
	let _g = util::TmpGuard(path.clone());
	let (mut accepted, mut rejected, mut header_cuts) = (0u64, 0u64, 0u64);
	for (k, cut) in &points {
		std::fs::write(&path, &old_image).map_err(|e| Fail::new("harness:io", format!("{e}")))?;
		let mut src = MemReader::new(&set, "mem");
		let res = guard(|| {
			util::block_on(async {
				let inner = DataWriterFile::from_path(&path)?;
				let mut w = Interrupting { inner, ops_left: *k, cut: *cut };
				match case.writer {
					Writer::Versatiles => VersaTilesWriter::write_to_writer(&mut src, &mut w).await,
					Writer::Pmtiles => PMTilesWriter::write_to_writer(&mut src, &mut w).await,
				}
			})
		});
		let complete = *k == n;
		match res {
			Ok(Ok(())) => ensure_prop!(complete, "harness:not-interrupted", "the writer finished although it was stopped after {k} of {n} writes"),
			Ok(Err(e)) => ensure_prop!(!complete && format!("{e:#}").contains("harness: interrupted"), "crash:writer-error", "rewrite stopped after {k} of {n} writes: unexpected writer error {e:#}"),
			// a writer that unwraps the medium's error dies at the interruption: a crash like any other
			Err(p) if !complete && p.message.contains("harness: interrupted") => {}
			Err(p) => return Err(Fail::from_panic("writer (rewrite)", &p)),
		}
		if *k == last && *cut > 0 {
			header_cuts += 1;
		}
		let opened = guard(|| {
			util::block_on(async {
				match case.writer {
					Writer::Versatiles => VersaTilesReader::open_path(&path).await.map(|r| Box::new(r) as Box<dyn TilesReaderTrait>),
					Writer::Pmtiles => PMTilesReader::open_path(&path).await.map(|r| Box::new(r) as Box<dyn TilesReaderTrait>),
				}
			})
		});
		let at = format!("rewrite of an existing {ext} file ({} bytes, {} tiles) stopped after {k} of {n} writes + {cut} bytes of write {k}", old_image.len(), old.nonempty().count());
		match opened {
			Ok(Ok(r)) => {
				accepted += 1;
				let declared = Comp::from_vt(r.get_parameters().tile_compression);
				ensure_prop!(declared == case.spec.comp, "crash:accepted-with-wrong-compression", "{at}: the file opens and declares its tiles as {}, they were written as {}", declared.name(), case.spec.comp.name());
				for (c, want) in set.nonempty() {
					match guard(|| vt::model::lookup(r.as_ref(), c)) {
						Ok(Ok(Some(got))) if &got == want => {}
						Ok(Ok(Some(got))) => fail!("crash:accepted-with-wrong-tile", "{at}: the file opens and tile {c} has {} bytes ({}) instead of {} ({})", got.len(), util::hex_short(&got), want.len(), util::hex_short(want)),
						Ok(Ok(None)) => fail!("crash:accepted-with-missing-tile", "{at}: the file opens as a container that lacks tile {c}"),
						Ok(Err(e)) => fail!("crash:accepted-with-unreadable-tile", "{at}: the file opens but tile {c} cannot be read: {e}"),
						Err(p) => fail!("crash:accepted-with-unreadable-tile", "{at}: the file opens but reading tile {c} panics: {}", p.message),
					}
				}
			}
			_ => {
				rejected += 1;
				ensure_prop!(!complete, "crash:complete-file-rejected", "{at}: the completely rewritten file is rejected by the reader");
			}
		}
	}
	obs.count("crash-images", points.len() as u64);
	obs.count("images-accepted-intact", accepted);
	obs.count("images-rejected", rejected);
	obs.count("cuts-inside-final-header", header_cuts);
	obs.label(format!("writer:{:?}", case.writer));
	obs.label(if old_image.len() > image(&writes, n, 0).len() { "old-file-longer" } else { "old-file-shorter-or-equal" });
	obs.nontrivial(header_cuts > 0 && n >= 3);
	Ok(())
}

fn main() {
	let mut check = Check::from_args(
		"C12",
		"fault_enumeration",
		"tile-set specs (1-300 tiles, all shape classes, 3 compressions) x writer in {versatiles, pmtiles} run against a recording DataWriterTrait; enumerated crash images per case: every prefix of the recorded write sequence, every byte cut of every write of <= 256 bytes and of the final header write, first/last/every 64th/4 random cuts of larger writes ('all-byte-cuts' cases: every byte cut of every write); oracle: the reader rejects the image (error; a panic is counted and left to C19) or declares the compression the tiles were written with and returns every source tile intact, and the complete image must be accepted; phases rewrite-*: a complete older container (same coordinates, other payloads) lies at the path, the new tile set is written to the same path through DataWriterFile::from_path wrapped in a writer that stops after k medium writes (all k for <= 24 writes, else first/last 4 and 12 sampled; one random cut per write and 13 cuts of the final header), the file is opened by path; evaluations counts tile sets, the counters crash-images / cuts-inside-final-header count images; non-trivial = case with >= 3 writes that includes cuts inside the final header write",
	);
	check.assume("writes reach the medium in program order (no reordering by the OS or a buffered writer); a torn write leaves a prefix of the write; unwritten regions read as zero bytes");
	vt::engine::watchdog(3600);
	for w in [Writer::Versatiles, Writer::Pmtiles] {
		let name = format!("cuts-{w:?}").to_lowercase();
		let reg: Vec<Case> = check.regression_cases(&name);
		check.enumerate(&format!("regress-{w:?}").to_lowercase(), reg, false, oracle);
		check.phase(&name, check.cases(2500, 60_000), || strategy(w, false), oracle);
		check.phase(&format!("all-byte-{name}"), check.cases(1200, 30_000), || strategy(w, true), oracle);
		check.phase(&format!("rewrite-{w:?}").to_lowercase(), check.cases(800, 20_000), || strategy(w, false), rewrite_oracle);
	}
	check.finish();
}

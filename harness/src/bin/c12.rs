//! C12 — an interrupted write never leaves a file that opens as a valid, wrong container.
//! Fault enumeration: the writer runs against a recording `DataWriterTrait`; every prefix of
//! the recorded write sequence and byte-granular cuts of individual writes are turned into
//! crash images and handed to the reader.

use proptest::prelude::*;
use serde::{Deserialize, Serialize};
use versatiles_container::{PMTilesReader, PMTilesWriter, TilesWriterTrait, VersaTilesReader, VersaTilesWriter};
use versatiles_core::io::{DataReaderBlob, DataWriterTrait};
use versatiles_core::types::{Blob, ByteRange, TilesReaderTrait};
use vt::engine::{guard, Check, Fail, Obs};
use vt::gen::{self, GenCfg};
use vt::model::{Advert, Fmt, MemReader, Mix, SetSpec};
use vt::util::{self, Comp};
use vt::{ensure_prop, fail};

#[derive(Clone, Copy, Debug, Serialize, Deserialize, PartialEq, Eq)]
enum Writer {
	Versatiles,
	Pmtiles,
}

#[derive(Clone, Debug, Serialize, Deserialize)]
struct Case {
	writer: Writer,
	spec: SetSpec,
	/// every byte cut of every write (small sets only)
	all_cuts: bool,
	seed: u32,
}

/// one recorded medium write: `bytes` land at `offset`
#[derive(Clone, Debug)]
struct Write {
	offset: u64,
	bytes: Vec<u8>,
	what: &'static str,
}

#[derive(Default)]
struct Recorder {
	pos: u64,
	writes: Vec<Write>,
}

impl DataWriterTrait for Recorder {
	fn append(&mut self, blob: &Blob) -> anyhow::Result<ByteRange> {
		let off = self.pos;
		self.writes.push(Write { offset: off, bytes: blob.as_slice().to_vec(), what: "append" });
		self.pos += blob.len();
		Ok(ByteRange::new(off, blob.len()))
	}
	fn write_start(&mut self, blob: &Blob) -> anyhow::Result<()> {
		self.writes.push(Write { offset: 0, bytes: blob.as_slice().to_vec(), what: "write_start" });
		Ok(())
	}
	fn get_position(&mut self) -> anyhow::Result<u64> {
		Ok(self.pos)
	}
	fn set_position(&mut self, position: u64) -> anyhow::Result<()> {
		self.pos = position;
		Ok(())
	}
}

/// image after the first `k` writes completely and `cut` bytes of write `k`
fn image(writes: &[Write], k: usize, cut: usize) -> Vec<u8> {
	let mut img: Vec<u8> = vec![];
	let mut put = |off: u64, bytes: &[u8]| {
		let end = off as usize + bytes.len();
		if img.len() < end {
			img.resize(end, 0);
		}
		img[off as usize..end].copy_from_slice(bytes);
	};
	for w in &writes[..k] {
		put(w.offset, &w.bytes);
	}
	if k < writes.len() && cut > 0 {
		put(writes[k].offset, &writes[k].bytes[..cut]);
	}
	img
}

fn strategy(writer: Writer, small: bool) -> impl Strategy<Value = Case> {
	let pairs = match writer {
		Writer::Versatiles => gen::all_pairs(),
		Writer::Pmtiles => vec![Fmt::Pbf, Fmt::Png, Fmt::Jpg, Fmt::Webp, Fmt::Avif].into_iter().flat_map(|f| Comp::ALL.map(|c| (f, c))).collect(),
	};
	let mut cfg = GenCfg::small(pairs);
	cfg.max_side = if small { 4 } else { 17 };
	cfg.max_levels = if small { 2 } else { 3 };
	cfg.heavy_payloads = false;
	cfg.adverts = vec![Advert::Tight, Advert::Loose(1)];
	(gen::set_spec(cfg), any::<u32>()).prop_map(move |(spec, seed)| Case { writer, spec, all_cuts: small, seed })
}

enum Opened {
	Rejected,
	Panicked,
	Reader(Box<dyn TilesReaderTrait>),
}

fn open_image(writer: Writer, img: Vec<u8>) -> Opened {
	let r = guard(|| {
		util::block_on(async {
			let dr = Box::new(DataReaderBlob::from(img));
			match writer {
				Writer::Versatiles => VersaTilesReader::open_reader(dr).await.map(|r| Box::new(r) as Box<dyn TilesReaderTrait>),
				Writer::Pmtiles => PMTilesReader::open_reader(dr).await.map(|r| Box::new(r) as Box<dyn TilesReaderTrait>),
			}
		})
	});
	match r {
		Ok(Ok(r)) => Opened::Reader(r),
		Ok(Err(_)) => Opened::Rejected,
		Err(_) => Opened::Panicked,
	}
}

fn oracle(case: &Case, obs: &mut Obs) -> Result<(), Fail> {
	let set = case.spec.materialise();
	if set.nonempty().count() == 0 {
		return Ok(());
	}
	let mut src = MemReader::new(&set, "mem");
	let mut rec = Recorder::default();
	let res = guard(|| {
		util::block_on(async {
			match case.writer {
				Writer::Versatiles => VersaTilesWriter::write_to_writer(&mut src, &mut rec).await,
				Writer::Pmtiles => PMTilesWriter::write_to_writer(&mut src, &mut rec).await,
			}
		})
	});
	match res {
		Ok(Ok(())) => {}
		Ok(Err(e)) => fail!("crash:writer-error", "writer failed on a valid tile set: {e:#}"),
		Err(p) => return Err(Fail::from_panic("writer", &p)),
	}
	let writes = rec.writes;
	let n = writes.len();
	ensure_prop!(n >= 2, "harness:too-few-writes", "only {n} writes recorded");
	// sanity: the complete image is accepted and complete
	let mut mix = Mix::new(case.seed as u64);
	let mut images = 0u64;
	let mut accepted = 0u64;
	let mut rejected = 0u64;
	let mut panicked = 0u64;
	let mut header_cuts = 0u64;
	let last = n - 1;
	for k in 0..=n {
		// cuts of write k (0 = nothing of it: the pure prefix)
		let mut cuts: Vec<usize> = vec![0];
		if k < n {
			let len = writes[k].bytes.len();
			if case.all_cuts || len <= 256 || k == last {
				cuts.extend(1..len);
			} else {
				cuts.extend([1, len - 1]);
				cuts.extend((64..len).step_by(64));
				for _ in 0..4 {
					cuts.push(1 + mix.below(len as u64 - 1) as usize);
				}
			}
		}
		cuts.sort();
		cuts.dedup();
		for cut in cuts {
			let img = image(&writes, k, cut);
			images += 1;
			let complete = k == n;
			if k == last && cut > 0 {
				header_cuts += 1;
			}
			match open_image(case.writer, img) {
				Opened::Rejected => {
					rejected += 1;
					ensure_prop!(!complete, "crash:complete-file-rejected", "the complete file is rejected by the reader");
				}
				Opened::Panicked => {
					panicked += 1;
					ensure_prop!(!complete, "crash:complete-file-rejected", "the reader panics on the complete file");
				}
				Opened::Reader(r) => {
					accepted += 1;
					let at = format!("crash after {k} of {n} writes + {cut} bytes of write {k} ({} at offset {}, {} bytes)", writes.get(k).map(|w| w.what).unwrap_or("-"), writes.get(k).map(|w| w.offset).unwrap_or(0), writes.get(k).map(|w| w.bytes.len()).unwrap_or(0));
					for (c, want) in set.nonempty() {
						match guard(|| vt::model::lookup(r.as_ref(), c)) {
							Ok(Ok(Some(got))) if &got == want => {}
							Ok(Ok(Some(got))) => fail!("crash:accepted-with-wrong-tile", "{at}: the image opens and tile {c} has {} bytes ({}) instead of {} ({})", got.len(), util::hex_short(&got), want.len(), util::hex_short(want)),
							Ok(Ok(None)) => fail!("crash:accepted-with-missing-tile", "{at}: the image opens as a container that lacks tile {c}"),
							Ok(Err(e)) => fail!("crash:accepted-with-unreadable-tile", "{at}: the image opens but tile {c} cannot be read: {e}"),
							Err(p) => fail!("crash:accepted-with-unreadable-tile", "{at}: the image opens but reading tile {c} panics: {}", p.message),
						}
					}
				}
			}
		}
	}
	obs.count("crash-images", images);
	obs.count("images-accepted-intact", accepted);
	obs.count("images-rejected", rejected);
	obs.count("images-rejected-by-panic", panicked);
	obs.count("cuts-inside-final-header", header_cuts);
	obs.label(format!("writer:{:?}", case.writer));
	obs.label(format!("comp:{}", case.spec.comp.name()));
	obs.label_if(case.all_cuts, "all-byte-cuts");
	obs.label(match n { 0..=5 => "writes<=5", 6..=20 => "writes=6..20", 21..=100 => "writes=21..100", _ => "writes>100" });
	obs.label_if(panicked > 0, "some-images-rejected-by-panic");
	obs.nontrivial(header_cuts > 0 && n >= 3);
	Ok(())
}

fn main() {
	let mut check = Check::from_args(
		"C12",
		"fault_enumeration",
		"tile-set specs (1-300 tiles, all shape classes, 3 compressions) x writer in {versatiles, pmtiles} run against a recording DataWriterTrait; enumerated crash images per case: every prefix of the recorded write sequence, every byte cut of every write of <= 256 bytes and of the final header write, first/last/every 64th/4 random cuts of larger writes ('all-byte-cuts' cases: every byte cut of every write); oracle: the reader rejects the image (error; a panic is counted and left to C19) or returns every source tile intact, and the complete image must be accepted; evaluations counts tile sets, the counters crash-images / cuts-inside-final-header count images; non-trivial = case with >= 3 writes that includes cuts inside the final header write",
	);
	check.assume("writes reach the medium in program order (no reordering by the OS or a buffered writer); a torn write leaves a prefix of the write; unwritten regions read as zero bytes");
	vt::engine::watchdog(3600);
	for w in [Writer::Versatiles, Writer::Pmtiles] {
		let name = format!("cuts-{w:?}").to_lowercase();
		let reg: Vec<Case> = check.regression_cases(&name);
		check.enumerate(&format!("regress-{w:?}").to_lowercase(), reg, false, oracle);
		check.phase(&name, check.cases(1000, 30_000), || strategy(w, false), oracle);
		check.phase(&format!("all-byte-{name}"), check.cases(500, 15_000), || strategy(w, true), oracle);
	}
	check.finish();
}

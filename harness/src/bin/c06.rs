//! C06 — conversion selects and relocates tiles exactly as the options say.
//! Three layers: the `versatiles convert` command line (option parsing lives only in the
//! binary), the converting reader of the library (lookup / stream / advertised coverage), and
//! `versatiles serve --flip-y/--swap-xy` against a conversion with the same flags.

use proptest::prelude::*;
use serde::{Deserialize, Serialize};
use std::collections::{BTreeMap, BTreeSet};
use versatiles_container::{TilesConvertReader, TilesConverterParameters};
use versatiles_core::types::{TileBBox, TileBBoxPyramid, TilesReaderTrait};
use vt::containers::*;
use vt::engine::{Check, Fail, Obs};
use vt::gen::{self, GenCfg};
use vt::model::{georef, Advert, Coord, Fmt, MemReader, Pay, SetSpec, TileSet};
use vt::sources::{encode_fixture, Source};
use vt::util::{self, Comp, TmpGuard};
use vt::{ensure_prop, fail};

#[derive(Clone, Debug, Serialize, Deserialize)]
struct Opts {
	min_zoom: Option<u8>,
	max_zoom: Option<u8>,
	bbox: Option<[f64; 4]>,
	border: Option<u32>,
	flip_y: bool,
	swap_xy: bool,
}

#[derive(Clone, Debug, Serialize, Deserialize)]
struct Case {
	spec: SetSpec,
	source: Target,
	/// source container written by the harness encoder (seed) instead of the repository writer
	enc: Option<u32>,
	target: Target,
	opts: Opts,
}

/// transform: flip first, then swap
fn forward(c: &Coord, o: &Opts) -> Coord {
	let mut c = *c;
	if o.flip_y {
		c = c.flip();
	}
	if o.swap_xy {
		c = c.swap();
	}
	c
}

#[derive(Clone, Copy, Debug, PartialEq)]
enum Sel {
	In,
	Out,
	DontCare,
}

/// is output coordinate c in the requested selection?
fn selected(c: &Coord, o: &Opts) -> Sel {
	if o.min_zoom.map(|m| c.z < m).unwrap_or(false) || o.max_zoom.map(|m| c.z > m).unwrap_or(false) {
		return Sel::Out;
	}
	if let Some(b) = &o.bbox {
		let z = c.z;
		let border = o.border.unwrap_or(0) as f64;
		let cx = georef::classify(c.x, georef::tx(b[0], z) - border, georef::tx(b[2], z) + border, z);
		let cy = georef::classify(c.y, georef::ty(b[3], z) - border, georef::ty(b[1], z) + border, z);
		use georef::Cls::*;
		return match (cx, cy) {
			(Out, _) | (_, Out) => Sel::Out,
			(In, In) => Sel::In,
			_ => Sel::DontCare,
		};
	}
	Sel::In
}

/// expected output: coordinate -> (payload, selection class)
fn expected(set: &TileSet, o: &Opts) -> BTreeMap<Coord, (Vec<u8>, Sel)> {
	let mut m = BTreeMap::new();
	for (c, b) in set.nonempty() {
		let t = forward(c, o);
		m.insert(t, (b.clone(), selected(&t, o)));
	}
	m
}

fn opts(set_boxes: BTreeMap<u8, (u32, u32, u32, u32)>) -> impl Strategy<Value = Opts> {
	let levels: Vec<u8> = set_boxes.keys().copied().collect();
	let zlo = *levels.first().unwrap_or(&0);
	let zhi = *levels.last().unwrap_or(&0);
	let z = move || proptest::option::weighted(0.4, prop_oneof![4 => zlo.saturating_sub(1)..=(zhi + 1).min(33), 1 => 0u8..=40]);
	let (bz, bb) = set_boxes.iter().next().map(|(z, b)| (*z, *b)).unwrap_or((0, (0, 0, 0, 0)));
	// geographic box near the (untransformed or transformed) coverage, in tile space of one level
	let near = (0u32..=6, 0u32..=6, 0u32..=6, 0u32..=6, 0u8..4, -0.45f64..0.45, -0.45f64..0.45, any::<bool>(), any::<bool>()).prop_map(move |(a, b, c, d, kind, fx, fy, tf, ts)| {
		let n = Coord::size(bz) as f64;
		// the selection applies to output coordinates: aim at the transformed coverage as well
		let mut r = (bb.0 as f64, bb.1 as f64, bb.2 as f64 + 1.0, bb.3 as f64 + 1.0);
		if tf {
			r = (r.0, n - r.3, r.2, n - r.1);
		}
		if ts {
			r = (r.1, r.0, r.3, r.2);
		}
		let x0 = (r.0 + a as f64 - 2.0).clamp(0.0, n);
		let y0 = (r.1 + b as f64 - 2.0).clamp(0.0, n);
		let x1 = (r.2 - c as f64 + 2.0).clamp(x0, n);
		let y1 = (r.3 - d as f64 + 2.0).clamp(y0, n);
		let (fx, fy) = if kind == 0 { (0.0, 0.0) } else { (fx, fy) };
		let (x0, x1) = ((x0 + fx).clamp(0.0, n), (x1 + fx).clamp(0.0, n));
		let (y0, y1) = ((y0 + fy).clamp(0.0, n), (y1 + fy).clamp(0.0, n));
		let (x1, y1) = if kind == 3 { (x0, y0) } else { (x1, y1) };
		[georef::lon(x0, bz).clamp(-180.0, 180.0), georef::lat(y1, bz).clamp(-90.0, 90.0), georef::lon(x1, bz).clamp(-180.0, 180.0), georef::lat(y0, bz).clamp(-90.0, 90.0)]
	});
	let bbox = proptest::option::weighted(
		0.6,
		prop_oneof![
			5 => near,
			1 => Just([-180.0, -90.0, 180.0, 90.0]),
			1 => Just([-180.0, -85.05112877980659, 180.0, 85.05112877980659]),
			1 => (-180.0f64..180.0, -85.0f64..85.0, 0.0f64..200.0, 0.0f64..100.0).prop_map(|(w, s, dw, dh)| [w, s, (w + dw).min(180.0), (s + dh).min(90.0)]),
			1 => Just([179.0, 80.0, 180.0, 90.0]),
		],
	);
	let border = proptest::option::weighted(0.4, prop_oneof![6 => 0u32..5, 1 => Just(300u32), 1 => Just(u32::MAX)]);
	(z(), z(), bbox, border, any::<bool>(), any::<bool>()).prop_map(|(min_zoom, max_zoom, bbox, border, flip_y, swap_xy)| Opts { min_zoom, max_zoom, bbox, border, flip_y, swap_xy })
}

fn strategy() -> impl Strategy<Value = Case> {
	let mut cfg = GenCfg::small(vec![(Fmt::Png, Comp::None), (Fmt::Pbf, Comp::Gzip), (Fmt::Jpg, Comp::None), (Fmt::Webp, Comp::None)]);
	cfg.max_side = 14;
	cfg.heavy_payloads = false;
	cfg.adverts = vec![Advert::Tight, Advert::Loose(1)];
	(gen::set_spec(cfg), 0usize..5, proptest::option::of(any::<u32>()), 0usize..5, prop::bool::weighted(0.15), prop::bool::weighted(0.012), proptest::option::weighted(0.2, (1u8..4, 10u32..300))).prop_flat_map(|(mut spec, s, enc, t, chunky, big, dups)| {
		spec.pay = Pay::CoordText;
		// few distinct payloads: containers store them once (shared byte ranges, PMTiles runs)
		if let Some((variants, len)) = dups {
			spec.pay = Pay::Dups { variants, len };
		}
		let chunky = chunky && !big;
		if big {
			// more than 16384 tiles on one level (PMTiles leaf directories, several versatiles blocks)
			let l = &mut spec.levels[0];
			l.z = l.z.clamp(8, 20);
			let size = vt::model::Coord::size(l.z);
			l.w = 130;
			l.h = 130;
			l.x0 = (l.x0 as u64).min(size - 130) as u32;
			l.y0 = (l.y0 as u64).min(size - 130) as u32;
			l.shape = vt::model::Shape::Dense;
			spec.levels.truncate(1);
		}
		if chunky {
			// tiles of 6-9 KB in rectangles of at least 12 x 12: a selection of few columns leaves more
			// than 32 KiB of unselected data between selected tiles (chunked reads of the sources)
			spec.pay = Pay::Random { lo: 6000, hi: 9000 };
			spec.levels.truncate(2);
			for l in spec.levels.iter_mut() {
				let size = vt::model::Coord::size(l.z);
				l.w = (l.w.max(12) as u64).min(size) as u32;
				l.h = (l.h.max(12) as u64).min(size) as u32;
				l.x0 = (l.x0 as u64).min(size - l.w as u64) as u32;
				l.y0 = (l.y0 as u64).min(size - l.h as u64) as u32;
				if !matches!(l.shape, vt::model::Shape::Sparse(_)) {
					l.shape = vt::model::Shape::Dense;
				}
			}
		}
		let boxes = spec.materialise().tight_boxes();
		(Just(spec), opts(boxes)).prop_map(move |(spec, opts)| Case { spec, source: if chunky { Target::Versatiles } else { Target::ALL[s] }, enc, target: Target::ALL[t], opts })
	})
}

fn describe(o: &Opts) -> String {
	format!("min={:?} max={:?} bbox={:?} border={:?} flip={} swap={}", o.min_zoom, o.max_zoom, o.bbox, o.border, o.flip_y, o.swap_xy)
}

fn labels(case: &Case, exp: &BTreeMap<Coord, (Vec<u8>, Sel)>, obs: &mut Obs) {
	let o = &case.opts;
	obs.label(format!("flip={},swap={}", o.flip_y, o.swap_xy));
	obs.label_if(o.bbox.is_some(), "bbox");
	obs.label_if(o.border.map(|b| b > 0).unwrap_or(false) && o.bbox.is_some(), "bbox-border");
	obs.label_if(o.min_zoom.is_some() || o.max_zoom.is_some(), "zoom-limits");
	obs.label_if(matches!((o.min_zoom, o.max_zoom), (Some(a), Some(b)) if a > b), "min>max");
	let n_in = exp.values().filter(|(_, s)| *s == Sel::In).count();
	let n_out = exp.values().filter(|(_, s)| *s == Sel::Out).count();
	obs.label_if(n_in > 0 && n_out > 0, "selection-cuts-coverage");
	obs.label_if(n_in == 0, "nothing-selected");
	obs.label_if(matches!(case.spec.pay, Pay::Random { .. }), "tiles-of-6-9KB");
	obs.label_if(matches!(case.spec.pay, Pay::Dups { .. }), "few-distinct-payloads");
	obs.label_if(exp.len() > 16384, "more-than-16384-tiles");
	obs.label_if(n_in > 16384, "more-than-16384-tiles-selected");
	obs.label_if(matches!(case.spec.pay, Pay::Random { .. }) && case.source == Target::Versatiles && n_in > 0 && n_out > 0, "versatiles-source-with-6-9KB-tiles-cut-by-the-selection");
	let moved = exp.len() >= 2 && (o.flip_y || o.swap_xy);
	obs.nontrivial(exp.len() >= 2 && ((o.flip_y && o.swap_xy) || (o.bbox.is_some() && n_in > 0 && n_out > 0)) && (moved || o.bbox.is_some()));
}

// ---------------------------------------------------------------------------------------
// phase 1: the command line
// ---------------------------------------------------------------------------------------

fn make_source(case: &Case, set: &TileSet, guards: &mut Vec<TmpGuard>) -> Result<std::path::PathBuf, Fail> {
	let path = match case.enc {
		Some(seed) => encode_fixture(set, case.source, seed)?,
		None => {
			let p = case.source.fresh_path();
			let mut src = MemReader::new(set, "mem");
			write_with_repo(&mut src, &p)?;
			p
		}
	};
	guards.push(TmpGuard(path.clone()));
	Ok(path)
}

fn cli_oracle(case: &Case, obs: &mut Obs) -> Result<(), Fail> {
	let set = case.spec.materialise();
	let mut guards = vec![];
	let src = make_source(case, &set, &mut guards)?;
	let dst = case.target.fresh_path();
	guards.push(TmpGuard(dst.clone()));
	let o = &case.opts;
	let mut args: Vec<String> = vec!["convert".into()];
	if let Some(z) = o.min_zoom {
		args.push(format!("--min-zoom={z}"));
	}
	if let Some(z) = o.max_zoom {
		args.push(format!("--max-zoom={z}"));
	}
	if let Some(b) = &o.bbox {
		args.push(format!("--bbox={},{},{},{}", b[0], b[1], b[2], b[3]));
	}
	if let Some(b) = o.border {
		args.push(format!("--bbox-border={b}"));
	}
	if o.flip_y {
		args.push("--flip-y".into());
	}
	if o.swap_xy {
		args.push("--swap-xy".into());
	}
	args.push(src.to_str().unwrap().into());
	args.push(dst.to_str().unwrap().into());
	let out = vt::cli::run(&args);
	let exp = expected(&set, o);
	labels(case, &exp, obs);
	obs.label(format!("{}->{}", case.source.name(), case.target.name()));
	let must: Vec<&Coord> = exp.iter().filter(|(_, (_, s))| *s == Sel::In).map(|(c, _)| c).collect();
	let ctx = format!("convert {} ({} -> {})", describe(o), case.source.name(), case.target.name());
	if out.status != Some(0) {
		// an empty selection may be reported as an error
		if must.is_empty() {
			obs.label("cli-failed-on-empty-selection");
			return Ok(());
		}
		let tail: String = out.stderr.lines().rev().take(6).collect::<Vec<_>>().into_iter().rev().collect::<Vec<_>>().join(" | ");
		let sig = if out.status == Some(101) { "convert:cli-panicked" } else { "convert:cli-failed" };
		fail!(sig, "{ctx}: exit status {:?} although {} tiles are selected (e.g. {}): {tail}", out.status, must.len(), must[0]);
	}
	let dec = match decode_independent(case.target, &dst) {
		Ok(d) => d,
		Err(e) => {
			if must.is_empty() {
				obs.label("empty-output-undecodable");
				return Ok(());
			}
			fail!("layout:undecodable", "{ctx}: independent decoder rejects the output: {e}");
		}
	};
	for (c, (bytes, sel)) in &exp {
		match (sel, dec.tiles.get(c)) {
			(Sel::DontCare, None) => {}
			(Sel::In, None) => fail!("convert:selected-tile-missing", "{ctx}: output lacks {c} (pre-image has a tile and {c} is inside the selection)"),
			(Sel::Out, Some(_)) => fail!("convert:unselected-tile-present", "{ctx}: output contains {c}, which is outside the selection"),
			(Sel::Out, None) => {}
			(_, Some(got)) => ensure_prop!(got == bytes, "convert:wrong-payload", "{ctx}: tile {c} carries {:?}, the source tile at its pre-image is {:?}", String::from_utf8_lossy(&got[..got.len().min(50)]), String::from_utf8_lossy(&bytes[..bytes.len().min(50)])),
		}
	}
	for (c, got) in &dec.tiles {
		if !got.is_empty() && !exp.contains_key(c) {
			fail!("convert:invented-tile", "{ctx}: output contains {c} ({} bytes) but the source has no tile at its pre-image", got.len());
		}
	}
	Ok(())
}

// ---------------------------------------------------------------------------------------
// phase 2: the converting reader of the library
// ---------------------------------------------------------------------------------------

/// selection pyramid from integer tile ranges computed with the reference (independent of from_geo):
/// only used for zoom limits and tile-aligned boxes, where no rounding is involved
#[derive(Clone, Debug, Serialize, Deserialize)]
struct LibCase {
	spec: SetSpec,
	flip_y: bool,
	swap_xy: bool,
	zoom: Option<(u8, u8)>,
	/// per-level selection boxes relative to the transformed coverage: (shrink/grow amounts)
	sel: Option<[i8; 4]>,
	default_stream: bool,
}

fn lib_strategy() -> impl Strategy<Value = LibCase> {
	let mut cfg = GenCfg::small(vec![(Fmt::Png, Comp::None), (Fmt::Pbf, Comp::Gzip), (Fmt::Json, Comp::Brotli)]);
	cfg.max_side = 14;
	cfg.heavy_payloads = false;
	(gen::set_spec(cfg), any::<bool>(), any::<bool>(), proptest::option::weighted(0.3, (0u8..14, 0u8..32)), proptest::option::weighted(0.6, [-3i8..4, -3i8..4, -3i8..4, -3i8..4]), any::<bool>()).prop_map(|(mut spec, flip_y, swap_xy, zoom, sel, default_stream)| {
		spec.pay = Pay::CoordText;
		LibCase { spec, flip_y, swap_xy, zoom, sel, default_stream }
	})
}

fn lib_oracle(case: &LibCase, obs: &mut Obs) -> Result<(), Fail> {
	let set = case.spec.materialise();
	let o = Opts { min_zoom: None, max_zoom: None, bbox: None, border: None, flip_y: case.flip_y, swap_xy: case.swap_xy };
	// transformed coverage of the tiles
	let mut tcov: BTreeMap<u8, (u32, u32, u32, u32)> = BTreeMap::new();
	for c in set.tiles.keys() {
		let t = forward(c, &o);
		let e = tcov.entry(t.z).or_insert((t.x, t.y, t.x, t.y));
		*e = (e.0.min(t.x), e.1.min(t.y), e.2.max(t.x), e.3.max(t.y));
	}
	// selection pyramid
	let mut selection: Option<BTreeMap<u8, Option<(u32, u32, u32, u32)>>> = None;
	if case.zoom.is_some() || case.sel.is_some() {
		let mut m = BTreeMap::new();
		for z in 0..=31u8 {
			let max = (Coord::size(z) - 1) as i64;
			let mut b: Option<(u32, u32, u32, u32)> = Some((0, 0, max as u32, max as u32));
			if let Some((a, bz)) = case.zoom {
				if z < a.min(bz) || z > a.max(bz) {
					b = None;
				}
			}
			if let (Some(d), Some(tc), Some(_)) = (case.sel, tcov.get(&z), b) {
				let x0 = (tc.0 as i64 + d[0] as i64).clamp(0, max);
				let y0 = (tc.1 as i64 + d[1] as i64).clamp(0, max);
				let x1 = (tc.2 as i64 - d[2] as i64).clamp(0, max);
				let y1 = (tc.3 as i64 - d[3] as i64).clamp(0, max);
				b = if x0 <= x1 && y0 <= y1 { Some((x0 as u32, y0 as u32, x1 as u32, y1 as u32)) } else { None };
			}
			m.insert(z, b);
		}
		selection = Some(m);
	}
	let in_sel = |c: &Coord| -> bool {
		match &selection {
			None => true,
			Some(m) => m.get(&c.z).copied().flatten().map(|b| c.x >= b.0 && c.x <= b.2 && c.y >= b.1 && c.y <= b.3).unwrap_or(false),
		}
	};
	let pyramid = selection.as_ref().map(|m| {
		let mut p = TileBBoxPyramid::new_empty();
		for (z, b) in m {
			if let Some(b) = b {
				p.set_level_bbox(TileBBox::new(*z, b.0, b.1, b.2, b.3).unwrap());
			}
		}
		p
	});
	let reader: Box<dyn TilesReaderTrait> = Box::new(mem_reader(&set, case.default_stream));
	let cp = TilesConverterParameters::new(None, pyramid, false, case.flip_y, case.swap_xy);
	let conv = match vt::guard(|| TilesConvertReader::new_from_reader(reader, cp)) {
		Ok(Ok(c)) => c,
		Ok(Err(e)) => fail!("convert:build-error", "building the converting reader failed: {e:#}"),
		Err(p) => return Err(Fail::from_panic("building the converting reader", &p)),
	};
	let source = Source::Reader(Box::new(conv));
	let cov = source.coverage();
	let covered = |c: &Coord| cov.get(&c.z).map(|b| c.x >= b.0 && c.x <= b.2 && c.y >= b.1 && c.y <= b.3).unwrap_or(false);

	// expected mapping
	let mut exp: BTreeMap<Coord, Vec<u8>> = BTreeMap::new();
	for (c, b) in set.nonempty() {
		exp.insert(forward(c, &o), b.clone());
	}
	let ctx = format!("flip={} swap={} zoom={:?} sel={:?}", case.flip_y, case.swap_xy, case.zoom, case.sel);
	// a known finding must not hide other violations: remember it and report it last
	let mut known: Option<Fail> = None;

	// advertised coverage: contains every selected tile
	for c in exp.keys() {
		if in_sel(c) {
			ensure_prop!(covered(c), "convert:selected-tile-outside-coverage", "{ctx}: tile {c} is selected and has a source tile, but lies outside the advertised coverage {:?}", cov.get(&c.z));
		}
	}
	// lookups over transformed tiles, their pre-images (as output coordinates) and neighbours
	let mut probes: BTreeSet<Coord> = BTreeSet::new();
	for c in set.probes(1, 150) {
		probes.insert(c);
		if c.in_range() {
			probes.insert(forward(&c, &o));
		}
	}
	for c in &probes {
		let got = match source.lookup(c) {
			Ok(Ok(g)) => g,
			Ok(Err(e)) => fail!("convert:lookup-error", "{ctx}: lookup of {c} failed: {e}"),
			Err(p) => return Err(Fail::from_panic(&format!("{ctx}: lookup of {c}"), &p)),
		};
		let want = exp.get(c);
		match (want, got) {
			(Some(w), Some(g)) if in_sel(c) => ensure_prop!(&g == w, "convert:lookup-wrong-tile", "{ctx}: lookup of {c} returns {:?}, the source tile at its pre-image is {:?}", String::from_utf8_lossy(&g[..g.len().min(50)]), String::from_utf8_lossy(&w[..w.len().min(50)])),
			(Some(_), None) if in_sel(c) => fail!("convert:lookup-misses-tile", "{ctx}: lookup of {c} returns nothing although its pre-image has a tile and {c} is selected"),
			(None, Some(g)) => fail!("convert:lookup-invents-tile", "{ctx}: lookup of {c} returns {:?} although the source has no tile at its pre-image", String::from_utf8_lossy(&g[..g.len().min(50)])),
			(Some(w), Some(g)) => {
				// outside the selection = outside the advertised coverage
				if &g != w {
					fail!("convert:lookup-wrong-tile", "{ctx}: lookup of {c} (outside the selection) returns a foreign tile");
				}
				if known.is_none() {
					known = Some(Fail::new("convert:lookup-outside-advertised-coverage", format!("{ctx}: lookup of {c} returns a tile although {c} is outside the selection / advertised coverage {:?}", cov.get(&c.z))));
				}
			}
			_ => {}
		}
	}
	// streams over the advertised level boxes deliver exactly the selected tiles
	for (z, b) in &cov {
		let area = (b.2 - b.0 + 1) as u64 * (b.3 - b.1 + 1) as u64;
		if area > 20_000 {
			continue;
		}
		let bbox = TileBBox::new(*z, b.0, b.1, b.2, b.3).unwrap();
		let got = match source.stream(bbox) {
			Ok(v) => v,
			Err(p) => return Err(Fail::from_panic(&format!("{ctx}: stream over level {z}"), &p)),
		};
		let mut m: BTreeMap<Coord, Vec<u8>> = BTreeMap::new();
		for (c, bytes) in got {
			ensure_prop!(m.insert(c, bytes).is_none(), "convert:stream-duplicate", "{ctx}: stream over level {z} delivers {c} twice");
		}
		for (c, w) in exp.iter().filter(|(c, _)| c.z == *z && in_sel(c)) {
			match m.get(c) {
				Some(g) => ensure_prop!(g == w, "convert:stream-wrong-tile", "{ctx}: stream over level {z} delivers a wrong payload for {c}"),
				None => fail!("convert:stream-misses-tile", "{ctx}: stream over level {z} does not deliver the selected tile {c}"),
			}
		}
		for c in m.keys() {
			ensure_prop!(exp.contains_key(c) && covered(c), "convert:stream-extra-tile", "{ctx}: stream over level {z} delivers {c}, which is not a selected tile");
		}
	}
	obs.label(format!("flip={},swap={}", case.flip_y, case.swap_xy));
	obs.label_if(case.zoom.is_some(), "zoom-selection");
	obs.label_if(case.sel.is_some(), "box-selection");
	let distinct_images = exp.len() >= 2;
	obs.nontrivial(distinct_images && ((case.flip_y && case.swap_xy) || case.sel.is_some()));
	match known {
		Some(k) => Err(k),
		None => Ok(()),
	}
}


// ---------------------------------------------------------------------------------------
// phase 3: `versatiles serve` with transform flags against a conversion with the same flags
// ---------------------------------------------------------------------------------------

#[derive(Clone, Debug, Serialize, Deserialize)]
struct SrvCase {
	spec: SetSpec,
	source: Target,
	enc: Option<u32>,
	flip_y: bool,
	swap_xy: bool,
}

fn srv_strategy() -> impl Strategy<Value = SrvCase> {
	let mut cfg = GenCfg::small(vec![(Fmt::Png, Comp::None), (Fmt::Pbf, Comp::Gzip), (Fmt::Jpg, Comp::None), (Fmt::Webp, Comp::None)]);
	cfg.max_side = 8;
	cfg.max_zoom = 20;
	cfg.heavy_payloads = false;
	cfg.really_compressed = true;
	cfg.adverts = vec![Advert::Tight];
	(gen::set_spec(cfg), 0usize..5, proptest::option::of(any::<u32>()), 0u8..8).prop_map(|(mut spec, s, enc, f)| {
		spec.pay = Pay::CoordText;
		// both flags in half of the cases
		let (flip_y, swap_xy) = match f {
			0 => (true, false),
			1 => (false, true),
			2 => (false, false),
			_ => (true, true),
		};
		SrvCase { spec, source: Target::ALL[s], enc, flip_y, swap_xy }
	})
}

fn srv_oracle(case: &SrvCase, obs: &mut Obs) -> Result<(), Fail> {
	use vt::server::{Exchange, Server};
	let set = case.spec.materialise();
	let mut guards = vec![];
	let c = Case { spec: case.spec.clone(), source: case.source, enc: case.enc, target: Target::Versatiles, opts: Opts { min_zoom: None, max_zoom: None, bbox: None, border: None, flip_y: case.flip_y, swap_xy: case.swap_xy } };
	let src = make_source(&c, &set, &mut guards)?;
	// conversion with the same flags
	let dst = Target::Versatiles.fresh_path();
	guards.push(TmpGuard(dst.clone()));
	let mut args: Vec<String> = vec!["convert".into()];
	if case.flip_y {
		args.push("--flip-y".into());
	}
	if case.swap_xy {
		args.push("--swap-xy".into());
	}
	args.push(src.to_str().unwrap().into());
	args.push(dst.to_str().unwrap().into());
	let out = vt::cli::run(&args);
	ensure_prop!(out.status == Some(0), "convert:cli-failed", "convert with flip={} swap={} failed: {}", case.flip_y, case.swap_xy, out.stderr.lines().last().unwrap_or(""));
	let conv = decode_independent(Target::Versatiles, &dst).map_err(|e| Fail::new("layout:undecodable", e))?;
	// the server with the same flags
	let mut sargs: Vec<String> = vec![];
	if case.flip_y {
		sargs.push("--flip-y".into());
	}
	if case.swap_xy {
		sargs.push("--swap-xy".into());
	}
	// the same container under one to three ids: the flags apply to every tile source of the server
	let ids = &["src", "second", "third"][..1 + set.tiles.len() % 3];
	for id in ids {
		sargs.push(vt::server::source_arg(&src, id));
	}
	let mut server = Server::start(&sargs);
	let mut probes: BTreeSet<Coord> = BTreeSet::new();
	for c in set.probes(1, 60) {
		probes.insert(c);
		if c.in_range() {
			probes.insert(forward(&c, &c_opts(case)));
		}
	}
	let mut requests = 0u64;
	for (k, c) in probes.iter().enumerate() {
		let target = format!("/tiles/{}/{}/{}/{}", ids[k % ids.len()], c.z, c.x, c.y);
		requests += 1;
		match server.get(&target, &[("Accept-Encoding", "gzip, br")]) {
			Exchange::Dropped(e) => fail!("serve:connection-dropped", "GET {target} with flip={} swap={}: {e}", case.flip_y, case.swap_xy),
			Exchange::Response(r) => {
				let want = conv.tiles.get(c);
				match (want, r.status) {
					(Some(w), 200) => {
						let body = r.decoded_body().map_err(|e| Fail::new("serve:undecodable-body", format!("GET {target}: {e}")))?;
						let raw = util::decompress(w, case.spec.comp).map_err(|e| Fail::new("harness:decompress", e))?;
						ensure_prop!(body == raw, "serve:mapping-differs-from-convert", "GET {target} with flip={} swap={} returns {:?}, the converted file holds {:?} at {c}", case.flip_y, case.swap_xy, String::from_utf8_lossy(&body[..body.len().min(40)]), String::from_utf8_lossy(&raw[..raw.len().min(40)]));
					}
					(None, 404) | (None, 400) => {}
					(Some(_), st) => fail!("serve:mapping-differs-from-convert", "GET {target} with flip={} swap={} gives status {st}, the converted file holds a tile at {c}", case.flip_y, case.swap_xy),
					(None, st) => {
						let body = r.decoded_body().unwrap_or_default();
						fail!("serve:mapping-differs-from-convert", "GET {target} with flip={} swap={} gives status {st} ({:?}), the converted file holds no tile at {c}", case.flip_y, case.swap_xy, String::from_utf8_lossy(&body[..body.len().min(40)]))
					}
				}
			}
		}
	}
	obs.count("requests", requests);
	obs.label(format!("flip={},swap={}", case.flip_y, case.swap_xy));
	obs.label(format!("source:{}", case.source.name()));
	obs.label(format!("tile-sources-on-the-server={}", ids.len()));
	obs.nontrivial(case.flip_y && case.swap_xy && conv.tiles.len() >= 2);
	Ok(())
}

fn c_opts(case: &SrvCase) -> Opts {
	Opts { min_zoom: None, max_zoom: None, bbox: None, border: None, flip_y: case.flip_y, swap_xy: case.swap_xy }
}

fn main() {
	let mut check = Check::from_args(
		"C06",
		"exploration",
		"phase cli: tile sets with unique payloads in a source container of any format (repository writer or harness encoder) x `versatiles convert` options --min-zoom/--max-zoom (incl. min > max, beyond the range), --bbox (derived from the plain or transformed coverage in tile space: on tile edges, cutting tiles, degenerate points; world, Mercator limits, poles, antimeridian), --bbox-border (0..4, 300, u32::MAX), --flip-y, --swap-xy x target format; expected output from the model: c present iff zoom in range and c definitely inside the bbox (+border) by the independent Mercator reference (guard-band tiles don't care) and the source has a tile at the pre-image of c under 'flip then swap'; output decoded by the independent decoder; an empty selection may fail. phase library: TilesConvertReader with flags, zoom selection and integer tile-box selections: lookups over tiles/pre-images/neighbours, streams over the advertised level boxes and the advertised coverage against the same model. phase serve: `versatiles serve --flip-y/--swap-xy` over a generated source: GET /tiles/<id>/z/x/y for all tile coordinates, their images and neighbours must equal (200 + payload / 404) the independently decoded output of `versatiles convert` with the same flags. non-trivial = >= 2 tiles and (both flags set, or a selection that cuts the coverage)",
	);
	check.assume("compression is left unchanged (C04 covers recompression)");
	vt::engine::watchdog(3600);
	let reg: Vec<LibCase> = check.regression_cases("library");
	check.enumerate("regress-library", reg, false, lib_oracle);
	check.phase("library", check.cases(60_000, 1_000_000), lib_strategy, lib_oracle);
	vt::cli::build_binary();
	let reg: Vec<Case> = check.regression_cases("cli");
	check.enumerate("regress-cli", reg, false, cli_oracle);
	check.phase("cli", check.cases(10_000, 150_000), strategy, cli_oracle);
	let reg: Vec<SrvCase> = check.regression_cases("serve");
	check.enumerate("regress-serve", reg, false, srv_oracle);
	check.workers = check.workers.min(8);
	check.phase("serve", check.cases(600, 12_000), srv_strategy, srv_oracle);
	check.finish();
}

//! C05 — the HTTP tile endpoint serves exactly the stored tile under content negotiation.
//!
//! One case = one `versatiles serve` process with 1–3 tile sources (containers written by the
//! repository's writers or by the harness's independent encoders, payloads really compressed
//! with the declared compression) and a list of raw requests `GET /tiles/<id>/<z>/<x>/<y>[.ext]`
//! with generated `Accept-Encoding` headers.

use proptest::collection::vec;
use proptest::prelude::*;
use serde::{Deserialize, Serialize};
use std::collections::{BTreeMap, BTreeSet};
use vt::containers::{write_with_repo, Target};
use vt::engine::{Check, Fail, Obs};
use vt::gen::{self, GenCfg};
use vt::model::{Advert, Coord, MemReader, SetSpec, TileSet};
use vt::server::{Exchange, Response, Server};
use vt::util::{pick, Comp, TmpGuard};
use vt::{ensure_prop, fail};

// ---------------------------------------------------------------------------------------
// case
// ---------------------------------------------------------------------------------------

const IDS: [&str; 8] = ["a", "tiles", "osm", "T1", "x-y_z", "my.id", "0", "planet.v2"];
const ENCODINGS: [&str; 5] = ["gzip", "br", "deflate", "identity", "zstd"];
const EXTS: [&str; 9] = [".png", ".pbf", ".jpeg", ".x", ".tar.gz", ".5", ".webp", ".json", ".mvt"];
const WORDS: [&str; 12] = ["abc", "x", "NaN", "-", "+", "_1", "a1", "null", "z", "true", "~", "one"];
/// suffixes glued to a number (the server reads the leading digits of y and ignores the rest)
const TRAILS: [&str; 6] = ["abc", ";", ",4", "px", "_", "-1"];

#[derive(Clone, Debug, Serialize, Deserialize, PartialEq, Eq)]
struct Src {
	spec: SetSpec,
	target: Target,
	/// None = the repository's writer; Some(seed) = the harness encoder with a layout from the seed
	enc: Option<u32>,
	/// 0 `path[id]`, 1 `[id]path`, 2 `path#id`, 3 id derived from the file name
	id_style: u8,
	id: u8,
}

#[derive(Clone, Debug, Serialize, Deserialize, PartialEq, Eq)]
enum Part {
	N(u64),
	Plus(u32),
	Minus(u32),
	Zeros(u32, u8),
	Empty,
	Word(u8),
	/// the value in non-ASCII decimal digits (0 Arabic-Indic, 1 fullwidth, 2 Devanagari), percent-encoded UTF-8
	Uni(u32, u8),
	/// that many digits, first one non-zero
	Long(u16),
	Trail(u32, u8),
	Hex(u32),
	Exp(u8, u8),
}

#[derive(Clone, Debug, Serialize, Deserialize, PartialEq, Eq)]
enum Cs {
	Stored(u16),
	Near(u16, i8, i8),
	/// a coordinate of a stored level, anywhere in the level
	Level(u16, u32, u32),
	/// x and/or y beyond the level extent: which 0 = x, 1 = y, 2 = both; kind 0 = 2^z + add, 1 = u32::MAX - add, 2 = 2^32 + add
	Beyond(u16, u8, u8, u16),
	AnyZ(u8, u32, u32),
	HighZ(u16, u32, u32),
	Raw(Part, Part, Part),
	/// a stored tile with one part (0 z, 1 x, 2 y) spelled differently
	Respell(u16, u8, u8),
	/// a stored tile moved out of its level by a whole number of level widths or of 256-tile
	/// blocks (which 0 = x, 1 = y, 2 = both; the coordinate that arithmetic modulo the level or
	/// modulo the block grid would fold back onto the stored tile)
	Alias(u16, u8, u8),
	/// the out-of-level coordinate whose 256-tile block has, under a row-major numbering of the
	/// blocks of all levels, the number of a stored tile's block (mode 0: one level up, the block
	/// row just below the level; mode 1: same level, one row up and a level width to the right),
	/// with the stored tile's position inside the block
	BlockAlias(u16, u8),
}

#[derive(Clone, Debug, Serialize, Deserialize, PartialEq, Eq)]
struct Enc {
	token: u8,
	case_mask: u8,
	/// weight in thousandths, 1..=1000
	q: Option<u16>,
	q_style: u8,
}

#[derive(Clone, Debug, Serialize, Deserialize, PartialEq, Eq)]
struct Req {
	src: u16,
	coord: Cs,
	ext: Option<u8>,
	accept: Option<Vec<Enc>>,
	sep: bool,
}

#[derive(Clone, Debug, Serialize, Deserialize, PartialEq, Eq)]
struct Case {
	sources: Vec<Src>,
	fast: bool,
	requests: Vec<Req>,
	/// requests outside the stated form (fewer / more path parts), sent unasserted
	probes: Vec<(u16, u8)>,
}

fn src_for(t: Target) -> BoxedStrategy<Src> {
	let mut cfg = GenCfg::small(t.pairs());
	cfg.really_compressed = true;
	cfg.allow_empty_payloads = false;
	cfg.heavy_payloads = true;
	cfg.max_side = 10;
	cfg.max_levels = 3;
	cfg.adverts = vec![Advert::Tight, Advert::Tight, Advert::Loose(1)];
	(gen::set_spec(cfg), proptest::option::weighted(0.5, any::<u32>()), 0u8..4, 0u8..IDS.len() as u8).prop_map(move |(spec, enc, id_style, id)| Src { spec, target: t, enc, id_style, id }).boxed()
}

fn src() -> impl Strategy<Value = Src> {
	prop_oneof![
		5 => src_for(Target::Versatiles),
		2 => src_for(Target::Mbtiles),
		2 => src_for(Target::Pmtiles),
		2 => src_for(Target::Tar),
		1 => src_for(Target::Dir),
	]
}

fn part() -> impl Strategy<Value = Part> {
	prop_oneof![
		4 => prop_oneof![0u64..40, any::<u32>().prop_map(|v| v as u64), Just(u32::MAX as u64 + 1), any::<u64>()].prop_map(Part::N),
		2 => (0u32..40).prop_map(Part::Plus),
		2 => (0u32..40).prop_map(Part::Minus),
		2 => (0u32..40, 1u8..4).prop_map(|(v, k)| Part::Zeros(v, k)),
		1 => Just(Part::Empty),
		3 => (0u8..WORDS.len() as u8).prop_map(Part::Word),
		2 => (0u32..40, 0u8..3).prop_map(|(v, k)| Part::Uni(v, k)),
		1 => prop_oneof![Just(11u16), Just(20u16), Just(40u16), 100u16..2000].prop_map(Part::Long),
		2 => (0u32..40, 0u8..TRAILS.len() as u8).prop_map(|(v, k)| Part::Trail(v, k)),
		1 => (0u32..40).prop_map(Part::Hex),
		1 => (0u8..10, 0u8..4).prop_map(|(m, e)| Part::Exp(m, e)),
	]
}

fn cs() -> impl Strategy<Value = Cs> {
	prop_oneof![
		10 => any::<u16>().prop_map(Cs::Stored),
		5 => (any::<u16>(), -2i8..=2, -2i8..=2).prop_map(|(s, dx, dy)| Cs::Near(s, dx, dy)),
		3 => (any::<u16>(), any::<u32>(), any::<u32>()).prop_map(|(s, x, y)| Cs::Level(s, x, y)),
		4 => (any::<u16>(), 0u8..3, 0u8..3, prop_oneof![Just(0u16), Just(1u16), any::<u16>()]).prop_map(|(s, w, k, a)| Cs::Beyond(s, w, k, a)),
		2 => (0u8..=31, any::<u32>(), any::<u32>()).prop_map(|(z, x, y)| Cs::AnyZ(z, x, y)),
		2 => (prop_oneof![32u16..=255, Just(256u16), 257u16..1000], 0u32..8, 0u32..8).prop_map(|(z, x, y)| Cs::HighZ(z, x, y)),
		3 => (part(), part(), part()).prop_map(|(z, x, y)| Cs::Raw(z, x, y)),
		// empty parts in every position, all three at once included (`/tiles/<id>///`)
		1 => (any::<bool>(), any::<bool>(), any::<bool>(), part(), part(), part()).prop_map(|(a, b, c, z, x, y)| {
			let (a, b, c) = if !(a || b || c) { (true, true, true) } else { (a, b, c) };
			Cs::Raw(if a { Part::Empty } else { z }, if b { Part::Empty } else { x }, if c { Part::Empty } else { y })
		}),
		4 => (any::<u16>(), 0u8..3, 0u8..8).prop_map(|(s, w, k)| Cs::Respell(s, w, k)),
		3 => (any::<u16>(), 0u8..3, 0u8..5).prop_map(|(s, w, k)| Cs::Alias(s, w, k)),
		3 => (any::<u16>(), 0u8..2).prop_map(|(s, m)| Cs::BlockAlias(s, m)),
	]
}

fn accept() -> impl Strategy<Value = Option<Vec<Enc>>> {
	let enc = (0u8..ENCODINGS.len() as u8, prop_oneof![3 => Just(0u8), 1 => Just(255u8), 2 => any::<u8>()], proptest::option::weighted(0.4, prop_oneof![Just(1000u16), Just(1u16), Just(500u16), 1u16..=1000]), 0u8..4)
		.prop_map(|(token, case_mask, q, q_style)| Enc { token, case_mask, q, q_style });
	proptest::option::weighted(
		0.85,
		vec(enc, 0..=5).prop_map(|v| {
			// an ordered subset: the first occurrence of every token
			let mut seen = BTreeSet::new();
			v.into_iter().filter(|e| seen.insert(e.token)).collect::<Vec<Enc>>()
		}),
	)
}

fn req() -> impl Strategy<Value = Req> {
	(any::<u16>(), cs(), proptest::option::weighted(0.4, 0u8..EXTS.len() as u8), accept(), any::<bool>()).prop_map(|(src, coord, ext, accept, sep)| Req { src, coord, ext, accept, sep })
}

fn strategy() -> impl Strategy<Value = Case> {
	(vec(src(), 1..=3), any::<bool>(), vec(req(), 1..400), vec((any::<u16>(), 0u8..6), 0..4)).prop_map(|(sources, fast, requests, probes)| Case { sources, fast, requests, probes })
}

// ---------------------------------------------------------------------------------------
// spelling and classification of coordinates
// ---------------------------------------------------------------------------------------

/// what the harness says about one path part
#[derive(Clone, Debug, PartialEq)]
enum PC {
	/// canonical decimal: exactly this value (None = larger than u64)
	Canon(Option<u64>),
	/// a spelling that may or may not be read as one of these values
	Ambig(Vec<u64>),
	/// a number that cannot be a tile coordinate whatever the reading (negative)
	Never,
	NonNum,
	Empty,
}

fn uni_digits(v: u32, kind: u8) -> String {
	let base: u32 = match kind % 3 {
		0 => 0x0660,
		1 => 0xFF10,
		_ => 0x0966,
	};
	let mut s = String::new();
	for d in v.to_string().bytes() {
		let c = char::from_u32(base + (d - b'0') as u32).unwrap();
		let mut buf = [0u8; 4];
		for b in c.encode_utf8(&mut buf).bytes() {
			s.push_str(&format!("%{b:02X}"));
		}
	}
	s
}

fn spell(p: &Part) -> (String, PC) {
	match p {
		Part::N(v) => (v.to_string(), PC::Canon(Some(*v))),
		Part::Plus(v) => (format!("+{v}"), PC::Ambig(vec![*v as u64])),
		Part::Minus(0) => ("-0".into(), PC::Ambig(vec![0])),
		Part::Minus(v) => (format!("-{v}"), PC::Never),
		Part::Zeros(v, k) => (format!("{}{v}", "0".repeat((*k).max(1) as usize)), PC::Ambig(vec![*v as u64])),
		Part::Empty => (String::new(), PC::Empty),
		Part::Word(i) => (WORDS[*i as usize % WORDS.len()].to_string(), PC::NonNum),
		Part::Uni(v, k) => (uni_digits(*v, *k), PC::Ambig(vec![*v as u64])),
		Part::Long(n) => {
			let mut s = String::from("1");
			for i in 1..(*n).max(2) {
				s.push((b'0' + (i % 10) as u8) as char);
			}
			let v = if s.len() <= 19 { s.parse::<u64>().ok() } else { None };
			(s, PC::Canon(v))
		}
		Part::Trail(v, k) => (format!("{v}{}", TRAILS[*k as usize % TRAILS.len()]), PC::Ambig(vec![*v as u64])),
		Part::Hex(v) => (format!("0x{v:x}"), PC::Ambig(vec![0, *v as u64])),
		Part::Exp(m, e) => (format!("{m}e{e}"), PC::Ambig(vec![*m as u64, *m as u64 * 10u64.pow(*e as u32)])),
	}
}

#[derive(Clone, Debug, PartialEq)]
enum Class {
	/// all three parts canonical and inside the level
	InRange(Coord),
	/// canonical numbers, but not a coordinate of any level (z > 31, x or y >= 2^z)
	OutOfRange,
	NonNumeric,
	HasEmpty,
	/// at least one ambiguous spelling: the in-range coordinates it may denote
	Ambiguous(Vec<Coord>),
}

fn classify(parts: &[PC; 3]) -> Class {
	if parts.iter().any(|p| *p == PC::Empty) {
		return Class::HasEmpty;
	}
	if parts.iter().any(|p| *p == PC::NonNum) {
		return Class::NonNumeric;
	}
	let readings = |p: &PC| -> Vec<u64> {
		match p {
			PC::Canon(Some(v)) => vec![*v],
			PC::Ambig(v) => v.clone(),
			_ => vec![],
		}
	};
	let all_canon = parts.iter().all(|p| matches!(p, PC::Canon(_) | PC::Never));
	let mut coords = vec![];
	for z in readings(&parts[0]) {
		for x in readings(&parts[1]) {
			for y in readings(&parts[2]) {
				if z <= 31 && x < (1u64 << z) && y < (1u64 << z) {
					coords.push(Coord::new(z as u8, x as u32, y as u32));
				}
			}
		}
	}
	if all_canon {
		match coords.first() {
			Some(c) => Class::InRange(*c),
			None => Class::OutOfRange,
		}
	} else {
		Class::Ambiguous(coords)
	}
}

struct Built {
	set: TileSet,
	coords: Vec<Coord>,
	levels: Vec<u8>,
	id: String,
	label: String,
}

fn expand(b: &Built, cs: &Cs) -> [Part; 3] {
	let stored = |sel: u16| b.coords[pick(sel as u32, b.coords.len())];
	let n = |v: i64| if v < 0 { Part::Minus((-v) as u32) } else { Part::N(v as u64) };
	match cs {
		Cs::Stored(s) => {
			let c = stored(*s);
			[Part::N(c.z as u64), Part::N(c.x as u64), Part::N(c.y as u64)]
		}
		Cs::Near(s, dx, dy) => {
			let c = stored(*s);
			[Part::N(c.z as u64), n(c.x as i64 + *dx as i64), n(c.y as i64 + *dy as i64)]
		}
		Cs::Level(s, x, y) => {
			let z = b.levels[pick(*s as u32, b.levels.len())];
			let m = Coord::size(z);
			[Part::N(z as u64), Part::N(*x as u64 % m), Part::N(*y as u64 % m)]
		}
		Cs::Beyond(s, which, kind, add) => {
			let c = stored(*s);
			let far = match kind % 3 {
				0 => Coord::size(c.z) + *add as u64,
				1 => (u32::MAX as u64 - *add as u64).max(Coord::size(c.z)),
				_ => (1u64 << 32) + *add as u64,
			};
			let x = if which % 3 != 1 { far } else { c.x as u64 };
			let y = if which % 3 != 0 { far } else { c.y as u64 };
			[Part::N(c.z as u64), Part::N(x), Part::N(y)]
		}
		Cs::Alias(s, which, kind) => {
			let c = stored(*s);
			let level = Coord::size(c.z);
			let step = match kind % 5 {
				0 => level,
				1 => level * 256,
				2 => level * 256 * 3,
				3 => level * 2,
				_ => 256 * level.max(256),
			};
			let far = |v: u32| (v as u64 + step).min(u32::MAX as u64 - 255 + (v as u64 & 255));
			let x = if which % 3 != 1 { far(c.x) } else { c.x as u64 };
			let y = if which % 3 != 0 { far(c.y) } else { c.y as u64 };
			[Part::N(c.z as u64), Part::N(x), Part::N(y)]
		}
		Cs::BlockAlias(s, mode) => {
			let c = stored(*s);
			let (bx, by, lx, ly) = ((c.x >> 8) as u64, (c.y >> 8) as u64, (c.x & 255) as u64, (c.y & 255) as u64);
			let blocks = |z: u8| 1u64 << z; // block columns of a level under that numbering
			let (z, abx, aby) = if mode % 2 == 0 && c.z >= 1 {
				let z = c.z - 1;
				let rest = blocks(z) * blocks(z) + blocks(c.z) * by + bx;
				(z, rest % blocks(z), rest / blocks(z))
			} else if by >= 1 {
				(c.z, bx + blocks(c.z), by - 1)
			} else {
				(c.z, bx, by + blocks(c.z))
			};
			let (x, y) = (lx + 256 * abx, ly + 256 * aby);
			if x > u32::MAX as u64 || y > u32::MAX as u64 || (x < Coord::size(z) && y < Coord::size(z)) {
				// not expressible (or inside the level after all): an ordinary far coordinate instead
				[Part::N(c.z as u64), Part::N(c.x as u64), Part::N(Coord::size(c.z) + c.y as u64)]
			} else {
				[Part::N(z as u64), Part::N(x), Part::N(y)]
			}
		}
		Cs::AnyZ(z, x, y) => {
			let m = Coord::size(*z);
			[Part::N(*z as u64), Part::N(*x as u64 % m), Part::N(*y as u64 % m)]
		}
		Cs::HighZ(z, x, y) => [Part::N(*z as u64), Part::N(*x as u64), Part::N(*y as u64)],
		Cs::Raw(z, x, y) => [z.clone(), x.clone(), y.clone()],
		Cs::Respell(s, which, how) => {
			let c = stored(*s);
			let vals = [c.z as u32, c.x, c.y];
			let mut parts = [Part::N(c.z as u64), Part::N(c.x as u64), Part::N(c.y as u64)];
			let v = vals[*which as usize % 3];
			parts[*which as usize % 3] = match how % 8 {
				0 => Part::Plus(v),
				1 => Part::Zeros(v, 1),
				2 => Part::Zeros(v, 3),
				3 => Part::Uni(v, 0),
				4 => Part::Uni(v, 1),
				5 => Part::Trail(v, 0),
				6 => Part::Trail(v, 3),
				_ => Part::Minus(v),
			};
			parts
		}
	}
}

fn accept_header(list: &[Enc], sep: bool) -> (String, BTreeSet<String>) {
	let mut items = vec![];
	let mut listed = BTreeSet::new();
	for e in list {
		let token = ENCODINGS[e.token as usize % ENCODINGS.len()];
		listed.insert(token.to_string());
		let mut t = String::new();
		for (i, ch) in token.chars().enumerate() {
			if e.case_mask >> (i % 8) & 1 == 1 {
				t.push(ch.to_ascii_uppercase());
			} else {
				t.push(ch);
			}
		}
		if let Some(q) = e.q {
			let q = q.clamp(1, 1000);
			let val = if q == 1000 {
				["1", "1.0", "1.000", "1"][e.q_style as usize % 4].to_string()
			} else {
				let s = format!("0.{q:03}");
				s.trim_end_matches('0').to_string()
			};
			t.push_str([";q=", "; q=", ";Q=", " ; q="][e.q_style as usize % 4]);
			t.push_str(&val);
		}
		items.push(t);
	}
	(items.join(if sep { ", " } else { "," }), listed)
}

// ---------------------------------------------------------------------------------------
// oracle
// ---------------------------------------------------------------------------------------

fn build_source(s: &Src, index: usize, guards: &mut Vec<TmpGuard>) -> Result<(Built, String), Fail> {
	let set = s.spec.materialise();
	let path = match s.enc {
		None => {
			let path = s.target.fresh_path();
			guards.push(TmpGuard(path.clone()));
			let mut r = MemReader::new(&set, "mem");
			write_with_repo(&mut r, &path)?;
			path
		}
		Some(seed) => {
			let path = vt::sources::encode_fixture(&set, s.target, seed)?;
			guards.push(TmpGuard(path.clone()));
			path
		}
	};
	let p = path.to_str().unwrap().to_string();
	// ids of one server: usually unrelated; with id 0 or 1 of the pool every id is a proper string
	// prefix of the next one (a, a0, a01 / tiles, tiles0, tiles01)
	let base = IDS[s.id as usize % IDS.len()];
	let explicit = if (s.id as usize % IDS.len()) < 2 && s.id_style % 4 != 3 { format!("{base}{}", &"012"[..index.min(3)]) } else { format!("{base}{index}") };
	let (arg, id) = match s.id_style % 4 {
		0 => (format!("{p}[{explicit}]"), explicit),
		1 => (format!("[{explicit}]{p}"), explicit),
		2 => (format!("{p}#{explicit}"), explicit),
		_ => {
			let name = path.file_name().unwrap().to_str().unwrap();
			(p.clone(), name.split('.').next().unwrap().to_string())
		}
	};
	let coords: Vec<Coord> = set.raw.keys().copied().collect();
	let levels: Vec<u8> = set.levels();
	let label = format!("{}/{}/{:?}/{}", s.target.name(), if s.enc.is_some() { "harness-encoder" } else { "repo-writer" }, set.format, set.comp.name());
	Ok((Built { set, coords, levels, id, label }, arg))
}

/// checks on a 200 response for the tile `want` of source `b`
fn check_tile_response(ctx: &str, b: &Built, want: &[u8], resp: &Response, listed: &BTreeSet<String>) -> Result<(), Fail> {
	let ct = resp.headers_named("content-type");
	ensure_prop!(ct.len() == 1, "tile:content-type", "{ctx}: {} Content-Type headers in {}", ct.len(), resp.summary());
	let essence = ct[0].split(';').next().unwrap_or("").trim().to_ascii_lowercase();
	ensure_prop!(essence == b.set.format.mime(), "tile:content-type", "{ctx}: Content-Type is {:?}, the media type of {:?} tiles is {:?}", ct[0], b.set.format, b.set.format.mime());
	let ce = resp.headers_named("content-encoding");
	ensure_prop!(ce.len() <= 1, "tile:content-encoding-not-listed", "{ctx}: {} Content-Encoding headers", ce.len());
	if let Some(v) = ce.first() {
		let v = v.trim().to_ascii_lowercase();
		ensure_prop!(listed.contains(&v), "tile:content-encoding-not-listed", "{ctx}: Content-Encoding is {v:?}, the client listed {listed:?}; {}", resp.summary());
	}
	let body = resp.decoded_body().map_err(|e| Fail::new("tile:body-undecodable", format!("{ctx}: body does not decode per Content-Encoding: {e}; {}", resp.summary())))?;
	ensure_prop!(
		body == want,
		"tile:wrong-body",
		"{ctx}: decoded body has {} bytes ({}), the stored tile decodes to {} bytes ({}); {}",
		body.len(),
		vt::util::hex_short(&body),
		want.len(),
		vt::util::hex_short(want),
		resp.summary()
	);
	Ok(())
}

fn oracle(case: &Case, obs: &mut Obs) -> Result<(), Fail> {
	let mut guards = vec![];
	let mut built: Vec<Built> = vec![];
	let mut args: Vec<String> = vec![];
	if case.fast {
		args.push("--fast".into());
	}
	for (i, s) in case.sources.iter().enumerate() {
		let (b, arg) = build_source(s, i, &mut guards)?;
		built.push(b);
		args.push(arg);
	}
	// a server that does not come up with containers the readers accept (C16) says nothing about
	// this property: `start` ends the run with exit 2 and the full command line
	let mut server = Server::start(&args);
	let mode = if case.fast { "fast" } else { "best" };

	let mut counts: BTreeMap<&'static str, u64> = BTreeMap::new();
	let mut bump = |k: &'static str| *counts.entry(k).or_insert(0) += 1;
	let mut nontrivial = 0u64;

	for r in &case.requests {
		let b = &built[pick(r.src as u32, built.len())];
		let parts = expand(b, &r.coord);
		let mut spelled: Vec<(String, PC)> = parts.iter().map(spell).collect();
		// only the last part may carry text behind its digits (`<y>[.ext]`): a zoom or column spelled
		// `3abc`, `0x10` or `1e3` is not a number
		for (i, p) in parts.iter().enumerate().take(2) {
			if matches!(p, Part::Trail(..) | Part::Hex(..) | Part::Exp(..)) {
				spelled[i].1 = PC::NonNum;
			}
		}
		let ext = r.ext.map(|i| EXTS[i as usize % EXTS.len()]).unwrap_or("");
		let class = classify(&[spelled[0].1.clone(), spelled[1].1.clone(), spelled[2].1.clone()]);
		let target = format!("/tiles/{}/{}/{}/{}{}", b.id, spelled[0].0, spelled[1].0, spelled[2].0, ext);
		let (hdr_val, listed) = match &r.accept {
			Some(list) => {
				let (v, l) = accept_header(list, r.sep);
				(Some(v), l)
			}
			None => (None, BTreeSet::new()),
		};
		let hdrs: Vec<(&str, &str)> = match &hdr_val {
			Some(v) => vec![("Accept-Encoding", v.as_str())],
			None => vec![],
		};
		let shown: String = target.chars().take(160).collect();
		let ctx = format!("[{} {mode}] GET {shown} Accept-Encoding: {:?}", b.label, hdr_val);
		let resp = match server.get(&target, &hdrs) {
			Exchange::Response(r) => r,
			Exchange::Dropped(e) => fail!("tile:connection-dropped", "{ctx}: no complete HTTP response ({e}); the server still answers /status"),
		};
		match &class {
			Class::InRange(c) => match b.set.raw.get(c) {
				Some(want) => {
					bump("class:stored-tile");
					ensure_prop!(resp.status == 200, "tile:status", "{ctx}: the source holds a tile at {c} but the status is {}", resp.status);
					check_tile_response(&ctx, b, want, &resp, &listed)?;
					let stored = b.set.comp;
					let stored_name = match stored {
						Comp::None => None,
						Comp::Gzip => Some("gzip"),
						Comp::Brotli => Some("br"),
					};
					let excludes = stored_name.map(|n| !listed.contains(n)).unwrap_or(false);
					let better = (stored == Comp::None && (listed.contains("gzip") || listed.contains("br"))) || (stored == Comp::Gzip && listed.contains("br"));
					if excludes || better {
						nontrivial += 1;
					}
					let sent = resp.header("content-encoding").map(|s| s.to_ascii_lowercase());
					if sent.as_deref() != stored_name {
						bump("response:re-encoded");
					}
					match sent.as_deref() {
						Some("gzip") => bump("response:gzip"),
						Some("br") => bump("response:br"),
						_ => bump("response:identity"),
					}
				}
				None => {
					bump("class:in-range-no-tile");
					ensure_prop!(resp.status == 404, "tile:status", "{ctx}: the source holds no tile at {c} but the status is {} instead of 404", resp.status);
				}
			},
			Class::OutOfRange => {
				bump("class:out-of-range");
				nontrivial += 1;
				ensure_prop!(resp.status == 400 || resp.status == 404, "tile:status", "{ctx}: not a coordinate of any level but the status is {} (expected 400 or 404)", resp.status);
			}
			Class::NonNumeric => {
				bump("class:non-numeric");
				ensure_prop!(resp.status == 400, "tile:status", "{ctx}: a part is not a number but the status is {} instead of 400", resp.status);
			}
			Class::HasEmpty => {
				bump("class:empty-part");
				if spelled.iter().all(|p| p.1 == PC::Empty) {
					bump("class:all-parts-empty");
				}
				ensure_prop!(resp.status == 400 || resp.status == 404, "tile:status", "{ctx}: a part is empty but the status is {} (expected 400 or 404)", resp.status);
			}
			Class::Ambiguous(readings) => {
				bump("class:ambiguous-spelling");
				ensure_prop!(matches!(resp.status, 200 | 400 | 404), "tile:status", "{ctx}: status {} (expected 200, 400 or 404)", resp.status);
				if resp.status == 200 {
					bump("ambiguous:read-as-tile");
					let candidates: Vec<(&Coord, &Vec<u8>)> = readings.iter().filter_map(|c| b.set.raw.get_key_value(c)).collect();
					ensure_prop!(!candidates.is_empty(), "tile:status", "{ctx}: status 200 but under no reading of the spelling ({readings:?}) the source holds a tile");
					let mut last = Ok(());
					let mut any = false;
					for (_, want) in &candidates {
						last = check_tile_response(&ctx, b, want, &resp, &listed);
						if last.is_ok() {
							any = true;
							break;
						}
					}
					if !any {
						return last;
					}
				}
			}
		}
		match resp.status {
			200 => bump("status:200"),
			400 => bump("status:400"),
			404 => bump("status:404"),
			_ => bump("status:other"),
		}
		if ext.is_empty() {
			bump("ext:none");
		} else {
			bump("ext:some");
		}
		if r.accept.is_none() {
			bump("accept:absent");
		}
	}

	// requests outside the stated form: sent, counted, nothing asserted (a dead server still
	// ends the run with exit 2 inside `get`)
	for (sel, kind) in &case.probes {
		let b = &built[pick(*sel as u32, built.len())];
		let c = b.coords[pick(*sel as u32, b.coords.len())];
		let target = match kind % 6 {
			0 => format!("/tiles/{}/{}/{}", b.id, c.z, c.x),
			1 => format!("/tiles/{}/{}", b.id, c.z),
			2 => format!("/tiles/{}/{}/{}/{}/7", b.id, c.z, c.x, c.y),
			3 => format!("/tiles/{}", b.id),
			4 => format!("/tiles/{}/", b.id),
			_ => format!("/tiles/{}x/{}/{}/{}", b.id, c.z, c.x, c.y),
		};
		match server.get(&target, &[]) {
			Exchange::Response(_) => bump("probe:answered"),
			Exchange::Dropped(_) => bump("probe:dropped"),
		}
	}

	for b in &built {
		obs.label(format!("source:{}", b.label));
	}
	obs.label(format!("mode:{mode}"));
	obs.label(format!("sources:{}", built.len()));
	for (k, v) in &counts {
		obs.count(k, *v);
	}
	obs.count("requests", case.requests.len() as u64);
	obs.count("nontrivial-requests", nontrivial);
	obs.nontrivial(nontrivial > 0);
	Ok(())
}

/// a fixed sweep: every (format, compression) pair of every container kind once, each tile
/// requested under every subset of {gzip, br} plus absent header, plus the border coordinates
fn fixed_cases() -> Vec<Case> {
	use vt::model::{LevelSpec, Pay, Shape};
	let mut out = vec![];
	let headers: Vec<Option<Vec<Enc>>> = {
		let e = |t: u8| Enc { token: t, case_mask: 0, q: None, q_style: 0 };
		vec![None, Some(vec![]), Some(vec![e(0)]), Some(vec![e(1)]), Some(vec![e(0), e(1)]), Some(vec![e(1), e(0)]), Some(vec![e(2), e(3), e(4)]), Some(vec![Enc { token: 0, case_mask: 255, q: Some(500), q_style: 1 }])]
	};
	for target in [Target::Versatiles, Target::Mbtiles, Target::Pmtiles, Target::Tar, Target::Dir] {
		for (k, (format, comp)) in target.pairs().into_iter().enumerate() {
			for (enc, fast) in [(None, false), (Some(k as u32 * 7 + 1), true)] {
				let spec = SetSpec {
					tag: format!("fx{k}"),
					levels: vec![LevelSpec { z: 3, x0: 1, y0: 5, w: 2, h: 3, shape: Shape::Dense, seed: 1 }, LevelSpec { z: 0, x0: 0, y0: 0, w: 1, h: 1, shape: Shape::Dense, seed: 1 }],
					pay: if k % 2 == 0 { Pay::CoordText } else { Pay::Compressible { len: 3000 } },
					format,
					comp,
					really_compressed: true,
					advert: Advert::Tight,
					meta: None,
				};
				let mut requests = vec![];
				for (i, h) in headers.iter().enumerate() {
					for s in [0u16, 20000, 40000, 65535] {
						requests.push(Req { src: 0, coord: Cs::Stored(s), ext: if i % 2 == 0 { None } else { Some(i as u8) }, accept: h.clone(), sep: i % 2 == 0 });
					}
				}
				for s in [0u16, 65535] {
					for (dx, dy) in [(-2i8, 0i8), (0, -2), (2, 2), (0, 2)] {
						requests.push(Req { src: 0, coord: Cs::Near(s, dx, dy), ext: None, accept: None, sep: false });
					}
					for which in 0u8..3 {
						for kind in 0u8..3 {
							requests.push(Req { src: 0, coord: Cs::Beyond(s, which, kind, 0), ext: None, accept: None, sep: false });
							requests.push(Req { src: 0, coord: Cs::Beyond(s, which, kind, 1), ext: Some(0), accept: None, sep: false });
						}
					}
					for how in 0u8..8 {
						for which in 0u8..3 {
							requests.push(Req { src: 0, coord: Cs::Respell(s, which, how), ext: None, accept: None, sep: false });
						}
					}
				}
				for z in [32u16, 255, 256] {
					requests.push(Req { src: 0, coord: Cs::HighZ(z, 0, 0), ext: None, accept: None, sep: false });
				}
				out.push(Case { sources: vec![Src { spec, target, enc, id_style: (k % 4) as u8, id: (k % IDS.len()) as u8 }], fast, requests, probes: vec![(0, 0), (0, 1), (0, 2), (0, 3), (0, 4), (0, 5)] });
			}
		}
	}
	out
}

fn main() {
	let mut check = Check::from_args(
		"C05",
		"exploration",
		"case = one `versatiles serve` process (best or --fast) with 1-3 tile sources: versatiles / tar / directory for every (format, compression) pair, pmtiles and mbtiles for the pairs they can hold, written by the repository's writer or by the harness's independent encoder, 1-3 levels up to zoom 31, payloads really compressed with the declared compression; source id given as path[id], [id]path, path#id or derived from the file name; 1-399 requests per case: stored tiles, neighbours, random coordinates of a stored level, x/y beyond the level (2^z+k, near u32::MAX, above 2^32), any zoom 0-31, zoom 32-999, free spellings of the three parts (canonical, +n, -n, leading zeros, empty, words, non-ASCII digits, 11-2000 digit numbers, digits with trailing text, hex, exponent), optional .ext on y; Accept-Encoding absent or an ordered subset of {gzip, br, deflate, identity, zstd} in random letter case with optional q weights in (0,1]; oracle per request: complete HTTP response; canonical in-range coordinate with a stored tile => 200, Content-Type = media type of the format, Content-Encoding absent or listed by the client, decoded body = raw payload; canonical in-range without tile => 404; non-numeric part (also digits followed by text in z or x) => 400; out of range / empty part => 400 or 404; ambiguous spellings => 200/400/404 and a 200 body must be the tile of a plausible reading; non-trivial request = stored tile whose Accept-Encoding excludes the stored compression or lists a better one, or an out-of-range coordinate; distinct = distinct cases containing such a request",
	);
	check.assume("media types are the ones the repository documents in TileFormat::as_mime_str (pbf: application/x-protobuf, which is the de-facto type, not the registered application/vnd.mapbox-vector-tile)");
	check.assume("flate2 / brotli crates as reference decoders of Content-Encoding; a zstd-encoded response could not be decoded by the harness and would be reported");
	check.assume("a request with an empty path part (`/3//2`) is read by some as two parts (outside the stated form) and by others as an unparsable coordinate: 400 and 404 are both accepted");
	check.assume("spellings such as +3, 03, -0, non-ASCII digits, and 3abc / 0x10 / 1e3 in the last part (which may carry an extension) are ambiguous: only `complete response`, `status in {200,400,404}` and `a 200 carries the tile of a plausible reading` are asserted");
	check.assume("containers written by the repository's writers are trusted to hold the model's tiles (that is C01's subject); containers written by the harness encoders are trusted to be readable (C16)");
	vt::engine::watchdog(3400);
	check.workers = check.workers.min(6);
	vt::cli::build_binary();

	let reg: Vec<Case> = check.regression_cases("serve");
	check.enumerate("regressions", reg, false, oracle);
	check.enumerate("fixed-pairs", fixed_cases(), false, oracle);
	check.phase("serve", check.cases(800, 24_000), strategy, oracle);
	check.finish();
}

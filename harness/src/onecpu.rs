//! Running a check's oracle in a child process that sees exactly one CPU.
//!
//! The parallel stream stages of the code under test size themselves with `num_cpus::get()`,
//! which honours the scheduler affinity of the process. A check that wants to know how a case
//! behaves on a one-CPU host re-executes its own binary (`/proc/self/exe`) with an environment
//! variable naming a file that holds the serialised case; the child restricts itself to one CPU
//! of its affinity set before anything else runs, evaluates the case and reports on stdout.

use crate::engine::{Fail, Obs};

/// Child side. Returns only if `env` is not set. `run` evaluates the case (given as JSON bytes).
pub fn child_entry(env: &str, run: impl FnOnce(&[u8], &mut Obs) -> Result<(), Fail>) {
	let Ok(path) = std::env::var(env) else { return };
	let bail = |m: String| -> ! {
		println!("RESULT machinery\t{m}");
		std::process::exit(0);
	};
	unsafe {
		let mut set: libc::cpu_set_t = std::mem::zeroed();
		if libc::sched_getaffinity(0, std::mem::size_of::<libc::cpu_set_t>(), &mut set) != 0 {
			bail("sched_getaffinity failed".into());
		}
		let allowed: Vec<usize> = (0..libc::CPU_SETSIZE as usize).filter(|i| libc::CPU_ISSET(*i, &set)).collect();
		if allowed.is_empty() {
			bail("empty affinity set".into());
		}
		let pick = allowed[std::process::id() as usize % allowed.len()];
		let mut one: libc::cpu_set_t = std::mem::zeroed();
		libc::CPU_SET(pick, &mut one);
		if libc::sched_setaffinity(0, std::mem::size_of::<libc::cpu_set_t>(), &one) != 0 {
			bail("sched_setaffinity failed".into());
		}
	}
	if num_cpus::get() != 1 {
		bail(format!("num_cpus::get() is {} after restricting the process to one CPU", num_cpus::get()));
	}
	let bytes = match std::fs::read(&path) {
		Ok(b) => b,
		Err(e) => bail(format!("cannot read the case file: {e}")),
	};
	let mut obs = Obs { labels: vec![], nontrivial: false, counters: vec![] };
	let r = crate::engine::guard(|| run(&bytes, &mut obs));
	for l in &obs.labels {
		println!("LABEL {l}");
	}
	for (k, v) in &obs.counters {
		println!("COUNT {v} {k}");
	}
	println!("NONTRIVIAL {}", obs.nontrivial as u8);
	match r {
		Ok(Ok(())) => println!("RESULT ok"),
		Ok(Err(f)) => println!("RESULT fail\t{}\t{}", f.sig, f.what.replace('\n', " ")),
		Err(p) => println!("RESULT fail\tpanic-in-oracle\t{}", p.message.replace('\n', " ")),
	}
	crate::util::cleanup_tmp();
	std::process::exit(0);
}

/// Parent side: evaluate `case_json` in a one-CPU child of this binary.
pub fn run_in_child(env: &str, case_json: &[u8], obs: &mut Obs) -> Result<(), Fail> {
	let file = crate::util::tmp_path(".case.json");
	let _g = crate::util::TmpGuard(file.clone());
	std::fs::write(&file, case_json).map_err(|e| Fail::new("harness:io", format!("{e}")))?;
	let out = std::process::Command::new("/proc/self/exe")
		.env(env, &file)
		.stdin(std::process::Stdio::null())
		.stderr(std::process::Stdio::null())
		.output()
		.unwrap_or_else(|e| crate::engine::die(&format!("cannot start the one-CPU child: {e}")));
	let text = String::from_utf8_lossy(&out.stdout);
	let mut result = None;
	for line in text.lines() {
		if let Some(l) = line.strip_prefix("LABEL ") {
			obs.label(l.to_string());
		} else if let Some(c) = line.strip_prefix("COUNT ") {
			if let Some((v, k)) = c.split_once(' ') {
				obs.count(k, v.parse().unwrap_or(0));
			}
		} else if let Some(n) = line.strip_prefix("NONTRIVIAL ") {
			obs.nontrivial(n == "1");
		} else if let Some(r) = line.strip_prefix("RESULT ") {
			result = Some(r.to_string());
		}
	}
	obs.label("one-visible-cpu");
	match result.as_deref() {
		Some("ok") => Ok(()),
		Some(r) if r.starts_with("fail\t") => {
			let mut it = r.splitn(3, '\t');
			it.next();
			let sig = it.next().unwrap_or("?").to_string();
			let what = it.next().unwrap_or("").to_string();
			Err(Fail::new(sig, format!("with one CPU visible to the process: {what}")))
		}
		// the environment does not let the child restrict itself to one CPU: nothing to report
		Some(r) if r.starts_with("machinery\t") => {
			obs.label("one-cpu-restriction-unavailable");
			Ok(())
		}
		other => crate::engine::die(&format!("one-CPU child gave no verdict (status {:?}, result {other:?})", out.status)),
	}
}

//! VPL (VersaTiles Pipeline Language) syntax trees, a renderer that varies quoting and whitespace
//! at every point the grammar allows it, and an independent *lexical certificate* that tells when
//! a text can have no valid reading at all.  Used by C18; `Tree` / `Node` / `render()` are meant to
//! be reused by checks that need pipeline texts (C08, C09).
//!
//! Grammar the renderer follows (documentation `versatiles_pipeline/src/help.md` + the property
//! statement; whitespace points cross-checked with `vpl/parser.rs`):
//!
//! ```text
//! text     := GAP pipeline GAP
//! pipeline := node ( GAP '|' GAP node )*
//! node     := NAME ( GAP1 KEY GAP '=' GAP value )* ( GAP '[' GAP ( pipeline ( GAP ',' GAP pipeline )* )? GAP ']' )?
//! value    := BARE | QUOTED | '[' GAP ( item ( GAP ',' GAP item )* )? GAP ']'
//! item     := BARE | QUOTED
//! NAME,KEY := [A-Za-z][A-Za-z0-9_-]*        BARE := [A-Za-z0-9._-]+
//! QUOTED   := '"' ( any char except '\' and '"' | '\\' | '\"' | '\n' | '\t' )+ '"'
//! GAP      := ( ' ' | '\t' | '\r' | '\n' )*   GAP1 := the same, at least one
//! ```
//!
//! A `[` directly after `=` (modulo GAP) is always a list *value*; a `[` after a complete value or
//! after the node name is always the *source list* – the renderer never emits anything else, so
//! the text has exactly one reading.

use serde::{Deserialize, Serialize};
use std::collections::BTreeMap;

// ---------------------------------------------------------------------------------------
// tree
// ---------------------------------------------------------------------------------------

#[derive(Clone, Debug, PartialEq, Eq, Serialize, Deserialize)]
pub enum Val {
	/// a single value (rendered bare where possible, otherwise quoted)
	One(String),
	/// a bracketed list of values
	List(Vec<String>),
}

#[derive(Clone, Debug, PartialEq, Eq, Serialize, Deserialize)]
pub struct Node {
	pub name: String,
	/// properties in order of appearance; keys may repeat
	pub props: Vec<(String, Val)>,
	pub sources: Vec<Tree>,
}

/// A pipeline: one or more nodes separated by `|`.
#[derive(Clone, Debug, PartialEq, Eq, Serialize, Deserialize)]
pub struct Tree {
	pub nodes: Vec<Node>,
}

impl Node {
	pub fn new(name: &str) -> Node {
		Node { name: name.to_string(), props: vec![], sources: vec![] }
	}
	pub fn prop(mut self, key: &str, value: impl Into<String>) -> Node {
		self.props.push((key.to_string(), Val::One(value.into())));
		self
	}
	pub fn list<S: Into<String>>(mut self, key: &str, values: impl IntoIterator<Item = S>) -> Node {
		self.props.push((key.to_string(), Val::List(values.into_iter().map(Into::into).collect())));
		self
	}
	pub fn sources(mut self, sources: Vec<Tree>) -> Node {
		self.sources = sources;
		self
	}
}

impl Tree {
	pub fn new(nodes: Vec<Node>) -> Tree {
		Tree { nodes }
	}
	/// nesting depth of source lists (0 = no node has sources)
	pub fn depth(&self) -> usize {
		self.nodes.iter().map(|n| n.sources.iter().map(|s| 1 + s.depth()).max().unwrap_or(0)).max().unwrap_or(0)
	}
	pub fn count_nodes(&self) -> usize {
		self.nodes.iter().map(|n| 1 + n.sources.iter().map(|s| s.count_nodes()).sum::<usize>()).sum()
	}
	/// every value string of the tree (list entries included), depth first
	pub fn for_each_value(&self, f: &mut dyn FnMut(&str)) {
		for n in &self.nodes {
			for (_, v) in &n.props {
				match v {
					Val::One(s) => f(s),
					Val::List(l) => l.iter().for_each(|s| f(s)),
				}
			}
			for s in &n.sources {
				s.for_each_value(f);
			}
		}
	}
	pub fn for_each_node(&self, f: &mut dyn FnMut(&Node)) {
		for n in &self.nodes {
			f(n);
			for s in &n.sources {
				s.for_each_node(f);
			}
		}
	}
	/// The parse result the text of this tree denotes: names in order, properties as a map with
	/// repeated keys concatenated in order of appearance, nested pipelines.  A key whose
	/// concatenated list is empty (`k=[]`) is dropped – whether such a key is "present with no
	/// entries" or "absent" is not fixed by the documentation, both are accepted.
	pub fn norm(&self) -> Norm {
		self
			.nodes
			.iter()
			.map(|n| {
				let mut props: BTreeMap<String, Vec<String>> = BTreeMap::new();
				for (k, v) in &n.props {
					let e = props.entry(k.clone()).or_default();
					match v {
						Val::One(s) => e.push(s.clone()),
						Val::List(l) => e.extend(l.iter().cloned()),
					}
				}
				props.retain(|_, v| !v.is_empty());
				NormNode { name: n.name.clone(), props, sources: n.sources.iter().map(|s| s.norm()).collect() }
			})
			.collect()
	}
}

#[derive(Clone, Debug, PartialEq, Eq)]
pub struct NormNode {
	pub name: String,
	pub props: BTreeMap<String, Vec<String>>,
	pub sources: Vec<Norm>,
}
pub type Norm = Vec<NormNode>;

pub fn is_identifier(s: &str) -> bool {
	let mut it = s.chars();
	matches!(it.next(), Some(c) if c.is_ascii_alphabetic()) && it.all(|c| c.is_ascii_alphanumeric() || c == '_' || c == '-')
}

/// can the string be written as a bare (unquoted) value?
pub fn is_bare(s: &str) -> bool {
	!s.is_empty() && s.chars().all(|c| c.is_ascii_alphanumeric() || c == '.' || c == '_' || c == '-')
}

/// characters that have a structural role outside quoted strings
pub const STRUCTURAL: &[char] = &['|', '[', ']', ',', '=', '"'];

// ---------------------------------------------------------------------------------------
// renderer
// ---------------------------------------------------------------------------------------

#[derive(Clone, Copy, Debug, PartialEq, Eq)]
pub enum Kind {
	/// optional whitespace (text may be empty)
	Gap,
	/// required whitespace (text has at least one character)
	Gap1,
	Name,
	Key,
	Eq,
	Bare,
	/// a complete quoted string including both quotes
	Quoted,
	ListOpen,
	ListClose,
	ListComma,
	SrcOpen,
	SrcClose,
	SrcComma,
	Pipe,
	/// zero-width markers around every pipeline (top level and nested)
	PipeStart,
	PipeEnd,
}

#[derive(Clone, Debug, PartialEq, Eq)]
pub struct Tok {
	pub kind: Kind,
	pub text: String,
}

impl Tok {
	pub fn new(kind: Kind, text: &str) -> Tok {
		Tok { kind, text: text.to_string() }
	}
}

const GAPS: [&str; 16] = ["", "", "", " ", " ", " ", "  ", "\t", "\n", "\n   ", "\r\n", " \t ", "\n\n", "\r\n\t", "   \n", "\t\t"];

/// whitespace for choice byte `b`; byte 0 is the minimal form
pub fn gap_text(b: u8, required: bool) -> &'static str {
	let g = GAPS[(b & 15) as usize];
	if required && g.is_empty() {
		" "
	} else {
		g
	}
}

/// Rendering choices are read from a tape of bytes (cyclically; an empty tape is all zeros).
/// Byte 0 always selects the canonical minimal form (no optional whitespace, bare where
/// possible, `\n` / `\t` written as escapes, no `[]` for a node without sources), so that
/// shrinking the tape shrinks the text.
struct Renderer<'a> {
	tape: &'a [u8],
	pos: usize,
	out: Vec<Tok>,
}

impl Renderer<'_> {
	fn next(&mut self) -> u8 {
		if self.tape.is_empty() {
			return 0;
		}
		let b = self.tape[self.pos % self.tape.len()];
		// decorrelate successive laps over a short tape
		let lap = (self.pos / self.tape.len()) as u8;
		self.pos += 1;
		if b == 0 {
			0
		} else {
			b.wrapping_add(lap.wrapping_mul(37))
		}
	}
	fn push(&mut self, kind: Kind, text: &str) {
		self.out.push(Tok::new(kind, text));
	}
	fn gap(&mut self) {
		let b = self.next();
		self.push(Kind::Gap, gap_text(b, false));
	}
	fn gap1(&mut self) {
		let b = self.next();
		self.push(Kind::Gap1, gap_text(b, true));
	}
	fn scalar(&mut self, s: &str) {
		let quoted = !is_bare(s) || self.next() % 4 == 1;
		if !quoted {
			self.push(Kind::Bare, s);
			return;
		}
		let mut t = String::with_capacity(s.len() + 2);
		t.push('"');
		for c in s.chars() {
			match c {
				'\\' => t.push_str("\\\\"),
				'"' => t.push_str("\\\""),
				'\n' => {
					if self.next() % 2 == 0 {
						t.push_str("\\n")
					} else {
						t.push('\n')
					}
				}
				'\t' => {
					if self.next() % 2 == 0 {
						t.push_str("\\t")
					} else {
						t.push('\t')
					}
				}
				c => t.push(c),
			}
		}
		t.push('"');
		self.push(Kind::Quoted, &t);
	}
	fn value(&mut self, v: &Val) {
		match v {
			Val::One(s) => self.scalar(s),
			Val::List(items) => {
				self.push(Kind::ListOpen, "[");
				self.gap();
				for (i, s) in items.iter().enumerate() {
					if i > 0 {
						self.gap();
						self.push(Kind::ListComma, ",");
						self.gap();
					}
					self.scalar(s);
				}
				self.gap();
				self.push(Kind::ListClose, "]");
			}
		}
	}
	fn node(&mut self, n: &Node) {
		self.push(Kind::Name, &n.name);
		for (k, v) in &n.props {
			self.gap1();
			self.push(Kind::Key, k);
			self.gap();
			self.push(Kind::Eq, "=");
			self.gap();
			self.value(v);
		}
		let brackets = !n.sources.is_empty() || self.next() % 8 == 5;
		if brackets {
			self.gap();
			self.push(Kind::SrcOpen, "[");
			self.gap();
			for (i, s) in n.sources.iter().enumerate() {
				if i > 0 {
					self.gap();
					self.push(Kind::SrcComma, ",");
					self.gap();
				}
				self.pipeline(s);
			}
			self.gap();
			self.push(Kind::SrcClose, "]");
		}
	}
	fn pipeline(&mut self, t: &Tree) {
		self.push(Kind::PipeStart, "");
		for (i, n) in t.nodes.iter().enumerate() {
			if i > 0 {
				self.gap();
				self.push(Kind::Pipe, "|");
				self.gap();
			}
			self.node(n);
		}
		self.push(Kind::PipeEnd, "");
	}
}

/// Render a tree to tokens.  Requirements on the tree (not checked): every pipeline has at least
/// one node, names and keys are identifiers, no value is the empty string (`""` is not part of the
/// asserted syntax).
pub fn render_tokens(tree: &Tree, tape: &[u8]) -> Vec<Tok> {
	let mut r = Renderer { tape, pos: 0, out: vec![] };
	r.gap();
	r.pipeline(tree);
	r.gap();
	r.out
}

pub fn join(tokens: &[Tok]) -> String {
	tokens.iter().map(|t| t.text.as_str()).collect()
}

/// Render with the choices of `tape` (empty tape = canonical minimal text).
pub fn render(tree: &Tree, tape: &[u8]) -> String {
	join(&render_tokens(tree, tape))
}

/// can `render` write this tree so that the text denotes exactly this tree?
pub fn renderable(tree: &Tree) -> bool {
	!tree.nodes.is_empty()
		&& tree.nodes.iter().all(|n| {
			is_identifier(&n.name)
				&& n.props.iter().all(|(k, v)| {
					is_identifier(k)
						&& match v {
							Val::One(s) => !s.is_empty(),
							Val::List(l) => l.iter().all(|s| !s.is_empty()),
						}
				}) && n.sources.iter().all(renderable)
		})
}

/// Byte offsets inside the text of a `Quoted` token at which something can be inserted without
/// splitting an escape sequence (between the opening quote and the closing quote, inclusive ends).
pub fn quoted_unit_boundaries(quoted: &str) -> Vec<usize> {
	let inner_end = quoted.len() - 1;
	let mut out = vec![];
	let mut i = 1;
	let b = quoted.as_bytes();
	while i < inner_end {
		out.push(i);
		if b[i] == b'\\' {
			i += 1;
		}
		// advance over one char
		let c = quoted[i..].chars().next().map(|c| c.len_utf8()).unwrap_or(1);
		i += c;
	}
	out.push(inner_end);
	out
}

// ---------------------------------------------------------------------------------------
// lexical certificate
// ---------------------------------------------------------------------------------------

/// characters that have no role whatsoever outside a quoted string
/// (identifiers, bare values and white space are ASCII in the grammar of `vpl/parser.rs`:
/// `is_ascii_alphanumeric`, `alphanumeric1`, `multispace`; letters, digits and spaces beyond
/// ASCII can only occur inside quoted strings)
pub const ILLEGAL_OUTSIDE: &[char] = &['%', '{', '}', ';', '!', '?', '^', '~', '(', ')', '<', '>', '&', '\\', 'ü', 'é', 'ß', 'Ω', '٣', '日', '€', '\u{a0}', '\u{200b}', '𝄞'];
/// characters that certainly do not form an escape sequence after a backslash
pub const NOT_AN_ESCAPE: &[char] = &['q', 'z', 'k', 'p', 'j', 'y', 'Q', 'Z', '%', ';'];

/// Scan a text the only way a quoted string can be scanned (left to right: outside a string `"`
/// opens one, inside `\x` is one unit and `"` closes) and report a reason why **no** reading of the
/// text as VPL can exist, or `None` if the scan finds nothing (which does not mean the text is valid).
///
/// * `unterminated-string` – the text ends inside a quoted string (or right after a backslash in it)
/// * `illegal-character`   – one of `ILLEGAL_OUTSIDE` outside any string
/// * `illegal-escape`      – backslash followed by one of `NOT_AN_ESCAPE` inside a string
/// * `unbalanced-bracket`  – `[` / `]` outside strings do not nest properly
///
/// Characters the documentation says nothing about (non-ASCII or e.g. `/` outside strings,
/// `\r` as an escape) are skipped without judgement.
pub fn lex_certificate(text: &str) -> Option<&'static str> {
	let mut in_string = false;
	let mut depth: i64 = 0;
	let mut it = text.chars();
	let mut first: Option<&'static str> = None;
	fn note(r: &'static str, first: &mut Option<&'static str>) {
		if first.is_none() {
			*first = Some(r);
		}
	}
	while let Some(c) = it.next() {
		if in_string {
			match c {
				'\\' => match it.next() {
					None => return first.or(Some("unterminated-string")),
					Some(e) => {
						if NOT_AN_ESCAPE.contains(&e) {
							note("illegal-escape", &mut first);
						}
					}
				},
				'"' => in_string = false,
				_ => {}
			}
		} else {
			match c {
				'"' => in_string = true,
				'[' => depth += 1,
				']' => {
					depth -= 1;
					if depth < 0 {
						note("unbalanced-bracket", &mut first);
						depth = 0;
					}
				}
				c if ILLEGAL_OUTSIDE.contains(&c) => note("illegal-character", &mut first),
				_ => {}
			}
		}
	}
	if in_string {
		note("unterminated-string", &mut first);
	}
	if depth != 0 {
		note("unbalanced-bracket", &mut first);
	}
	first
}

#[cfg(test)]
mod tests {
	use super::*;

	#[test]
	fn canonical() {
		let t = Tree::new(vec![
			Node::new("a").prop("k", "v").prop("q", "x y").list("l", ["1", "b c"]).sources(vec![Tree::new(vec![Node::new("c"), Node::new("d")]), Tree::new(vec![Node::new("e")])]),
			Node::new("b"),
		]);
		assert_eq!(render(&t, &[]), "a k=v q=\"x y\" l=[1,\"b c\"][c|d,e]|b");
		assert!(renderable(&t));
		assert_eq!(lex_certificate(&render(&t, &[7, 9, 200, 33])), None);
	}

	#[test]
	fn certificates() {
		assert_eq!(lex_certificate("a k=\"x"), Some("unterminated-string"));
		assert_eq!(lex_certificate("a [ b"), Some("unbalanced-bracket"));
		assert_eq!(lex_certificate("a ] ["), Some("unbalanced-bracket"));
		assert_eq!(lex_certificate("a k=\"x\\q\""), Some("illegal-escape"));
		assert_eq!(lex_certificate("a k=\"%;[\""), None);
		assert_eq!(lex_certificate("a ; b"), Some("illegal-character"));
		assert_eq!(quoted_unit_boundaries("\"a\\\"ä\""), vec![1, 2, 4, 6]);
	}
}

//! Set models of tile bounding boxes for C15.
//!
//! Two models of "the set of tile coordinates a box denotes":
//! * `SmallSet` – an explicit set of coordinates of one level z <= 3, stored as a bit mask
//!   (bit `y * 2^z + x`); every operation is written member by member.
//! * `IBox` – the interval model `Option<Rect>` usable at every level up to 31; `None` is the
//!   empty set, whatever encoding the code under test uses for it.
//!
//! The denotation of a `TileBBox` is read from its documented public fields
//! (`x_min..=x_max` x `y_min..=y_max`, empty iff `x_max < x_min || y_max < y_min`), never through
//! the methods under test.
//!
//! `axis_bounds` turns a geographic edge pair mapped into fractional tile units into the tile
//! range that must be covered and the tile range that may be covered, with the tolerance of
//! `model::georef` (documented 1e-6 guard doubled, plus float noise).

use crate::engine::Fail;
use crate::model::georef;
use serde::{Deserialize, Serialize};
use versatiles_core::types::TileBBox;

/// largest coordinate of level z
pub fn level_max(z: u8) -> u32 {
	((1u64 << z) - 1) as u32
}

#[derive(Clone, Copy, Debug, PartialEq, Eq, PartialOrd, Ord, Hash, Serialize, Deserialize)]
pub struct Rect {
	pub x0: u32,
	pub y0: u32,
	pub x1: u32,
	pub y1: u32,
}

impl Rect {
	pub fn new(x0: u32, y0: u32, x1: u32, y1: u32) -> Rect {
		assert!(x0 <= x1 && y0 <= y1, "harness: malformed Rect {x0},{y0},{x1},{y1}");
		Rect { x0, y0, x1, y1 }
	}
	pub fn width(&self) -> u64 {
		(self.x1 - self.x0) as u64 + 1
	}
	pub fn height(&self) -> u64 {
		(self.y1 - self.y0) as u64 + 1
	}
}

/// interval model: `None` = the empty set
pub type IBox = Option<Rect>;

pub fn show(m: &IBox) -> String {
	match m {
		None => "{}".to_string(),
		Some(r) => format!("[{},{},{},{}]", r.x0, r.y0, r.x1, r.y1),
	}
}

/// How a box is built through the public API of the code under test.
#[derive(Clone, Copy, Debug, PartialEq, Eq, PartialOrd, Ord, Hash, Serialize, Deserialize)]
pub enum BoxSpec {
	/// `TileBBox::new_empty(z)`
	EmptyNew,
	/// `TileBBox::new_full(z)` followed by `set_empty()`
	EmptySet,
	/// `TileBBox::new(z, x0, y0, x1, y1)`
	Rect(u32, u32, u32, u32),
}

impl BoxSpec {
	pub fn build(&self, z: u8) -> TileBBox {
		match *self {
			BoxSpec::EmptyNew => TileBBox::new_empty(z).expect("harness: new_empty"),
			BoxSpec::EmptySet => {
				let mut b = TileBBox::new_full(z).expect("harness: new_full");
				b.set_empty();
				b
			}
			BoxSpec::Rect(x0, y0, x1, y1) => TileBBox::new(z, x0, y0, x1, y1).expect("harness: generated rect must be valid"),
		}
	}
	pub fn model(&self) -> IBox {
		match *self {
			BoxSpec::EmptyNew | BoxSpec::EmptySet => None,
			BoxSpec::Rect(x0, y0, x1, y1) => Some(Rect::new(x0, y0, x1, y1)),
		}
	}
	pub fn is_empty(&self) -> bool {
		!matches!(self, BoxSpec::Rect(..))
	}
}

/// Every box of level z (z <= 3 is sensible): both empty encodings and all rectangles.
pub fn all_specs(z: u8) -> Vec<BoxSpec> {
	let n = 1u32 << z;
	let mut v = vec![BoxSpec::EmptyNew, BoxSpec::EmptySet];
	for y0 in 0..n {
		for y1 in y0..n {
			for x0 in 0..n {
				for x1 in x0..n {
					v.push(BoxSpec::Rect(x0, y0, x1, y1));
				}
			}
		}
	}
	v
}

/// The set a `TileBBox` denotes, read from its fields. A non-empty box that leaves the level or a
/// box whose level changed is not a set of tiles of level z.
pub fn denote(b: &TileBBox, z: u8, ctx: &str) -> Result<IBox, Fail> {
	if b.level != z {
		return Err(Fail::new("box:level-changed", format!("{ctx}: box {b:?} has level {}, expected {z}", b.level)));
	}
	if b.x_max < b.x_min || b.y_max < b.y_min {
		return Ok(None);
	}
	let m = level_max(z);
	if b.x_max > m || b.y_max > m {
		return Err(Fail::new(
			"box:outside-level",
			format!("{ctx}: box {b:?} is not empty and reaches beyond the largest coordinate {m} of level {z}"),
		));
	}
	Ok(Some(Rect { x0: b.x_min, y0: b.y_min, x1: b.x_max, y1: b.y_max }))
}

// ---------------------------------------------------------------------------------------
// interval model
// ---------------------------------------------------------------------------------------

pub fn inter(a: &IBox, b: &IBox) -> IBox {
	let (a, b) = (a.as_ref()?, b.as_ref()?);
	let x0 = a.x0.max(b.x0);
	let y0 = a.y0.max(b.y0);
	let x1 = a.x1.min(b.x1);
	let y1 = a.y1.min(b.y1);
	if x0 <= x1 && y0 <= y1 {
		Some(Rect { x0, y0, x1, y1 })
	} else {
		None
	}
}

/// smallest box containing both
pub fn bounding_union(a: &IBox, b: &IBox) -> IBox {
	match (a, b) {
		(None, None) => None,
		(Some(a), None) => Some(*a),
		(None, Some(b)) => Some(*b),
		(Some(a), Some(b)) => Some(Rect { x0: a.x0.min(b.x0), y0: a.y0.min(b.y0), x1: a.x1.max(b.x1), y1: a.y1.max(b.y1) }),
	}
}

pub fn contains(a: &IBox, x: u32, y: u32) -> bool {
	match a {
		None => false,
		Some(r) => r.x0 <= x && x <= r.x1 && r.y0 <= y && y <= r.y1,
	}
}

pub fn overlaps(a: &IBox, b: &IBox) -> bool {
	inter(a, b).is_some()
}

pub fn count(a: &IBox) -> u64 {
	match a {
		None => 0,
		Some(r) => r.width() * r.height(), // at most 2^62
	}
}

pub fn flip_y(a: &IBox, z: u8) -> IBox {
	let m = level_max(z);
	a.map(|r| Rect { x0: r.x0, x1: r.x1, y0: m - r.y1, y1: m - r.y0 })
}

pub fn swap_xy(a: &IBox) -> IBox {
	a.map(|r| Rect { x0: r.y0, y0: r.x0, x1: r.y1, y1: r.x1 })
}

/// widen by (left, top, right, bottom) = (x_min, y_min, x_max, y_max amounts), clamped to the level
pub fn border(a: &IBox, z: u8, amounts: [u32; 4]) -> IBox {
	let m = level_max(z) as u64;
	a.map(|r| Rect {
		x0: r.x0.saturating_sub(amounts[0]),
		y0: r.y0.saturating_sub(amounts[1]),
		x1: (r.x1 as u64 + amounts[2] as u64).min(m) as u32,
		y1: (r.y1 as u64 + amounts[3] as u64).min(m) as u32,
	})
}

/// position of a member in row-major order
pub fn index_of(a: &IBox, x: u32, y: u32) -> Option<u64> {
	let r = a.as_ref()?;
	if !contains(a, x, y) {
		return None;
	}
	Some((y - r.y0) as u64 * r.width() + (x - r.x0) as u64)
}

/// member at a row-major position
pub fn coord_at(a: &IBox, i: u64) -> Option<(u32, u32)> {
	let r = a.as_ref()?;
	if i >= count(a) {
		return None;
	}
	let w = r.width();
	Some((r.x0 + (i % w) as u32, r.y0 + (i / w) as u32))
}

/// first `limit` members in row-major order
pub fn enumerate_prefix(a: &IBox, limit: usize) -> Vec<(u32, u32)> {
	let mut v = vec![];
	if let Some(r) = a {
		'outer: for y in r.y0..=r.y1 {
			for x in r.x0..=r.x1 {
				if v.len() >= limit {
					break 'outer;
				}
				v.push((x, y));
			}
		}
	}
	v
}

/// number of aligned cells of edge `size` a box touches (size >= 1)
pub fn grid_cells(a: &IBox, size: u32) -> u128 {
	match a {
		None => 0,
		Some(r) => {
			let cx = (r.x1 / size - r.x0 / size) as u128 + 1;
			let cy = (r.y1 / size - r.y0 / size) as u128 + 1;
			cx * cy
		}
	}
}

/// coordinate classes the property text calls out: 0, 1, 2^z-2, 2^z-1, multiples of 256 and +-1
pub fn is_border_coord(z: u8, c: u32) -> bool {
	let m = level_max(z);
	c <= 1 || c >= m.saturating_sub(1) || matches!(c % 256, 0 | 1 | 255)
}

pub fn has_border_coord(z: u8, a: &IBox) -> bool {
	match a {
		None => false,
		Some(r) => [r.x0, r.y0, r.x1, r.y1].iter().any(|c| is_border_coord(z, *c)),
	}
}

/// neither disjoint nor nested
pub fn partial_overlap(a: &IBox, b: &IBox) -> bool {
	let i = inter(a, b);
	i.is_some() && i != *a && i != *b
}

// ---------------------------------------------------------------------------------------
// explicit sets at z <= 3
// ---------------------------------------------------------------------------------------

/// Explicit set of tile coordinates of one level z <= 3: bit `y * 2^z + x`.
#[derive(Clone, Copy, Debug, PartialEq, Eq)]
pub struct SmallSet(pub u64);

impl SmallSet {
	pub fn bit(z: u8, x: u32, y: u32) -> u64 {
		assert!(z <= 3, "harness: SmallSet is for z <= 3");
		let n = 1u32 << z;
		assert!(x < n && y < n, "harness: coordinate outside level");
		1u64 << (y * n + x)
	}
	/// all members of a rectangle, one by one
	pub fn of(z: u8, a: &IBox) -> SmallSet {
		let mut s = 0u64;
		if let Some(r) = a {
			for y in r.y0..=r.y1 {
				for x in r.x0..=r.x1 {
					s |= SmallSet::bit(z, x, y);
				}
			}
		}
		SmallSet(s)
	}
	pub fn has(&self, z: u8, x: u32, y: u32) -> bool {
		self.0 & SmallSet::bit(z, x, y) != 0
	}
	pub fn len(&self) -> u64 {
		self.0.count_ones() as u64
	}
	pub fn is_empty(&self) -> bool {
		self.0 == 0
	}
	/// members sorted by (y, x) = row-major
	pub fn members(&self, z: u8) -> Vec<(u32, u32)> {
		let n = 1u32 << z;
		let mut v = vec![];
		for i in 0..(n * n) {
			if self.0 >> i & 1 == 1 {
				v.push((i % n, i / n));
			}
		}
		v
	}
	/// smallest rectangle containing all members
	pub fn bounding(&self, z: u8) -> IBox {
		let ms = self.members(z);
		if ms.is_empty() {
			return None;
		}
		Some(Rect {
			x0: ms.iter().map(|m| m.0).min().unwrap(),
			y0: ms.iter().map(|m| m.1).min().unwrap(),
			x1: ms.iter().map(|m| m.0).max().unwrap(),
			y1: ms.iter().map(|m| m.1).max().unwrap(),
		})
	}
	pub fn map(&self, z: u8, f: impl Fn(u32, u32) -> (u32, u32)) -> SmallSet {
		let mut s = 0u64;
		for (x, y) in self.members(z) {
			let (x, y) = f(x, y);
			s |= SmallSet::bit(z, x, y);
		}
		SmallSet(s)
	}
	/// every tile of the level within (left, top, right, bottom) of a member
	pub fn widen(&self, z: u8, amounts: [u32; 4]) -> SmallSet {
		let n = 1i64 << z;
		let c = |v: u32| (v as i64).min(n);
		let mut s = 0u64;
		for (x, y) in self.members(z) {
			for yy in (y as i64 - c(amounts[1])).max(0)..=(y as i64 + c(amounts[3])).min(n - 1) {
				for xx in (x as i64 - c(amounts[0])).max(0)..=(x as i64 + c(amounts[2])).min(n - 1) {
					s |= SmallSet::bit(z, xx as u32, yy as u32);
				}
			}
		}
		SmallSet(s)
	}
}

// ---------------------------------------------------------------------------------------
// geographic reference
// ---------------------------------------------------------------------------------------

/// Tile range (one axis) that must be covered / may be covered by the tile box of a geographic
/// interval whose edges map to fractional tile positions `a` and `b` at level z.
#[derive(Clone, Copy, Debug, PartialEq)]
pub struct AxisBounds {
	/// tiles overlapping the interval by more than the tolerance (may be absent)
	pub must: Option<(u32, u32)>,
	/// tiles not farther than the tolerance from the interval (never empty)
	pub allow: (u32, u32),
}

pub fn axis_bounds(z: u8, a: f64, b: f64) -> AxisBounds {
	let d = georef::delta(z);
	let n = (1u64 << z) as f64;
	let (a, b) = (a.min(b), a.max(b));
	// values beyond the Mercator range clamp to the border of the level (as georef::classify)
	let a = a.max(0.0).min(n);
	let b = b.max(0.0).min(n);
	// definitely inside: t + 1 >= a + d  and  t <= b - d
	let in_lo = (a + d - 1.0).ceil().max(0.0);
	let in_hi = (b - d).floor().min(n - 1.0);
	// not definitely outside: t + 1 > a - d  and  t < b + d
	let al_lo = ((a - d - 1.0).floor() + 1.0).max(0.0);
	let al_hi = ((b + d).ceil() - 1.0).min(n - 1.0);
	assert!(al_lo <= al_hi, "harness: empty allowed range for a={a} b={b} z={z}");
	AxisBounds {
		must: if in_lo <= in_hi { Some((in_lo as u32, in_hi as u32)) } else { None },
		allow: (al_lo as u32, al_hi as u32),
	}
}

/// Is the longitude / latitude on a tile edge of some level <= zmax (within 1e-9 tile)?
pub fn on_tile_edge(t: f64) -> bool {
	t.is_finite() && (t - t.round()).abs() < 1e-9
}

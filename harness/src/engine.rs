//! Engine shared by all property checks: argument handling, proptest driving with a fixed
//! seed on several runner threads, failure shrinking -> replay file, known findings,
//! evidence file, exit codes.
//!
//! Exit codes: 0 = held on everything explored (possibly with KNOWN-FINDING lines),
//! 1 = `VIOLATION property=<id> replay=<path>`, 2 = the machinery itself could not run.

use proptest::strategy::{Strategy, ValueTree};
use proptest::test_runner::{Config, RngSeed, TestCaseError, TestError, TestRunner};
use serde::{de::DeserializeOwned, Serialize};
use serde_json::{json, Value};
use std::cell::RefCell;
use std::collections::{BTreeMap, BTreeSet, HashSet};
use std::fmt::Debug;
use std::hash::{Hash, Hasher};
use std::panic::{catch_unwind, AssertUnwindSafe};
use std::path::PathBuf;
use std::sync::atomic::{AtomicBool, AtomicU64, Ordering};
use std::sync::Mutex;
use std::time::Instant;

pub const VERIF_DIR: &str = "/verif";

/// where evidence and replay files go (default /verif; mutant runs redirect with VERIF_OUT)
pub fn out_dir() -> String {
	std::env::var("VERIF_OUT").unwrap_or_else(|_| VERIF_DIR.to_string())
}

// ---------------------------------------------------------------------------------------
// panic capture
// ---------------------------------------------------------------------------------------

#[derive(Clone, Debug)]
pub struct PanicInfo {
	pub message: String,
	pub file: String,
	pub line: u32,
}

impl PanicInfo {
	/// signature: `<file>::<message with digit runs replaced by #>` (spaces -> `_`)
	pub fn signature(&self) -> String {
		// messages often embed input-dependent values: keep only the leading part
		let m = normalise(&self.message);
		let cut = m.find(['[', '{', '(']).unwrap_or(m.len()).min(60);
		format!("panic:{}::{}", short_file(&self.file), m.chars().take(cut).collect::<String>())
	}
	pub fn in_repo(&self) -> bool {
		self.file.contains("versatiles") || self.file.starts_with("/repo")
	}
}

fn short_file(f: &str) -> String {
	let f = f.strip_prefix("/repo/").unwrap_or(f);
	f.to_string()
}

/// normalise a message for use in a signature: digit runs -> `#`, whitespace -> `_`, bounded length
pub fn normalise(msg: &str) -> String {
	let mut out = String::new();
	let mut last_digit = false;
	for c in msg.chars() {
		if c.is_ascii_digit() {
			if !last_digit {
				out.push('#');
			}
			last_digit = true;
		} else {
			last_digit = false;
			if c.is_whitespace() {
				out.push('_');
			} else if c.is_ascii_graphic() {
				out.push(c);
			} else {
				out.push('?');
			}
		}
		if out.len() >= 100 {
			break;
		}
	}
	out
}

thread_local! {
	static LAST_PANIC: RefCell<Option<PanicInfo>> = const { RefCell::new(None) };
}
static ANY_THREAD_PANIC: Mutex<Option<PanicInfo>> = Mutex::new(None);
static HOOK_INSTALLED: AtomicBool = AtomicBool::new(false);
static VERBOSE_PANICS: AtomicBool = AtomicBool::new(false);

pub fn install_panic_hook() {
	if HOOK_INSTALLED.swap(true, Ordering::SeqCst) {
		return;
	}
	std::panic::set_hook(Box::new(|info| {
		let message = if let Some(s) = info.payload().downcast_ref::<&str>() {
			s.to_string()
		} else if let Some(s) = info.payload().downcast_ref::<String>() {
			s.clone()
		} else {
			"<non-string panic payload>".to_string()
		};
		let (file, line) = info
			.location()
			.map(|l| (l.file().to_string(), l.line()))
			.unwrap_or_default();
		let pi = PanicInfo { message, file, line };
		if VERBOSE_PANICS.load(Ordering::Relaxed) {
			eprintln!("[panic] {}:{}: {}", pi.file, pi.line, pi.message);
		}
		LAST_PANIC.with(|l| *l.borrow_mut() = Some(pi.clone()));
		// remember the first repo-side panic seen on any thread (tokio workers)
		if let Ok(mut g) = ANY_THREAD_PANIC.lock() {
			if g.is_none() || !g.as_ref().unwrap().in_repo() {
				*g = Some(pi);
			}
		}
	}));
}

/// Run `f`, turning a panic into `Err(PanicInfo)`.
pub fn guard<T>(f: impl FnOnce() -> T) -> Result<T, PanicInfo> {
	LAST_PANIC.with(|l| *l.borrow_mut() = None);
	if let Ok(mut g) = ANY_THREAD_PANIC.lock() {
		*g = None;
	}
	match catch_unwind(AssertUnwindSafe(f)) {
		Ok(v) => Ok(v),
		Err(_) => {
			let own = LAST_PANIC.with(|l| l.borrow_mut().take());
			let other = ANY_THREAD_PANIC.lock().ok().and_then(|mut g| g.take());
			// prefer a repo-side panic from a worker thread (the caller's panic is then
			// usually only "spawned task panicked")
			let pi = match (own, other) {
				(Some(o), Some(a)) => {
					if !o.in_repo() && a.in_repo() {
						a
					} else if o.message.contains("spawned task panicked") || o.message.contains("JoinError") {
						a
					} else {
						o
					}
				}
				(Some(o), None) => o,
				(None, Some(a)) => a,
				(None, None) => PanicInfo {
					message: "<unknown panic>".into(),
					file: String::new(),
					line: 0,
				},
			};
			Err(pi)
		}
	}
}

// ---------------------------------------------------------------------------------------
// failures, observations
// ---------------------------------------------------------------------------------------

#[derive(Clone, Debug)]
pub struct Fail {
	pub what: String,
	/// signature used to match the known-findings file
	pub sig: String,
}

impl Fail {
	pub fn new(sig: impl Into<String>, what: impl Into<String>) -> Fail {
		Fail {
			what: what.into(),
			sig: sig.into().replace(' ', "_"),
		}
	}
	pub fn from_panic(ctx: &str, p: &PanicInfo) -> Fail {
		Fail {
			what: format!("{ctx}: panic at {}:{}: {}", p.file, p.line, p.message),
			sig: p.signature(),
		}
	}
}

#[macro_export]
macro_rules! fail {
	($sig:expr, $($arg:tt)*) => {
		return Err($crate::engine::Fail::new($sig, format!($($arg)*)))
	};
}

#[macro_export]
macro_rules! ensure_prop {
	($cond:expr, $sig:expr, $($arg:tt)*) => {
		if !($cond) {
			return Err($crate::engine::Fail::new($sig, format!($($arg)*)));
		}
	};
}

/// What the oracle reports about one case (besides pass/fail).
#[derive(Default, Debug)]
pub struct Obs {
	pub labels: Vec<String>,
	pub nontrivial: bool,
	/// additional counters (e.g. lookups performed)
	pub counters: Vec<(String, u64)>,
}

impl Obs {
	pub fn label(&mut self, l: impl Into<String>) {
		self.labels.push(l.into());
	}
	pub fn label_if(&mut self, c: bool, l: &str) {
		if c {
			self.labels.push(l.to_string());
		}
	}
	pub fn nontrivial(&mut self, c: bool) {
		if c {
			self.nontrivial = true;
		}
	}
	pub fn count(&mut self, name: &str, n: u64) {
		self.counters.push((name.to_string(), n));
	}
}

// ---------------------------------------------------------------------------------------
// known findings
// ---------------------------------------------------------------------------------------

#[derive(Default, Debug)]
pub struct Known {
	/// (key, text)
	pub entries: Vec<(String, String)>,
}

impl Known {
	pub fn load(id: &str) -> Known {
		let path = format!("{VERIF_DIR}/KNOWN_FINDINGS.txt");
		let mut k = Known::default();
		if let Ok(text) = std::fs::read_to_string(path) {
			for line in text.lines() {
				let line = line.trim();
				if !line.starts_with("known:") {
					continue; // `fixed:` lines and comments suppress nothing
				}
				let rest = line["known:".len()..].trim();
				let mut parts = rest.splitn(3, ' ');
				let p = parts.next().unwrap_or("");
				let key = parts.next().unwrap_or("");
				let text = parts.next().unwrap_or("").to_string();
				if p != format!("property={id}") {
					continue;
				}
				if let Some(key) = key.strip_prefix("key=") {
					k.entries.push((key.to_string(), text));
				}
			}
		}
		k
	}
	pub fn find(&self, sig: &str) -> Option<&(String, String)> {
		self.entries.iter().find(|(k, _)| k == sig)
	}
}

// ---------------------------------------------------------------------------------------
// the check object
// ---------------------------------------------------------------------------------------

#[derive(Clone, Copy, PartialEq, Eq, Debug)]
pub enum Tier {
	Quick,
	Thorough,
}

pub struct PhaseStats {
	pub name: String,
	pub evaluations: u64,
	pub nontrivial: u64,
	pub distinct_nontrivial: u64,
	pub labels: BTreeMap<String, u64>,
	pub counters: BTreeMap<String, u64>,
	pub samples: Vec<Value>,
	pub exhaustive: bool,
	pub wall_s: f64,
}

pub struct Violation {
	pub phase: String,
	pub what: String,
	pub sig: String,
	pub replay: String,
}

pub struct Check {
	pub id: String,
	pub level: String,
	pub tier: Tier,
	pub seed: u64,
	pub workers: usize,
	pub rule: String,
	pub assumptions: Vec<String>,
	pub extra: BTreeMap<String, Value>,
	start: Instant,
	phases: Vec<PhaseStats>,
	known: Known,
	known_hits: Mutex<BTreeMap<String, (String, u64)>>,
	violation: Option<Violation>,
	replay: Option<(String, Value)>, // (phase, case)
	replay_ran: bool,
	only_phase: Option<String>,
}

fn hash_str(s: &str) -> u64 {
	let mut h = std::collections::hash_map::DefaultHasher::new();
	s.hash(&mut h);
	h.finish()
}

impl Check {
	/// Parse `<quick|thorough>` or `--replay <file>` from the process arguments.
	pub fn from_args(id: &str, level: &str, rule: &str) -> Check {
		install_panic_hook();
		std::env::set_var("RUST_BACKTRACE", "0");
		std::env::set_var("RUST_LIB_BACKTRACE", "0");
		let args: Vec<String> = std::env::args().skip(1).collect();
		let mut tier = match std::env::var("VERIF_TIER").ok().as_deref() {
			Some("thorough") => Tier::Thorough,
			_ => Tier::Quick,
		};
		let mut replay = None;
		let mut only_phase = None;
		let mut i = 0;
		while i < args.len() {
			match args[i].as_str() {
				"quick" => tier = Tier::Quick,
				"thorough" => tier = Tier::Thorough,
				"--replay" => {
					i += 1;
					let path = args.get(i).cloned().unwrap_or_else(|| die("--replay needs a file"));
					let text = std::fs::read_to_string(&path).unwrap_or_else(|e| die(&format!("cannot read {path}: {e}")));
					let v: Value = serde_json::from_str(&text).unwrap_or_else(|e| die(&format!("bad replay file {path}: {e}")));
					let phase = v["phase"].as_str().unwrap_or("").to_string();
					replay = Some((phase, v["case"].clone()));
				}
				"--phase" => {
					i += 1;
					only_phase = args.get(i).cloned();
				}
				"--verbose-panics" => VERBOSE_PANICS.store(true, Ordering::Relaxed),
				other => die(&format!("unknown argument {other}")),
			}
			i += 1;
		}
		let seed = std::env::var("VERIF_SEED")
			.ok()
			.and_then(|s| s.trim().parse::<i64>().ok())
			.map(|v| v as u64)
			.unwrap_or(1);
		let workers = std::env::var("VERIF_WORKERS")
			.ok()
			.and_then(|s| s.parse::<usize>().ok())
			.unwrap_or_else(|| num_cpus::get().clamp(1, 16));
		Check {
			id: id.to_string(),
			level: level.to_string(),
			tier,
			seed,
			workers,
			rule: rule.to_string(),
			assumptions: vec![],
			extra: BTreeMap::new(),
			start: Instant::now(),
			phases: vec![],
			known: Known::load(id),
			known_hits: Mutex::new(BTreeMap::new()),
			violation: None,
			replay,
			replay_ran: false,
			only_phase,
		}
	}

	pub fn is_replay(&self) -> bool {
		self.replay.is_some()
	}

	pub fn cases(&self, quick: u32, thorough: u32) -> u32 {
		match self.tier {
			Tier::Quick => quick,
			Tier::Thorough => thorough,
		}
	}

	pub fn assume(&mut self, s: &str) {
		self.assumptions.push(s.to_string());
	}

	fn skip_phase(&self, name: &str) -> bool {
		if self.violation.is_some() {
			return true;
		}
		if let Some(p) = &self.only_phase {
			if p != name {
				return true;
			}
		}
		false
	}

	/// Evaluate one case: returns Ok(()) for pass or known finding, Err(fail) for a new violation.
	fn eval<C>(&self, oracle: &(dyn Fn(&C, &mut Obs) -> Result<(), Fail> + Sync), case: &C, obs: &mut Obs) -> Result<(), Fail> {
		// A failure caused by the operating system running out of threads, memory mappings or
		// file descriptors says nothing about the property (long campaigns with thousands of
		// SQLite connection pools can get there): wait, try the case again, and give up as a
		// machinery problem (exit 2) if it persists - never report it as a violation.
		for attempt in 0..4 {
			let mut fresh = Obs::default();
			match self.eval_once(oracle, case, &mut fresh) {
				Err(f) if is_resource_exhaustion(&f.what) => {
					if attempt == 3 {
						eprintln!("MACHINERY-ERROR property={} operating-system resources exhausted: {}", self.id, f.what);
						crate::util::cleanup_tmp();
						std::process::exit(2);
					}
					std::thread::sleep(std::time::Duration::from_secs(10 * (attempt + 1)));
				}
				other => {
					obs.labels.append(&mut fresh.labels);
					obs.counters.append(&mut fresh.counters);
					obs.nontrivial |= fresh.nontrivial;
					return other;
				}
			}
		}
		unreachable!()
	}

	fn eval_once<C>(&self, oracle: &(dyn Fn(&C, &mut Obs) -> Result<(), Fail> + Sync), case: &C, obs: &mut Obs) -> Result<(), Fail> {
		let r = guard(|| oracle(case, obs));
		let r = match r {
			Ok(r) => r,
			Err(p) => {
				if p.in_repo() {
					Err(Fail::from_panic("unguarded", &p))
				} else {
					eprintln!(
						"MACHINERY-ERROR property={} harness panic at {}:{}: {}",
						self.id, p.file, p.line, p.message
					);
					std::process::exit(2);
				}
			}
		};
		match r {
			Ok(()) => Ok(()),
			Err(f) => {
				if let Some((key, text)) = self.known.find(&f.sig) {
					let mut g = self.known_hits.lock().unwrap();
					let e = g.entry(key.clone()).or_insert((text.clone(), 0));
					e.1 += 1;
					obs.labels.push(format!("known:{key}"));
					Ok(())
				} else {
					Err(f)
				}
			}
		}
	}

	fn write_replay<C: Serialize>(&self, phase: &str, case: &C, fail: &Fail) -> String {
		let v = json!({
			"property": self.id,
			"phase": phase,
			"what": fail.what,
			"sig": fail.sig,
			"seed": self.seed,
			"case": serde_json::to_value(case).unwrap_or(Value::Null),
		});
		let text = serde_json::to_string_pretty(&v).unwrap();
		let dir = format!("{}/replays", out_dir());
		let _ = std::fs::create_dir_all(&dir);
		let path = format!("{dir}/{}-{:016x}.json", self.id, hash_str(&text));
		if std::fs::write(&path, &text).is_err() {
			eprintln!("cannot write replay file {path}");
		}
		path
	}

	/// A proptest-driven phase. `make` builds the strategy (once per runner thread).
	pub fn phase<C, S, M, F>(&mut self, name: &str, cases: u32, make: M, oracle: F)
	where
		C: Debug + Clone + Serialize + DeserializeOwned + Send,
		S: Strategy<Value = C>,
		M: Fn() -> S + Sync,
		F: Fn(&C, &mut Obs) -> Result<(), Fail> + Sync,
	{
		if let Some((phase, case)) = &self.replay {
			if phase == name {
				self.replay_ran = true;
				let case: C = match serde_json::from_value(case.clone()) {
					Ok(c) => c,
					Err(e) => die(&format!("replay case does not deserialise for phase {name}: {e}")),
				};
				let mut obs = Obs::default();
				let r = self.eval(&oracle, &case, &mut obs);
				let mut st = new_stats(name);
				st.evaluations = 1;
				st.samples.push(serde_json::to_value(&case).unwrap_or(Value::Null));
				self.phases.push(st);
				if let Err(f) = r {
					let path = self.write_replay(name, &case, &f);
					self.violation = Some(Violation {
						phase: name.to_string(),
						what: f.what,
						sig: f.sig,
						replay: path,
					});
				}
			}
			return;
		}
		if self.skip_phase(name) || cases == 0 {
			return;
		}
		let t0 = Instant::now();
		let workers = self.workers.min(cases as usize).max(1);
		let per = cases.div_ceil(workers as u32);
		let stop = AtomicBool::new(false);
		let evals = AtomicU64::new(0);
		let agg: Mutex<Agg> = Mutex::new(Agg::default());
		let failure: Mutex<Option<(C, Fail)>> = Mutex::new(None);
		let this: &Check = self;
		let phase_hash = hash_str(name);

		std::thread::scope(|scope| {
			for w in 0..workers {
				let stop = &stop;
				let evals = &evals;
				let agg = &agg;
				let failure = &failure;
				let make = &make;
				let oracle = &oracle;
				scope.spawn(move || {
					let seed = this
						.seed
						.wrapping_mul(0x9E37_79B9_7F4A_7C15)
						.wrapping_add(phase_hash)
						.wrapping_add((w as u64) << 32 | w as u64);
					let config = Config {
						cases: per,
						failure_persistence: None,
						rng_seed: RngSeed::Fixed(seed),
						max_shrink_iters: 600,
						max_shrink_time: 120_000,
						max_global_rejects: 100_000,
						..Config::default()
					};
					let mut runner = TestRunner::new(config);
					let strategy = make();
					let failed_here = AtomicBool::new(false);
					let local: RefCell<Agg> = RefCell::new(Agg::default());
					let result = runner.run(&strategy, |case| {
						if stop.load(Ordering::Relaxed) && !failed_here.load(Ordering::Relaxed) {
							// another runner found a failure: finish quickly
							return Ok(());
						}
						let mut obs = Obs::default();
						let r = this.eval(oracle, &case, &mut obs);
						if !failed_here.load(Ordering::Relaxed) {
							evals.fetch_add(1, Ordering::Relaxed);
							local.borrow_mut().add(&case, &obs);
						}
						match r {
							Ok(()) => Ok(()),
							Err(f) => {
								failed_here.store(true, Ordering::Relaxed);
								stop.store(true, Ordering::Relaxed);
								Err(TestCaseError::fail(format!("{}\u{1}{}", f.sig, f.what)))
							}
						}
					});
					agg.lock().unwrap().merge(local.into_inner());
					crate::util::shutdown_thread_runtime();
					match result {
						Ok(()) => {}
						Err(TestError::Fail(reason, case)) => {
							let msg = reason.message().to_string();
							let (sig, what) = msg.split_once('\u{1}').map(|(a, b)| (a.to_string(), b.to_string())).unwrap_or((
								"unknown".into(),
								msg.clone(),
							));
							let mut g = failure.lock().unwrap();
							if g.is_none() {
								*g = Some((case, Fail { what, sig }));
							}
						}
						Err(TestError::Abort(reason)) => {
							eprintln!("MACHINERY-ERROR property={} phase={name} proptest aborted: {}", this.id, reason.message());
							std::process::exit(2);
						}
					}
				});
			}
		});

		let mut st = new_stats(name);
		let agg = agg.into_inner().unwrap();
		st.evaluations = evals.load(Ordering::Relaxed);
		st.nontrivial = agg.nontrivial;
		st.distinct_nontrivial = agg.distinct.len() as u64;
		st.labels = agg.labels;
		st.counters = agg.counters;
		st.samples = agg.samples;
		st.wall_s = t0.elapsed().as_secs_f64();
		self.phases.push(st);

		if let Some((case, fail)) = failure.into_inner().unwrap() {
			let path = self.write_replay(name, &case, &fail);
			self.violation = Some(Violation {
				phase: name.to_string(),
				what: fail.what,
				sig: fail.sig,
				replay: path,
			});
		}
	}

	/// An enumerated (non-random) phase over an explicit list of cases; `exhaustive` says
	/// whether the list is a complete finite space.
	pub fn enumerate<C, F>(&mut self, name: &str, cases: Vec<C>, exhaustive: bool, oracle: F)
	where
		C: Debug + Clone + Serialize + DeserializeOwned + Send + Sync,
		F: Fn(&C, &mut Obs) -> Result<(), Fail> + Sync,
	{
		if let Some((phase, case)) = &self.replay {
			if phase == name {
				self.replay_ran = true;
				let case: C = match serde_json::from_value(case.clone()) {
					Ok(c) => c,
					Err(e) => die(&format!("replay case does not deserialise for phase {name}: {e}")),
				};
				let mut obs = Obs::default();
				let r = self.eval(&oracle, &case, &mut obs);
				let mut st = new_stats(name);
				st.evaluations = 1;
				st.samples.push(serde_json::to_value(&case).unwrap_or(Value::Null));
				self.phases.push(st);
				if let Err(f) = r {
					let path = self.write_replay(name, &case, &f);
					self.violation = Some(Violation {
						phase: name.to_string(),
						what: f.what,
						sig: f.sig,
						replay: path,
					});
				}
			}
			return;
		}
		if self.skip_phase(name) || cases.is_empty() {
			return;
		}
		let t0 = Instant::now();
		let workers = self.workers.min(cases.len()).max(1);
		let next = AtomicU64::new(0);
		let stop = AtomicBool::new(false);
		let agg: Mutex<Agg> = Mutex::new(Agg::default());
		let failure: Mutex<Option<(usize, Fail)>> = Mutex::new(None);
		let this: &Check = self;
		let cases_ref = &cases;
		std::thread::scope(|scope| {
			for _ in 0..workers {
				let next = &next;
				let stop = &stop;
				let agg = &agg;
				let failure = &failure;
				let oracle = &oracle;
				scope.spawn(move || {
					let mut local = Agg::default();
					loop {
						if stop.load(Ordering::Relaxed) {
							break;
						}
						let i = next.fetch_add(1, Ordering::Relaxed) as usize;
						if i >= cases_ref.len() {
							break;
						}
						let case = &cases_ref[i];
						let mut obs = Obs::default();
						let r = this.eval(oracle, case, &mut obs);
						local.add(case, &obs);
						if let Err(f) = r {
							stop.store(true, Ordering::Relaxed);
							let mut g = failure.lock().unwrap();
							if g.as_ref().map(|(j, _)| i < *j).unwrap_or(true) {
								*g = Some((i, f));
							}
							break;
						}
					}
					agg.lock().unwrap().merge(local);
					crate::util::shutdown_thread_runtime();
				});
			}
		});
		let mut st = new_stats(name);
		let agg = agg.into_inner().unwrap();
		st.evaluations = agg.evaluations;
		st.nontrivial = agg.nontrivial;
		st.distinct_nontrivial = agg.distinct.len() as u64;
		st.labels = agg.labels;
		st.counters = agg.counters;
		st.samples = agg.samples;
		st.exhaustive = exhaustive;
		st.wall_s = t0.elapsed().as_secs_f64();
		self.phases.push(st);
		if let Some((i, fail)) = failure.into_inner().unwrap() {
			let path = self.write_replay(name, &cases[i], &fail);
			self.violation = Some(Violation {
				phase: name.to_string(),
				what: fail.what,
				sig: fail.sig,
				replay: path,
			});
		}
	}

	/// Replay every committed regression file `replays/regress/<id>-*.json` (fast tier).
	pub fn regression_files(&self) -> Vec<PathBuf> {
		let dir = format!("{VERIF_DIR}/replays/regress");
		let mut v = vec![];
		if let Ok(rd) = std::fs::read_dir(dir) {
			for e in rd.flatten() {
				let n = e.file_name().to_string_lossy().to_string();
				if n.starts_with(&format!("{}-", self.id)) && n.ends_with(".json") {
					v.push(e.path());
				}
			}
		}
		v.sort();
		v
	}

	/// Regression cases of one phase (committed shrunk failures), deserialised.
	pub fn regression_cases<C: DeserializeOwned>(&self, phase: &str) -> Vec<C> {
		let mut out = vec![];
		for p in self.regression_files() {
			if let Ok(text) = std::fs::read_to_string(&p) {
				if let Ok(v) = serde_json::from_str::<Value>(&text) {
					if v["phase"].as_str() == Some(phase) {
						if let Ok(c) = serde_json::from_value::<C>(v["case"].clone()) {
							out.push(c);
						}
					}
				}
			}
		}
		out
	}

	pub fn finish(self) -> ! {
		let wall = self.start.elapsed().as_secs_f64();
		if self.replay.is_some() && !self.replay_ran {
			die("replay file names a phase this check does not have");
		}
		let mut evaluations = 0u64;
		let mut distinct = 0u64;
		let mut samples: Vec<Value> = vec![];
		let mut phases = vec![];
		let mut all_exhaustive = !self.phases.is_empty();
		for p in &self.phases {
			evaluations += p.evaluations;
			distinct += p.distinct_nontrivial;
			all_exhaustive &= p.exhaustive;
			for s in p.samples.iter().take(2) {
				if samples.len() < 8 {
					samples.push(json!({"phase": p.name, "case": truncate_value(s, 0)}));
				}
			}
			phases.push(json!({
				"name": p.name,
				"evaluations": p.evaluations,
				"nontrivial": p.nontrivial,
				"distinct_nontrivial": p.distinct_nontrivial,
				"labels": p.labels,
				"counters": p.counters,
				"exhaustive": p.exhaustive,
				"wall_s": (p.wall_s * 1000.0).round() / 1000.0,
			}));
		}
		let known_hits = self.known_hits.lock().unwrap().clone();
		let mut coverage = json!({
			"evaluations": evaluations,
			"distinct_nontrivial": distinct,
			"rule": self.rule,
			"samples": samples,
			"exhaustive": all_exhaustive,
			"phases": phases,
			"known_findings_hit": known_hits.iter().map(|(k,(t,n))| json!({"key":k,"text":t,"cases":n})).collect::<Vec<_>>(),
			"workers": self.workers,
		});
		for (k, v) in &self.extra {
			coverage[k] = v.clone();
		}
		// C15/C20: `./check` runs the same binary built with release-like arithmetic first and hands
		// the evidence of that run to this one
		if let Ok(p) = std::env::var("VERIF_PROFILE") {
			coverage["profile_of_code_under_test"] = json!(p);
		} else if let Some(e) = std::env::var("VERIF_RELCHECK_EVIDENCE").ok().and_then(|f| std::fs::read(f).ok()).and_then(|b| serde_json::from_slice::<serde_json::Value>(&b).ok()) {
			coverage["release_like_run"] = json!({
				"what": "the same phases, run first with the code under test compiled without debug assertions and with wrapping overflow (cargo profile relcheck)",
				"tier": e["tier"], "seed": e["seed"], "evaluations": e["coverage"]["evaluations"], "distinct_nontrivial": e["coverage"]["distinct_nontrivial"], "violations": e["violations"], "wall_s": e["wall_s"],
			});
		}
		if let Some(v) = &self.violation {
			coverage["violation"] = json!({"phase": v.phase, "what": v.what, "sig": v.sig, "replay": v.replay});
		}
		let evidence = json!({
			"property_id": self.id,
			"tier": match self.tier { Tier::Quick => "quick", Tier::Thorough => "thorough" },
			"seed": self.seed as i64,
			"level": self.level,
			"coverage": coverage,
			"assumptions": self.assumptions,
			"wall_s": (wall * 1000.0).round() / 1000.0,
			"violations": if self.violation.is_some() { 1 } else { 0 },
		});
		if self.replay.is_none() {
			let dir = format!("{}/evidence", out_dir());
			let _ = std::fs::create_dir_all(&dir);
			let path = format!("{dir}/{}.json", self.id);
			if let Err(e) = std::fs::write(&path, serde_json::to_string_pretty(&evidence).unwrap()) {
				eprintln!("cannot write evidence {path}: {e}");
			}
			// a copy per tier, so that a quick run does not wipe out the record of a thorough one
			let dir = format!("{}/evidence-by-tier", out_dir());
			let _ = std::fs::create_dir_all(&dir);
			let _ = std::fs::write(format!("{dir}/{}.{}.json", self.id, match self.tier { Tier::Quick => "quick", Tier::Thorough => "thorough" }), serde_json::to_string_pretty(&evidence).unwrap());
		}
		crate::util::cleanup_tmp();
		for (k, (t, n)) in known_hits.iter() {
			println!("KNOWN-FINDING: property={} key={} {} ({} cases)", self.id, k, t, n);
		}
		println!(
			"property={} tier={:?} seed={} evaluations={} distinct_nontrivial={} wall_s={:.1}",
			self.id, self.tier, self.seed, evaluations, distinct, wall
		);
		for p in &self.phases {
			println!(
				"  phase {:<28} evals={:<8} nontrivial={:<8} distinct={:<8} {:.1}s{}",
				p.name,
				p.evaluations,
				p.nontrivial,
				p.distinct_nontrivial,
				p.wall_s,
				if p.exhaustive { " exhaustive" } else { "" }
			);
		}
		if let Some(v) = &self.violation {
			println!("  violation in phase {}: {}", v.phase, v.what);
			println!("  signature: {}", v.sig);
			println!("VIOLATION property={} replay={}", self.id, v.replay);
			exit_now(1);
		}
		exit_now(0);
	}
}

/// End the process with the verdict without running exit handlers: helper threads of the code under
/// test (connection pools, runtimes) may still be winding down, and a verdict that has been printed
/// must not be turned into a crash by them.
fn exit_now(code: i32) -> ! {
	use std::io::Write;
	let _ = std::io::stdout().flush();
	let _ = std::io::stderr().flush();
	unsafe { libc::_exit(code) }
}

fn truncate_value(v: &Value, depth: usize) -> Value {
	match v {
		Value::Array(a) => {
			let mut out: Vec<Value> = a.iter().take(12).map(|x| truncate_value(x, depth + 1)).collect();
			if a.len() > 12 {
				out.push(Value::String(format!("… {} more", a.len() - 12)));
			}
			Value::Array(out)
		}
		Value::Object(o) => Value::Object(o.iter().map(|(k, x)| (k.clone(), truncate_value(x, depth + 1))).collect()),
		Value::String(s) if s.chars().count() > 200 => Value::String(format!("{}… ({} chars)", s.chars().take(200).collect::<String>(), s.chars().count())),
		other => other.clone(),
	}
}

fn new_stats(name: &str) -> PhaseStats {
	PhaseStats {
		name: name.to_string(),
		evaluations: 0,
		nontrivial: 0,
		distinct_nontrivial: 0,
		labels: BTreeMap::new(),
		counters: BTreeMap::new(),
		samples: vec![],
		exhaustive: false,
		wall_s: 0.0,
	}
}

#[derive(Default)]
struct Agg {
	evaluations: u64,
	nontrivial: u64,
	distinct: HashSet<u64>,
	labels: BTreeMap<String, u64>,
	counters: BTreeMap<String, u64>,
	samples: Vec<Value>,
	sample_labels: BTreeSet<String>,
}

impl Agg {
	fn add<C: Serialize>(&mut self, case: &C, obs: &Obs) {
		self.evaluations += 1;
		for l in &obs.labels {
			*self.labels.entry(l.clone()).or_insert(0) += 1;
		}
		for (k, n) in &obs.counters {
			*self.counters.entry(k.clone()).or_insert(0) += n;
		}
		if obs.nontrivial {
			self.nontrivial += 1;
			let text = serde_json::to_string(case).unwrap_or_default();
			let fresh = self.distinct.insert(hash_str(&text));
			// keep a few samples, preferring ones with label sets not seen yet
			if fresh && self.samples.len() < 4 {
				let key = obs.labels.join(",");
				if self.sample_labels.insert(key) || self.samples.is_empty() {
					if let Ok(v) = serde_json::from_str::<Value>(&text) {
						self.samples.push(v);
					}
				}
			}
		}
	}
	fn merge(&mut self, other: Agg) {
		self.evaluations += other.evaluations;
		self.nontrivial += other.nontrivial;
		self.distinct.extend(other.distinct);
		for (k, v) in other.labels {
			*self.labels.entry(k).or_insert(0) += v;
		}
		for (k, v) in other.counters {
			*self.counters.entry(k).or_insert(0) += v;
		}
		for s in other.samples {
			if self.samples.len() < 6 {
				self.samples.push(s);
			}
		}
	}
}

/// does a failure text speak of exhausted operating-system resources?
pub fn is_resource_exhaustion(text: &str) -> bool {
	[
		"Resource temporarily unavailable",
		"Cannot allocate memory",
		"Too many open files",
		"failed to spawn thread",
		"can't spawn worker thread",
		"failed to allocate an alternative stack",
		"No space left on device",
		"unable to open database file",
	]
	.iter()
	.any(|p| text.contains(p))
}

pub fn die(msg: &str) -> ! {
	eprintln!("MACHINERY-ERROR {msg}");
	crate::util::cleanup_tmp();
	std::process::exit(2);
}

/// Generate one value from a strategy with a fixed seed (used to build fixtures).
pub fn sample_one<S: Strategy>(strategy: &S, seed: u64) -> S::Value {
	let config = Config {
		failure_persistence: None,
		rng_seed: RngSeed::Fixed(seed),
		..Config::default()
	};
	let mut runner = TestRunner::new(config);
	strategy.new_tree(&mut runner).expect("strategy must generate").current()
}

/// Watchdog: exit 2 if the whole check takes longer than `secs` (thorough tier: three times
/// that - the work of a tier is fixed, so on a machine that is busy with other jobs a thorough
/// run may take several times its usual wall time without anything being wrong; genuine hangs
/// are recognised by the checks themselves, this is only the last resort).
pub fn watchdog(secs: u64) {
	let secs = if std::env::args().any(|a| a == "thorough") { secs * 3 } else { secs };
	std::thread::spawn(move || {
		std::thread::sleep(std::time::Duration::from_secs(secs));
		eprintln!("MACHINERY-ERROR watchdog: check exceeded {secs} s (reported as inconclusive, not as a violation)");
		crate::util::cleanup_tmp();
		std::process::exit(2);
	});
}

//! Shared helpers around container files: targets, writing through the repository's writers,
//! decoding with the independent codecs, comparing with the model.

use crate::codec::{self, Decoded};
use crate::engine::{guard, Fail};
use crate::model::{lookup, pyramid_boxes, Coord, Fmt, MemReader, TileSet};
use crate::util::{self, Comp};
use serde::{Deserialize, Serialize};
use std::path::{Path, PathBuf};
use versatiles_core::types::TilesReaderTrait;

#[derive(Clone, Copy, Debug, PartialEq, Eq, PartialOrd, Ord, Hash, Serialize, Deserialize)]
pub enum Target {
	Versatiles,
	Pmtiles,
	Mbtiles,
	Tar,
	Dir,
}

impl Target {
	pub const ALL: [Target; 5] = [Target::Versatiles, Target::Pmtiles, Target::Mbtiles, Target::Tar, Target::Dir];
	pub fn suffix(self) -> &'static str {
		match self {
			Target::Versatiles => ".versatiles",
			Target::Pmtiles => ".pmtiles",
			Target::Mbtiles => ".mbtiles",
			Target::Tar => ".tar",
			Target::Dir => "",
		}
	}
	pub fn name(self) -> &'static str {
		match self {
			Target::Versatiles => "versatiles",
			Target::Pmtiles => "pmtiles",
			Target::Mbtiles => "mbtiles",
			Target::Tar => "tar",
			Target::Dir => "directory",
		}
	}
	/// (format, compression) pairs the target format can express
	pub fn pairs(self) -> Vec<(Fmt, Comp)> {
		match self {
			Target::Versatiles | Target::Tar | Target::Dir => crate::gen::all_pairs(),
			Target::Pmtiles => {
				let mut v = vec![];
				for f in [Fmt::Pbf, Fmt::Png, Fmt::Jpg, Fmt::Webp, Fmt::Avif] {
					for c in Comp::ALL {
						v.push((f, c));
					}
				}
				v
			}
			Target::Mbtiles => vec![(Fmt::Pbf, Comp::Gzip), (Fmt::Jpg, Comp::None), (Fmt::Png, Comp::None), (Fmt::Webp, Comp::None)],
		}
	}
	pub fn accepts(self, f: Fmt, c: Comp) -> bool {
		self.pairs().contains(&(f, c))
	}
	/// a fresh path for a container of this kind (directory targets are created)
	pub fn fresh_path(self) -> PathBuf {
		match self {
			Target::Dir => util::tmp_dir(),
			t => util::tmp_path(t.suffix()),
		}
	}
}

/// Write `reader` with the repository's writer for `target`.
pub fn write_with_repo(reader: &mut dyn TilesReaderTrait, path: &Path) -> Result<(), Fail> {
	let p = path.to_str().unwrap().to_string();
	if p.ends_with(".mbtiles") {
		util::throttle_threads();
	}
	match guard(|| util::block_on(versatiles_container::write_to_filename(reader, &p))) {
		Ok(Ok(())) => Ok(()),
		Ok(Err(e)) => Err(Fail::new("write:error", format!("writing {p} failed: {e:#}"))),
		Err(pi) => Err(Fail::from_panic(&format!("writing {p}"), &pi)),
	}
}

pub fn open_with_repo(path: &Path) -> Result<Box<dyn TilesReaderTrait>, Fail> {
	let p = path.to_str().unwrap().to_string();
	if p.ends_with(".mbtiles") {
		util::throttle_threads();
	}
	match guard(|| util::block_on(versatiles_container::get_reader(&p))) {
		Ok(Ok(r)) => Ok(r),
		Ok(Err(e)) => Err(Fail::new(format!("open:error:{}", crate::engine::normalise(&format!("{e:#}"))), format!("opening {p} failed: {e:#}"))),
		Err(pi) => Err(Fail::from_panic(&format!("opening {p}"), &pi)),
	}
}

/// Decode a container file with the harness's independent decoder.
pub fn decode_independent(target: Target, path: &Path) -> Result<Decoded, String> {
	match target {
		Target::Versatiles => codec::versatiles::decode(&std::fs::read(path).map_err(|e| e.to_string())?).map(|(d, _)| d),
		Target::Pmtiles => codec::pmtiles::decode(&std::fs::read(path).map_err(|e| e.to_string())?).map(|(d, _)| d),
		Target::Mbtiles => codec::mbtiles::decode(path).map(|(d, _)| d),
		Target::Tar => codec::tar::decode(&std::fs::read(path).map_err(|e| e.to_string())?),
		Target::Dir => codec::dir::decode(path),
	}
}

/// Compare what the repository's reader returns with the model: every non-empty model tile is
/// returned with identical bytes, every probe coordinate without a model tile gives None.
pub fn compare_reader_with_model(reader: &dyn TilesReaderTrait, set: &TileSet, probes: &[Coord], ctx: &str) -> Result<u64, Fail> {
	let mut lookups = 0u64;
	for (c, b) in set.nonempty() {
		lookups += 1;
		match guard(|| lookup(reader, c)) {
			Ok(Ok(Some(got))) => {
				if &got != b {
					return Err(Fail::new(
						"roundtrip:wrong-bytes",
						format!("{ctx}: tile {c} has {} bytes ({}), expected {} bytes ({})", got.len(), util::hex_short(&got), b.len(), util::hex_short(b)),
					));
				}
			}
			Ok(Ok(None)) => return Err(Fail::new("roundtrip:tile-missing", format!("{ctx}: tile {c} ({} bytes) is not returned", b.len()))),
			Ok(Err(e)) => return Err(Fail::new("roundtrip:lookup-error", format!("{ctx}: lookup of {c} failed: {e}"))),
			Err(p) => return Err(Fail::from_panic(&format!("{ctx}: lookup of {c}"), &p)),
		}
	}
	for c in probes {
		if set.tiles.contains_key(c) {
			continue; // present (possibly with an empty payload: don't care)
		}
		lookups += 1;
		match guard(|| lookup(reader, c)) {
			Ok(Ok(None)) => {}
			Ok(Ok(Some(got))) => return Err(Fail::new("roundtrip:extra-tile", format!("{ctx}: lookup of {c} returns {} bytes, the source has no tile there", got.len()))),
			// an error for a coordinate without a tile is tolerated (no tile is invented)
			Ok(Err(_)) => {}
			Err(p) => return Err(Fail::from_panic(&format!("{ctx}: lookup of {c}"), &p)),
		}
	}
	Ok(lookups)
}

/// Compare an independently decoded file with the model (both directions).
pub fn compare_decoded_with_model(dec: &Decoded, set: &TileSet, ctx: &str) -> Result<(), Fail> {
	for (c, b) in set.nonempty() {
		match dec.tiles.get(c) {
			Some(got) if got == b => {}
			Some(got) => {
				return Err(Fail::new(
					"layout:wrong-bytes",
					format!("{ctx}: independent decoder reads {} bytes ({}) for {c}, expected {} ({})", got.len(), util::hex_short(got), b.len(), util::hex_short(b)),
				))
			}
			None => return Err(Fail::new("layout:tile-missing", format!("{ctx}: independent decoder finds no tile {c}"))),
		}
	}
	for (c, got) in &dec.tiles {
		if got.is_empty() {
			continue;
		}
		if !set.tiles.contains_key(c) {
			return Err(Fail::new("layout:extra-tile", format!("{ctx}: independent decoder finds a tile {c} ({} bytes) the source does not have", got.len())));
		}
	}
	Ok(())
}

/// Coverage advertised by a reader must contain every readable tile of the model.
pub fn coverage_contains_model(reader: &dyn TilesReaderTrait, set: &TileSet, ctx: &str) -> Result<(), Fail> {
	let boxes = pyramid_boxes(&reader.get_parameters().bbox_pyramid);
	for (c, _) in set.nonempty() {
		let inside = boxes.get(&c.z).map(|b| c.x >= b.0 && c.x <= b.2 && c.y >= b.1 && c.y <= b.3).unwrap_or(false);
		if !inside {
			return Err(Fail::new("coverage:tile-outside", format!("{ctx}: tile {c} is readable but outside the advertised coverage {:?}", boxes.get(&c.z))));
		}
	}
	Ok(())
}

pub fn mem_reader(set: &TileSet, default_stream: bool) -> MemReader {
	let r = MemReader::new(set, "mem");
	// the lookup-loop stream is linear in the advertised area: only use it on small areas
	let area: u64 = set.pyramid.values().map(|b| (b.2 - b.0 + 1) as u64 * (b.3 - b.1 + 1) as u64).sum();
	if default_stream && area <= 4096 {
		r.with_default_stream()
	} else {
		r
	}
}

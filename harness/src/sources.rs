//! Tile sources built from generated specs: container readers over fixtures (written by the
//! repository's writers or by the harness's independent encoders), the converting reader, and
//! pipeline operations rendered to VPL. Plus the reference model of what they must return and
//! generated bounding boxes positioned relative to a source's coverage.

use crate::codec;
use crate::containers::{open_with_repo, write_with_repo, Target};
use crate::engine::{guard, Fail};
use crate::model::{georef, Coord, Fmt, MemReader, Mix, SetSpec, TileSet};
use crate::util::{self, Comp, TmpGuard};
use serde::{Deserialize, Serialize};
use std::collections::{BTreeMap, HashMap};
use std::sync::{Arc, Mutex};
use versatiles_core::types::{TileBBox, TilesReaderTrait};
use versatiles_pipeline::{OperationTrait, PipelineFactory};

// ---------------------------------------------------------------------------------------
// leaves
// ---------------------------------------------------------------------------------------

#[derive(Clone, Debug, Serialize, Deserialize, PartialEq, Eq)]
pub enum LeafKind {
	/// in-memory reader; `true` = streams through the trait's default lookup loop
	Mem(bool),
	/// container written by the repository's writer, read by the repository's reader
	Repo(Target),
	/// container written by the harness's independent encoder (layout chosen from the seed)
	Enc(Target, u32),
}

#[derive(Clone, Debug, Serialize, Deserialize, PartialEq, Eq)]
pub struct Leaf {
	pub spec: SetSpec,
	pub kind: LeafKind,
}

pub fn layout_versatiles(seed: u32) -> codec::versatiles::Layout {
	let mut m = Mix::new(seed as u64);
	codec::versatiles::Layout {
		tight_blocks: m.below(3) != 0,
		widen: [0u8, 1, 3, 255][m.below(4) as usize],
		block_order: m.below(3) as u8,
		tile_order: m.below(3) as u8,
		share_all: m.below(2) == 0,
		gaps: m.below(3) == 0,
		with_meta: m.below(4) != 0,
		seed,
	}
}
pub fn layout_pmtiles(seed: u32) -> codec::pmtiles::Layout {
	let mut m = Mix::new(seed as u64 ^ 0x1111);
	codec::pmtiles::Layout {
		runs: m.below(2) == 0,
		share: m.below(2) == 0,
		leaf_levels: m.below(3) as u8,
		leaf_size: [1u16, 2, 3, 7, 50][m.below(5) as usize],
		mixed_root: m.below(3) == 0,
		leaves_reversed: m.below(2) == 0,
		internal: Comp::ALL[m.below(3) as usize],
		unclustered: m.below(3) == 0,
		with_meta: m.below(4) != 0,
		seed,
	}
}
pub fn layout_mbtiles(seed: u32) -> codec::mbtiles::Layout {
	let mut m = Mix::new(seed as u64 ^ 0x2222);
	codec::mbtiles::Layout { as_view: m.below(2) == 0, with_index: m.below(3) != 0, extra_meta: m.below(2) == 0, order: m.below(3) as u8, seed }
}
pub fn layout_tar(seed: u32) -> codec::tar::Layout {
	let mut m = Mix::new(seed as u64 ^ 0x3333);
	codec::tar::Layout {
		dot_slash: m.below(2) == 0,
		dir_members: m.below(2) == 0,
		order: m.below(3) as u8,
		meta_pos: m.below(4) as u8,
		meta_name: m.below(3) as u8,
		ustar: m.below(2) == 0,
		extra_member: m.below(3) == 0,
		seed,
	}
}
pub fn layout_dir(seed: u32) -> codec::dir::Layout {
	let mut m = Mix::new(seed as u64 ^ 0x4444);
	codec::dir::Layout { extra_files: m.below(2) == 0, meta_name: m.below(4) as u8 }
}

/// Encode `set` with the harness encoder for `target` into a fresh path.
pub fn encode_fixture(set: &TileSet, target: Target, seed: u32) -> Result<std::path::PathBuf, Fail> {
	let path = target.fresh_path();
	let r: Result<(), String> = match target {
		Target::Versatiles => std::fs::write(&path, codec::versatiles::encode(set, &layout_versatiles(seed))).map_err(|e| e.to_string()),
		Target::Pmtiles => std::fs::write(&path, codec::pmtiles::encode(set, &layout_pmtiles(seed)).0).map_err(|e| e.to_string()),
		Target::Mbtiles => codec::mbtiles::encode(set, &layout_mbtiles(seed), &path),
		Target::Tar => std::fs::write(&path, codec::tar::encode(set, &layout_tar(seed))).map_err(|e| e.to_string()),
		Target::Dir => codec::dir::encode(set, &layout_dir(seed), &path),
	};
	r.map_err(|e| Fail::new("harness:encode", format!("harness encoder failed: {e}")))?;
	Ok(path)
}

impl Leaf {
	/// Open the leaf as a reader of the code under test.
	pub fn open(&self, set: &TileSet, guards: &mut Vec<TmpGuard>) -> Result<Box<dyn TilesReaderTrait>, Fail> {
		match &self.kind {
			LeafKind::Mem(default_stream) => {
				// in-memory leaves answer after 0..4 pending polls, derived from the digits of the tag
				// (overlay / merge leaves are tagged src0, src1, ...: earlier ones tend to be slower)
				let n: usize = self.spec.tag.chars().filter(|c| c.is_ascii_digit()).collect::<String>().parse::<u64>().unwrap_or(0) as usize;
				Ok(Box::new(crate::containers::mem_reader(set, *default_stream).with_yields([3u8, 0, 2, 1, 4, 0][n % 6])))
			}
			LeafKind::Repo(target) => {
				let path = target.fresh_path();
				guards.push(TmpGuard(path.clone()));
				let mut src = MemReader::new(set, "mem");
				write_with_repo(&mut src, &path)?;
				open_with_repo(&path)
			}
			LeafKind::Enc(target, seed) => {
				let path = encode_fixture(set, *target, *seed)?;
				guards.push(TmpGuard(path.clone()));
				open_with_repo(&path)
			}
		}
	}
	pub fn label(&self) -> String {
		match &self.kind {
			LeafKind::Mem(false) => "leaf:mem".into(),
			LeafKind::Mem(true) => "leaf:mem-default-stream".into(),
			LeafKind::Repo(t) => format!("leaf:repo-{}", t.name()),
			LeafKind::Enc(t, _) => format!("leaf:enc-{}", t.name()),
		}
	}
}

// ---------------------------------------------------------------------------------------
// pipeline trees
// ---------------------------------------------------------------------------------------

#[derive(Clone, Debug, Serialize, Deserialize, PartialEq)]
pub enum Node {
	Leaf(Leaf),
	/// from_debug format=pbf
	Debug,
	Overlay(Vec<Node>),
	Merge(Vec<Node>),
	FilterZoom { src: Box<Node>, min: Option<u8>, max: Option<u8> },
	FilterBbox { src: Box<Node>, bbox: [f64; 4] },
}

/// the materialised counterpart (tile sets expanded)
pub enum MNode {
	Leaf(TileSet),
	Debug,
	Overlay(Vec<MNode>),
	Merge(Vec<MNode>),
	FilterZoom { src: Box<MNode>, min: Option<u8>, max: Option<u8> },
	FilterBbox { src: Box<MNode>, bbox: [f64; 4] },
}

#[derive(Clone, Debug, PartialEq)]
pub enum Expect {
	/// no tile
	Absent,
	/// a tile whose decompressed payload is this
	Raw(Vec<u8>),
	/// a tile must exist, content is not modelled
	Exists,
	/// the statement leaves it open (rounding guard band, empty payloads)
	DontCare,
}

impl Node {
	pub fn materialise(&self) -> MNode {
		match self {
			Node::Leaf(l) => MNode::Leaf(l.spec.materialise()),
			Node::Debug => MNode::Debug,
			Node::Overlay(v) => MNode::Overlay(v.iter().map(|n| n.materialise()).collect()),
			Node::Merge(v) => MNode::Merge(v.iter().map(|n| n.materialise()).collect()),
			Node::FilterZoom { src, min, max } => MNode::FilterZoom { src: Box::new(src.materialise()), min: *min, max: *max },
			Node::FilterBbox { src, bbox } => MNode::FilterBbox { src: Box::new(src.materialise()), bbox: *bbox },
		}
	}

	fn render_into(&self, out: &mut String, counter: &mut usize) {
		match self {
			Node::Leaf(_) => {
				out.push_str(&format!("from_container filename=\"leaf{}\"", *counter));
				*counter += 1;
			}
			Node::Debug => out.push_str("from_debug format=pbf"),
			Node::Overlay(v) | Node::Merge(v) => {
				out.push_str(if matches!(self, Node::Overlay(_)) { "from_overlayed [ " } else { "from_vectortiles_merged [ " });
				for (i, n) in v.iter().enumerate() {
					if i > 0 {
						out.push_str(", ");
					}
					n.render_into(out, counter);
				}
				out.push_str(" ]");
			}
			Node::FilterZoom { src, min, max } => {
				src.render_into(out, counter);
				out.push_str(" | filter_zoom");
				if let Some(m) = min {
					out.push_str(&format!(" min={m}"));
				}
				if let Some(m) = max {
					out.push_str(&format!(" max={m}"));
				}
			}
			Node::FilterBbox { src, bbox } => {
				src.render_into(out, counter);
				out.push_str(&format!(" | filter_bbox bbox=[{},{},{},{}]", bbox[0], bbox[1], bbox[2], bbox[3]));
			}
		}
	}

	/// VPL text; leaves are numbered in traversal order (`leaf0`, `leaf1`, …)
	pub fn render(&self) -> String {
		let mut s = String::new();
		let mut n = 0;
		self.render_into(&mut s, &mut n);
		s
	}

	pub fn leaves(&self) -> Vec<&Leaf> {
		let mut v = vec![];
		fn walk<'a>(n: &'a Node, v: &mut Vec<&'a Leaf>) {
			match n {
				Node::Leaf(l) => v.push(l),
				Node::Debug => {}
				Node::Overlay(c) | Node::Merge(c) => c.iter().for_each(|x| walk(x, v)),
				Node::FilterZoom { src, .. } | Node::FilterBbox { src, .. } => walk(src, v),
			}
		}
		walk(self, &mut v);
		v
	}

	pub fn depth(&self) -> usize {
		match self {
			Node::Leaf(_) | Node::Debug => 0,
			Node::Overlay(c) | Node::Merge(c) => 1 + c.iter().map(|x| x.depth()).max().unwrap_or(0),
			Node::FilterZoom { src, .. } | Node::FilterBbox { src, .. } => 1 + src.depth(),
		}
	}

	pub fn labels(&self, out: &mut Vec<String>) {
		match self {
			Node::Leaf(l) => out.push(l.label()),
			Node::Debug => out.push("op:from_debug".into()),
			Node::Overlay(c) => {
				out.push("op:from_overlayed".into());
				c.iter().for_each(|x| x.labels(out));
			}
			Node::Merge(c) => {
				out.push("op:from_vectortiles_merged".into());
				c.iter().for_each(|x| x.labels(out));
			}
			Node::FilterZoom { src, .. } => {
				out.push("op:filter_zoom".into());
				src.labels(out);
			}
			Node::FilterBbox { src, .. } => {
				out.push("op:filter_bbox".into());
				src.labels(out);
			}
		}
	}
}

impl MNode {
	pub fn sets(&self) -> Vec<&TileSet> {
		let mut v = vec![];
		fn walk<'a>(n: &'a MNode, v: &mut Vec<&'a TileSet>) {
			match n {
				MNode::Leaf(s) => v.push(s),
				MNode::Debug => {}
				MNode::Overlay(c) | MNode::Merge(c) => c.iter().for_each(|x| walk(x, v)),
				MNode::FilterZoom { src, .. } | MNode::FilterBbox { src, .. } => walk(src, v),
			}
		}
		walk(self, &mut v);
		v
	}

	/// declared compression of the node's output
	pub fn comp(&self) -> Comp {
		match self {
			MNode::Leaf(s) => s.comp,
			MNode::Debug => Comp::None,
			MNode::Overlay(c) => {
				let first = c[0].comp();
				if c.iter().all(|x| x.comp() == first) {
					first
				} else {
					Comp::None
				}
			}
			MNode::Merge(_) => Comp::None,
			MNode::FilterZoom { src, .. } | MNode::FilterBbox { src, .. } => src.comp(),
		}
	}

	/// what the node must return at `c` (decompressed payload)
	pub fn expect(&self, c: &Coord) -> Expect {
		match self {
			MNode::Leaf(s) => match s.raw.get(c) {
				None => Expect::Absent,
				Some(b) if b.is_empty() => Expect::DontCare,
				Some(b) => Expect::Raw(b.clone()),
			},
			MNode::Debug => {
				if c.in_range() {
					Expect::Exists
				} else {
					Expect::DontCare
				}
			}
			MNode::Overlay(children) => {
				for ch in children {
					match ch.expect(c) {
						Expect::Absent => continue,
						other => return other,
					}
				}
				Expect::Absent
			}
			MNode::Merge(children) => {
				let mut any = false;
				for ch in children {
					match ch.expect(c) {
						Expect::Absent => {}
						Expect::DontCare => return Expect::DontCare,
						_ => any = true,
					}
				}
				if any {
					Expect::Exists
				} else {
					Expect::Absent
				}
			}
			MNode::FilterZoom { src, min, max } => {
				if min.map(|m| c.z < m).unwrap_or(false) || max.map(|m| c.z > m).unwrap_or(false) {
					Expect::Absent
				} else {
					src.expect(c)
				}
			}
			MNode::FilterBbox { src, bbox } => match classify_geo(c, bbox) {
				georef::Cls::Out => Expect::Absent,
				georef::Cls::In => src.expect(c),
				georef::Cls::Boundary => match src.expect(c) {
					Expect::Absent => Expect::Absent,
					_ => Expect::DontCare,
				},
			},
		}
	}

	/// every coordinate at which some leaf holds a tile
	pub fn candidate_coords(&self) -> Vec<Coord> {
		let mut s = std::collections::BTreeSet::new();
		for set in self.sets() {
			s.extend(set.tiles.keys().copied());
		}
		s.into_iter().collect()
	}

	/// model coverage: bounding boxes per level of the tiles the node can return (Debug: none)
	pub fn coverage(&self) -> BTreeMap<u8, (u32, u32, u32, u32)> {
		let mut m: BTreeMap<u8, (u32, u32, u32, u32)> = BTreeMap::new();
		for c in self.candidate_coords() {
			if matches!(self.expect(&c), Expect::Absent) {
				continue;
			}
			let e = m.entry(c.z).or_insert((c.x, c.y, c.x, c.y));
			e.0 = e.0.min(c.x);
			e.1 = e.1.min(c.y);
			e.2 = e.2.max(c.x);
			e.3 = e.3.max(c.y);
		}
		m
	}
}

/// Classify a tile against a geographic box [west, south, east, north].
pub fn classify_geo(c: &Coord, bbox: &[f64; 4]) -> georef::Cls {
	let z = c.z;
	let cx = georef::classify(c.x, georef::tx(bbox[0], z), georef::tx(bbox[2], z), z);
	let cy = georef::classify(c.y, georef::ty(bbox[3], z), georef::ty(bbox[1], z), z);
	use georef::Cls::*;
	match (cx, cy) {
		(Out, _) | (_, Out) => Out,
		(In, In) => In,
		_ => Boundary,
	}
}

// ---------------------------------------------------------------------------------------
// building the operation through the pipeline factory
// ---------------------------------------------------------------------------------------

pub struct BuiltPipeline {
	pub op: Box<dyn OperationTrait>,
	pub text: String,
	pub model: MNode,
	pub guards: Vec<TmpGuard>,
}

/// Factory whose `from_container filename=leafN` resolves to the prepared readers.
pub fn factory_with(readers: Vec<Box<dyn TilesReaderTrait>>, dir: &std::path::Path) -> PipelineFactory {
	let map: HashMap<String, Box<dyn TilesReaderTrait>> = readers.into_iter().enumerate().map(|(i, r)| (format!("leaf{i}"), r)).collect();
	let map = Arc::new(Mutex::new(map));
	let dir_s = dir.to_string_lossy().to_string();
	PipelineFactory::default(
		dir,
		Box::new(move |filename: String| {
			let map = map.clone();
			let dir_s = dir_s.clone();
			Box::pin(async move {
				let key = filename.strip_prefix(&dir_s).unwrap_or(&filename).trim_start_matches('/').to_string();
				// sources take differently long to open (a remote container next to a local file):
				// the callback of `leafN` is pending a few times before it answers, earlier-listed
				// leaves tend to take longer
				let n: usize = key.trim_start_matches("leaf").parse().unwrap_or(0);
				for _ in 0..[3usize, 0, 2, 1, 0, 4][n % 6] {
					tokio::task::yield_now().await;
				}
				map.lock().unwrap().remove(&key).ok_or_else(|| anyhow::anyhow!("harness: no prepared reader for {filename}"))
			})
		}),
	)
}

pub fn build_pipeline(root: &Node) -> Result<BuiltPipeline, Fail> {
	let model = root.materialise();
	let mut guards = vec![];
	let mut readers = vec![];
	for (leaf, set) in root.leaves().iter().zip(model.sets()) {
		readers.push(leaf.open(set, &mut guards)?);
	}
	let text = root.render();
	let factory = factory_with(readers, std::path::Path::new(""));
	let op = match guard(|| util::block_on(factory.operation_from_vpl(&text))) {
		Ok(Ok(op)) => op,
		Ok(Err(e)) => return Err(Fail::new("pipeline:build-error", format!("building {text:?} failed: {e:#}"))),
		Err(p) => return Err(Fail::from_panic(&format!("building {text:?}"), &p)),
	};
	Ok(BuiltPipeline { op, text, model, guards })
}

// ---------------------------------------------------------------------------------------
// a uniform view on readers and operations
// ---------------------------------------------------------------------------------------

pub enum Source {
	Reader(Box<dyn TilesReaderTrait>),
	Op(Box<dyn OperationTrait>),
}

impl Source {
	pub fn parameters(&self) -> &versatiles_core::types::TilesReaderParameters {
		match self {
			Source::Reader(r) => r.get_parameters(),
			Source::Op(o) => o.get_parameters(),
		}
	}
	pub fn lookup(&self, c: &Coord) -> Result<Result<Option<Vec<u8>>, String>, crate::engine::PanicInfo> {
		let coord = c.vt();
		guard(|| {
			util::block_on(async {
				let r = match self {
					Source::Reader(r) => r.get_tile_data(&coord).await,
					Source::Op(o) => o.get_tile_data(&coord).await,
				};
				match r {
					Ok(Some(b)) => Ok(Some(b.into_vec())),
					Ok(None) => Ok(None),
					Err(e) => Err(format!("{e:#}")),
				}
			})
		})
	}
	pub fn stream(&self, bbox: TileBBox) -> Result<Vec<(Coord, Vec<u8>)>, crate::engine::PanicInfo> {
		guard(|| {
			util::block_on(async {
				let s = match self {
					Source::Reader(r) => r.get_bbox_tile_stream(bbox).await,
					Source::Op(o) => o.get_tile_stream(bbox).await,
				};
				s.collect().await.into_iter().map(|(c, b)| (Coord::from_vt(&c), b.into_vec())).collect()
			})
		})
	}
	/// opens the stream over `bbox`, takes at most `take` tiles and drops it unfinished (a
	/// consumer that stops reading early); returns how many tiles it got
	pub fn stream_abandon(&self, bbox: TileBBox, take: usize) -> Result<usize, crate::engine::PanicInfo> {
		guard(|| {
			util::block_on(async {
				let mut s = match self {
					Source::Reader(r) => r.get_bbox_tile_stream(bbox).await,
					Source::Op(o) => o.get_tile_stream(bbox).await,
				};
				let mut n = 0;
				while n < take {
					if s.next().await.is_none() {
						break;
					}
					n += 1;
				}
				drop(s);
				n
			})
		})
	}
	/// opens the stream over `bbox`, polls it at most `polls` times - whether or not a tile is
	/// ready - and drops it: a consumer that goes away while the stream is still assembling its
	/// next tiles; returns (tiles received, polls that found nothing ready)
	pub fn stream_abandon_polls(&self, bbox: TileBBox, polls: usize) -> Result<(usize, usize), crate::engine::PanicInfo> {
		guard(|| {
			util::block_on(async {
				let mut s = match self {
					Source::Reader(r) => r.get_bbox_tile_stream(bbox).await,
					Source::Op(o) => o.get_tile_stream(bbox).await,
				};
				let (mut got, mut pending) = (0, 0);
				for _ in 0..polls {
					let next = s.next();
					futures::pin_mut!(next);
					match futures::poll!(next) {
						std::task::Poll::Ready(Some(_)) => got += 1,
						std::task::Poll::Ready(None) => break,
						std::task::Poll::Pending => pending += 1,
					}
				}
				drop(s);
				(got, pending)
			})
		})
	}
	/// `stream` with recognition of a stream that can never finish (inner `Err`), see
	/// `util::block_on_detecting_deadlock`
	#[allow(clippy::type_complexity)]
	pub fn stream_detecting_deadlock(&self, bbox: TileBBox) -> Result<Result<Vec<(Coord, Vec<u8>)>, String>, crate::engine::PanicInfo> {
		guard(|| {
			util::block_on_detecting_deadlock(async {
				let s = match self {
					Source::Reader(r) => r.get_bbox_tile_stream(bbox).await,
					Source::Op(o) => o.get_tile_stream(bbox).await,
				};
				s.collect().await.into_iter().map(|(c, b)| (Coord::from_vt(&c), b.into_vec())).collect()
			})
		})
	}
	pub fn coverage(&self) -> BTreeMap<u8, (u32, u32, u32, u32)> {
		crate::model::pyramid_boxes(&self.parameters().bbox_pyramid)
	}
	pub fn comp(&self) -> Comp {
		Comp::from_vt(self.parameters().tile_compression)
	}
	pub fn format(&self) -> Fmt {
		Fmt::from_vt(self.parameters().tile_format)
	}
}

// ---------------------------------------------------------------------------------------
// bounding boxes positioned relative to a coverage
// ---------------------------------------------------------------------------------------

#[derive(Clone, Debug, Serialize, Deserialize, PartialEq, Eq)]
pub enum BoxKind {
	Inside,
	Overlap,
	Outside,
	Containing,
	Row,
	Col,
	Blocks,
	Whole,
	EmptyNew,
	EmptySet,
	Random,
}

#[derive(Clone, Debug, Serialize, Deserialize, PartialEq, Eq)]
pub struct BoxSpec {
	pub kind: BoxKind,
	/// selects the level among the covered ones
	pub zsel: u16,
	/// use a neighbouring level that has no data instead
	pub off_level: bool,
	pub r: [u16; 4],
}

pub fn box_kind() -> impl proptest::strategy::Strategy<Value = BoxKind> {
	use proptest::prelude::*;
	prop_oneof![
		3 => Just(BoxKind::Inside),
		5 => Just(BoxKind::Overlap),
		2 => Just(BoxKind::Outside),
		3 => Just(BoxKind::Containing),
		2 => Just(BoxKind::Row),
		2 => Just(BoxKind::Col),
		3 => Just(BoxKind::Blocks),
		2 => Just(BoxKind::Whole),
		1 => Just(BoxKind::EmptyNew),
		1 => Just(BoxKind::EmptySet),
		2 => Just(BoxKind::Random),
	]
}

pub fn box_spec() -> impl proptest::strategy::Strategy<Value = BoxSpec> {
	use proptest::prelude::*;
	(box_kind(), any::<u16>(), proptest::bool::weighted(0.12), any::<[u16; 4]>()).prop_map(|(kind, zsel, off_level, r)| BoxSpec { kind, zsel, off_level, r })
}

/// Turn a spec into a concrete box, given the coverage (per-level boxes) of the source.
/// `max_side` bounds width and height.
pub fn resolve_box(spec: &BoxSpec, cov: &BTreeMap<u8, (u32, u32, u32, u32)>, max_side: u32) -> TileBBox {
	let levels: Vec<u8> = cov.keys().copied().collect();
	let (z, cb) = if levels.is_empty() {
		((spec.zsel % 8) as u8, None)
	} else {
		let z0 = levels[util::pick(spec.zsel as u32, levels.len())];
		if spec.off_level {
			let cand: Vec<u8> = [z0.wrapping_sub(1), z0 + 1, z0 + 2].into_iter().filter(|z| *z <= 31 && !cov.contains_key(z)).collect();
			if cand.is_empty() {
				(z0, cov.get(&z0).copied())
			} else {
				// project the neighbouring level's box onto this level, so that the box is "where data would be"
				let z = cand[spec.r[0] as usize % cand.len()];
				let b = cov[&z0];
				let scale = |v: u32| -> u32 {
					if z > z0 {
						((v as u64) << (z - z0)).min(Coord::size(z) - 1) as u32
					} else {
						v >> (z0 - z)
					}
				};
				(z, Some((scale(b.0), scale(b.1), scale(b.2), scale(b.3))))
			}
		} else {
			(z0, cov.get(&z0).copied())
		}
	};
	let max = (Coord::size(z) - 1) as u32;
	let cb = cb.unwrap_or((0, 0, max.min(3), max.min(3)));
	let r = spec.r.map(|v| v as u32);
	let side = |v: u32| 1 + v % max_side.max(1);
	let clamp_box = |x0: u32, y0: u32, x1: u32, y1: u32| -> TileBBox {
		let x0 = x0.min(max);
		let y0 = y0.min(max);
		let x1 = x1.clamp(x0, max).min(x0.saturating_add(max_side - 1));
		let y1 = y1.clamp(y0, max).min(y0.saturating_add(max_side - 1));
		TileBBox::new(z, x0, y0, x1, y1).expect("harness box")
	};
	let (w, h) = (cb.2 - cb.0 + 1, cb.3 - cb.1 + 1);
	match spec.kind {
		BoxKind::EmptyNew => TileBBox::new_empty(z).unwrap(),
		BoxKind::EmptySet => {
			let mut b = TileBBox::new(z, cb.0, cb.1, cb.0, cb.1).unwrap();
			b.set_empty();
			b
		}
		BoxKind::Whole => clamp_box(cb.0, cb.1, cb.2, cb.3),
		BoxKind::Inside => {
			let x0 = cb.0 + r[0] % w;
			let y0 = cb.1 + r[1] % h;
			clamp_box(x0, y0, x0 + r[2] % (cb.2 - x0 + 1), y0 + r[3] % (cb.3 - y0 + 1))
		}
		BoxKind::Overlap => {
			// start somewhere inside (or just before), end beyond an edge
			let before_x = r[0] % 3;
			let before_y = r[1] % 3;
			let x0 = (cb.0 + (r[0] / 3) % w).saturating_sub(if r[2] % 2 == 0 { before_x + w } else { 0 });
			let y0 = (cb.1 + (r[1] / 3) % h).saturating_sub(if r[3] % 2 == 0 { before_y + h } else { 0 });
			clamp_box(x0, y0, x0.saturating_add(side(r[2]) + w / 2), y0.saturating_add(side(r[3]) + h / 2))
		}
		BoxKind::Outside => {
			// to the right / below if there is room, otherwise to the left / above
			let (x0, x1) = if cb.2 < max { (cb.2 + 1 + r[0] % 3, cb.2 + 1 + r[0] % 3 + side(r[2])) } else if cb.0 > 0 { (cb.0.saturating_sub(1 + side(r[2])), cb.0 - 1) } else { (cb.0, cb.2) };
			let (y0, y1) = if x0 > cb.2 || x1 < cb.0 {
				(cb.1.saturating_sub(r[1] % 3), cb.1 + side(r[3]))
			} else if cb.3 < max {
				(cb.3 + 1 + r[1] % 3, cb.3 + 1 + r[1] % 3 + side(r[3]))
			} else if cb.1 > 0 {
				(cb.1.saturating_sub(1 + side(r[3])), cb.1 - 1)
			} else {
				(cb.1, cb.3)
			};
			clamp_box(x0, y0, x1.min(max), y1.min(max))
		}
		BoxKind::Containing => clamp_box(cb.0.saturating_sub(r[0] % 4), cb.1.saturating_sub(r[1] % 4), cb.2.saturating_add(r[2] % 4), cb.3.saturating_add(r[3] % 4)),
		BoxKind::Row => {
			let y = cb.1 + r[1] % h;
			clamp_box(cb.0.saturating_sub(r[0] % 3), y, cb.2.saturating_add(r[2] % 3), y)
		}
		BoxKind::Col => {
			let x = cb.0 + r[0] % w;
			clamp_box(x, cb.1.saturating_sub(r[1] % 3), x, cb.3.saturating_add(r[3] % 3))
		}
		BoxKind::Blocks => {
			// whole 256-blocks around the coverage's first block, plus/minus one tile
			let bx = (cb.0 + r[0] % w) >> 8;
			let by = (cb.1 + r[1] % h) >> 8;
			let x0 = (bx * 256).saturating_sub(r[2] % 2);
			let y0 = (by * 256).saturating_sub(r[3] % 2);
			let x1 = (bx * 256 + 255).saturating_add((r[2] / 2) % 2);
			let y1 = (by * 256 + 255).saturating_add((r[3] / 2) % 2);
			let x1 = x1.min(max);
			let y1 = y1.min(max);
			// keep it affordable: shrink towards the coverage if the side bound is smaller than a block
			if max_side < 258 {
				let cx = (cb.0 + r[0] % w).clamp(x0, x1);
				let cy = (cb.1 + r[1] % h).clamp(y0, y1);
				// a window that touches the nearest block edge
				let (wx0, wx1) = if cx - x0 <= x1 - cx { (x0, x0 + max_side - 1) } else { (x1.saturating_sub(max_side - 1), x1) };
				let (wy0, wy1) = if cy - y0 <= y1 - cy { (y0, y0 + max_side - 1) } else { (y1.saturating_sub(max_side - 1), y1) };
				clamp_box(wx0, wy0, wx1.min(x1), wy1.min(y1))
			} else {
				clamp_box(x0, y0, x1, y1)
			}
		}
		BoxKind::Random => {
			let x0 = (((r[0] as u64) << 16 | r[2] as u64) % (max as u64 + 1)) as u32;
			let y0 = (((r[1] as u64) << 16 | r[3] as u64) % (max as u64 + 1)) as u32;
			clamp_box(x0, y0, x0.saturating_add(side(r[2])), y0.saturating_add(side(r[3])))
		}
	}
}

/// relation of a (non-empty) box to a coverage box, for labels
pub fn relation(b: &TileBBox, cov: Option<&(u32, u32, u32, u32)>) -> &'static str {
	if b.is_empty() {
		return if cov.is_some() { "empty-box@level-with-data" } else { "empty-box@level-without-data" };
	}
	let Some(c) = cov else { return "level-without-data" };
	let inter = b.x_min <= c.2 && b.x_max >= c.0 && b.y_min <= c.3 && b.y_max >= c.1;
	if !inter {
		return "outside";
	}
	let inside = b.x_min >= c.0 && b.x_max <= c.2 && b.y_min >= c.1 && b.y_max <= c.3;
	if inside {
		return "inside";
	}
	let contains = b.x_min <= c.0 && b.x_max >= c.2 && b.y_min <= c.1 && b.y_max >= c.3;
	if contains {
		"contains"
	} else {
		"partial-overlap"
	}
}

// ---------------------------------------------------------------------------------------
// strategies for sources
// ---------------------------------------------------------------------------------------

use crate::gen::{self, GenCfg};
use crate::model::{Advert, LevelSpec, Pay, Shape};
use proptest::prelude::*;

/// High-volume checks in which the container format of a leaf is incidental keep only every
/// n-th MBTiles leaf (the others become in-memory sources): every MBTiles reader of the code
/// under test leaves pool threads behind for up to 30 s, which bounds the rate of such cases
/// (see `util::throttle_threads`). Set once at the start of a check's `main`.
pub static MBTILES_THINNING: std::sync::atomic::AtomicU32 = std::sync::atomic::AtomicU32::new(1);

fn mbtiles_thinned(t: Target, seed: u32) -> bool {
	let n = MBTILES_THINNING.load(std::sync::atomic::Ordering::Relaxed);
	t == Target::Mbtiles && n > 1 && (seed >> 3) % n != 0
}

pub fn leaf_kind(pairs_ok: impl Fn(Target) -> bool + 'static) -> impl Strategy<Value = LeafKind> {
	(0usize..12, any::<u32>(), any::<bool>()).prop_map(move |(k, seed, ds)| {
		let t = Target::ALL[k % 5];
		if k >= 10 || !pairs_ok(t) || mbtiles_thinned(t, seed) {
			LeafKind::Mem(ds)
		} else if k < 5 {
			LeafKind::Repo(t)
		} else {
			LeafKind::Enc(t, seed)
		}
	})
}

/// a leaf whose (format, compression) pair every container format can hold
pub fn leaf(max_zoom: u8, pbf: bool, really_compressed: bool, max_side: u32) -> impl Strategy<Value = Leaf> {
	let pairs = if pbf { vec![(Fmt::Pbf, Comp::Gzip)] } else { vec![(Fmt::Png, Comp::None), (Fmt::Jpg, Comp::None), (Fmt::Webp, Comp::None), (Fmt::Pbf, Comp::Gzip)] };
	let mut cfg = GenCfg::small(pairs);
	cfg.max_zoom = max_zoom;
	cfg.max_side = max_side;
	cfg.heavy_payloads = false;
	cfg.really_compressed = really_compressed;
	cfg.adverts = vec![Advert::Tight, Advert::Tight, Advert::Loose(1), Advert::Loose(2)];
	(gen::set_spec(cfg), leaf_kind(|_| true), prop::bool::weighted(0.4)).prop_map(move |(mut spec, kind, foreign)| {
		if pbf {
			spec.pay = if foreign { Pay::MvtForeign } else { Pay::Mvt };
			spec.really_compressed = true;
		}
		Leaf { spec, kind }
	})
}

/// a versatiles leaf whose tiles are 3-5 KB each, in one rectangle of 10..=16 tiles per side: a
/// box selecting few columns leaves more than 32 KiB of unselected tile data between
/// consecutive selected tiles (the reader's chunking of byte ranges)
pub fn leaf_chunky(max_zoom: u8) -> impl Strategy<Value = Leaf> {
	(gen::level(max_zoom, 16), any::<u32>(), any::<bool>(), any::<u16>(), prop_oneof![3 => Just(Shape::Dense), 1 => (150u8..=230).prop_map(Shape::Sparse)]).prop_map(|(mut l, seed, enc, tag, shape)| {
		let size = Coord::size(l.z).min(1 << 20) as u32;
		l.w = l.w.max(10).min(size);
		l.h = l.h.max(10).min(size);
		let full = Coord::size(l.z);
		l.x0 = (l.x0 as u64).min(full - l.w as u64) as u32;
		l.y0 = (l.y0 as u64).min(full - l.h as u64) as u32;
		l.shape = shape;
		let spec = SetSpec { tag: format!("k{tag}"), levels: vec![l], pay: Pay::Random { lo: 3000, hi: 5000 }, format: Fmt::Png, comp: Comp::None, really_compressed: false, advert: Advert::Tight, meta: None };
		Leaf { spec, kind: if enc { LeafKind::Enc(Target::Versatiles, seed) } else { LeafKind::Repo(Target::Versatiles) } }
	})
}

/// leaves of every pair for versatiles/tar/dir/mem
pub fn leaf_any_pair(max_zoom: u8, max_side: u32) -> impl Strategy<Value = Leaf> {
	let mut cfg = GenCfg::small(gen::all_pairs());
	cfg.max_zoom = max_zoom;
	cfg.max_side = max_side;
	cfg.heavy_payloads = false;
	(gen::set_spec(cfg), 0usize..8, any::<u32>(), any::<bool>()).prop_map(|(spec, k, seed, ds)| {
		let kind = match k {
			0 => LeafKind::Repo(Target::Versatiles),
			1 => LeafKind::Enc(Target::Versatiles, seed),
			2 => LeafKind::Repo(Target::Tar),
			3 => LeafKind::Enc(Target::Tar, seed),
			4 => LeafKind::Repo(Target::Dir),
			5 => LeafKind::Enc(Target::Dir, seed),
			_ => LeafKind::Mem(ds),
		};
		Leaf { spec, kind }
	})
}

pub fn geo_bbox() -> impl Strategy<Value = [f64; 4]> {
	prop_oneof![
		3 => (-180.0f64..180.0, -85.0f64..85.0, 0.0f64..200.0, 0.0f64..100.0).prop_map(|(w, s, dw, dh)| [w, s, (w + dw).min(180.0), (s + dh).min(90.0)]),
		1 => Just([-180.0, -90.0, 180.0, 90.0]),
		1 => Just([0.0, 0.0, 180.0, 85.0]),
		1 => (-179.0f64..179.0, -80.0f64..80.0).prop_map(|(x, y)| [x, y, x, y]),
	]
}

pub fn node(max_zoom: u8, depth: u32) -> BoxedStrategy<Node> {
	// all leaves of one pipeline are gzip'd vector tiles, so that every operation applies
	let leafs = prop_oneof![8 => leaf(max_zoom, true, true, 20).prop_map(Node::Leaf), 1 => Just(Node::Debug)];
	leafs
		.prop_recursive(depth, 12, 3, move |inner| {
			prop_oneof![
				3 => proptest::collection::vec(inner.clone(), 2..4).prop_map(Node::Overlay),
				2 => proptest::collection::vec(inner.clone(), 2..4).prop_map(Node::Merge),
				// sources placed around a common anchor, so that coverages overlap partially
				3 => overlay_leaves(Some(Fmt::Pbf)).prop_map(|v| Node::Overlay(v.into_iter().map(Node::Leaf).collect())),
				2 => overlay_leaves(Some(Fmt::Pbf)).prop_map(|v| Node::Merge(v.into_iter().map(Node::Leaf).collect())),
				2 => (inner.clone(), proptest::option::of(0u8..12), proptest::option::of(0u8..14)).prop_map(|(src, min, max)| Node::FilterZoom { src: Box::new(src), min, max }),
				2 => (inner, geo_bbox()).prop_map(|(src, bbox)| Node::FilterBbox { src: Box::new(src), bbox }),
			]
		})
		.boxed()
}


impl Source {
	pub fn tilejson_string(&self) -> String {
		match self {
			Source::Reader(r) => r.get_tilejson().as_string(),
			Source::Op(o) => o.get_tilejson().as_string(),
		}
	}
}

/// 2-4 leaves with partially overlapping rectangles around a common anchor
pub fn overlay_leaves(force_format: Option<Fmt>) -> impl Strategy<Value = Vec<Leaf>> {
	let anchor = (crate::gen::zoom(31), any::<u32>(), any::<u32>(), 0usize..3);
	(anchor, proptest::collection::vec((0u32..7, 0u32..7, 1u32..12, 1u32..12, -1i8..=1, crate::gen::shape(), any::<u32>(), 0usize..3, 0usize..12, any::<u32>(), any::<bool>(), 0usize..3), 2..5)).prop_map(
		move |((z, ax, ay, fsel), parts)| {
			let format = force_format.unwrap_or([Fmt::Png, Fmt::Pbf, Fmt::Json][fsel]);
			let mut leaves = vec![];
			for (i, (dx, dy, w, h, dz, shape, seed, csel, ksel, lseed, ds, asel)) in parts.into_iter().enumerate() {
				let z2 = (z as i16 + dz as i16).clamp(0, 31) as u8;
				let size = Coord::size(z2);
				let scale = |v: u32| -> u64 {
					if z2 > z {
						(v as u64) << (z2 - z)
					} else {
						(v as u64) >> (z - z2)
					}
				};
				let ax = scale(ax % Coord::size(z) as u32) % size;
				let ay = scale(ay % Coord::size(z) as u32) % size;
				let x0 = (ax + dx as u64).min(size - 1) as u32;
				let y0 = (ay + dy as u64).min(size - 1) as u32;
				let mut levels = vec![LevelSpec { z: z2, x0, y0, w, h, shape: shape.clone(), seed }];
				// some sources get a second level: different zoom ranges
				if seed % 3 == 0 && z2 < 31 {
					levels.push(LevelSpec { z: z2 + 1, x0: x0.saturating_mul(2), y0: y0.saturating_mul(2), w: w.min(6), h: h.min(6), shape: Shape::Dense, seed });
				}
				let comp = Comp::ALL[csel];
				let kind = {
					let t = Target::ALL[ksel % 5];
					if ksel >= 10 || !t.accepts(format, comp) || mbtiles_thinned(t, lseed) {
						LeafKind::Mem(ds)
					} else if ksel < 5 {
						LeafKind::Repo(t)
					} else {
						LeafKind::Enc(t, lseed)
					}
				};
				let spec = SetSpec {
					tag: format!("src{i}"),
					levels,
					pay: if format != Fmt::Pbf {
						Pay::CoordText
					} else if (lseed >> 7) % 5 < 2 {
						Pay::MvtForeign
					} else {
						Pay::Mvt
					},
					format,
					comp,
					really_compressed: true,
					advert: [Advert::Tight, Advert::Loose(1), Advert::Loose(3)][asel].clone(),
					meta: None,
				};
				leaves.push(Leaf { spec, kind });
			}
			leaves
		},
	)
}


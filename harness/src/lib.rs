//! Harness library for the versatiles-rs property checks (see /verif/DESIGN.md).
pub mod engine;
pub mod util;
pub mod model;
pub mod boxset;
pub mod codec;
pub mod gen;
pub mod containers;
pub mod sources;
pub mod cli;
pub mod server;
pub mod vpltree;
pub mod mvt;
pub mod onecpu;

pub use engine::{guard, Check, Fail, Obs, Tier};

//! Reference models shared by the checks: coordinates, tile sets (spec -> materialised map),
//! an in-memory `TilesReaderTrait` implementation, an independent Web-Mercator reference.

use crate::util::{self, Comp};
use anyhow::Result;
use async_trait::async_trait;
use serde::{Deserialize, Serialize};
use std::collections::BTreeMap;
use std::sync::atomic::{AtomicU64, Ordering};
use std::sync::Arc;
use versatiles_core::tilejson::TileJSON;
use versatiles_core::types::{
	Blob, TileBBox, TileBBoxPyramid, TileCoord3, TileFormat, TileStream, TilesReaderParameters, TilesReaderTrait,
};

// ---------------------------------------------------------------------------------------
// coordinates and formats
// ---------------------------------------------------------------------------------------

#[derive(Clone, Copy, Debug, PartialEq, Eq, PartialOrd, Ord, Hash, Serialize, Deserialize)]
pub struct Coord {
	pub z: u8,
	pub x: u32,
	pub y: u32,
}

impl Coord {
	pub fn new(z: u8, x: u32, y: u32) -> Coord {
		Coord { z, x, y }
	}
	pub fn vt(&self) -> TileCoord3 {
		TileCoord3 { x: self.x, y: self.y, z: self.z }
	}
	pub fn from_vt(c: &TileCoord3) -> Coord {
		Coord { z: c.z, x: c.x, y: c.y }
	}
	pub fn size(z: u8) -> u64 {
		1u64 << z
	}
	pub fn in_range(&self) -> bool {
		self.z <= 31 && (self.x as u64) < Coord::size(self.z) && (self.y as u64) < Coord::size(self.z)
	}
	pub fn flip(&self) -> Coord {
		Coord { z: self.z, x: self.x, y: (Coord::size(self.z) - 1 - self.y as u64) as u32 }
	}
	pub fn swap(&self) -> Coord {
		Coord { z: self.z, x: self.y, y: self.x }
	}
}

impl std::fmt::Display for Coord {
	fn fmt(&self, f: &mut std::fmt::Formatter<'_>) -> std::fmt::Result {
		write!(f, "{}/{}/{}", self.z, self.x, self.y)
	}
}

#[derive(Clone, Copy, Debug, PartialEq, Eq, PartialOrd, Ord, Hash, Serialize, Deserialize)]
pub enum Fmt {
	Avif,
	Bin,
	Geojson,
	Jpg,
	Json,
	Pbf,
	Png,
	Svg,
	Topojson,
	Webp,
}

impl Fmt {
	pub const ALL: [Fmt; 10] = [
		Fmt::Avif,
		Fmt::Bin,
		Fmt::Geojson,
		Fmt::Jpg,
		Fmt::Json,
		Fmt::Pbf,
		Fmt::Png,
		Fmt::Svg,
		Fmt::Topojson,
		Fmt::Webp,
	];
	pub fn to_vt(self) -> TileFormat {
		match self {
			Fmt::Avif => TileFormat::AVIF,
			Fmt::Bin => TileFormat::BIN,
			Fmt::Geojson => TileFormat::GEOJSON,
			Fmt::Jpg => TileFormat::JPG,
			Fmt::Json => TileFormat::JSON,
			Fmt::Pbf => TileFormat::PBF,
			Fmt::Png => TileFormat::PNG,
			Fmt::Svg => TileFormat::SVG,
			Fmt::Topojson => TileFormat::TOPOJSON,
			Fmt::Webp => TileFormat::WEBP,
		}
	}
	pub fn from_vt(f: TileFormat) -> Fmt {
		match f {
			TileFormat::AVIF => Fmt::Avif,
			TileFormat::BIN => Fmt::Bin,
			TileFormat::GEOJSON => Fmt::Geojson,
			TileFormat::JPG => Fmt::Jpg,
			TileFormat::JSON => Fmt::Json,
			TileFormat::PBF => Fmt::Pbf,
			TileFormat::PNG => Fmt::Png,
			TileFormat::SVG => Fmt::Svg,
			TileFormat::TOPOJSON => Fmt::Topojson,
			TileFormat::WEBP => Fmt::Webp,
		}
	}
	/// file extension used by the tar / directory layouts (from the format documentation)
	pub fn ext(self) -> &'static str {
		match self {
			Fmt::Avif => ".avif",
			Fmt::Bin => ".bin",
			Fmt::Geojson => ".geojson",
			Fmt::Jpg => ".jpg",
			Fmt::Json => ".json",
			Fmt::Pbf => ".pbf",
			Fmt::Png => ".png",
			Fmt::Svg => ".svg",
			Fmt::Topojson => ".topojson",
			Fmt::Webp => ".webp",
		}
	}
	pub fn from_ext(e: &str) -> Option<Fmt> {
		Fmt::ALL.iter().copied().find(|f| f.ext() == e).or(match e {
			".jpeg" => Some(Fmt::Jpg),
			_ => None,
		})
	}
	/// versatiles v02 header byte
	pub fn vt_byte(self) -> u8 {
		match self {
			Fmt::Bin => 0x00,
			Fmt::Png => 0x10,
			Fmt::Jpg => 0x11,
			Fmt::Webp => 0x12,
			Fmt::Avif => 0x13,
			Fmt::Svg => 0x14,
			Fmt::Pbf => 0x20,
			Fmt::Geojson => 0x21,
			Fmt::Topojson => 0x22,
			Fmt::Json => 0x23,
		}
	}
	pub fn from_vt_byte(b: u8) -> Option<Fmt> {
		Fmt::ALL.iter().copied().find(|f| f.vt_byte() == b)
	}
	pub fn mime(self) -> &'static str {
		match self {
			Fmt::Avif => "image/avif",
			Fmt::Bin => "application/octet-stream",
			Fmt::Geojson => "application/geo+json",
			Fmt::Jpg => "image/jpeg",
			Fmt::Json => "application/json",
			Fmt::Pbf => "application/x-protobuf",
			Fmt::Png => "image/png",
			Fmt::Svg => "image/svg+xml",
			Fmt::Topojson => "application/topo+json",
			Fmt::Webp => "image/webp",
		}
	}
}

// ---------------------------------------------------------------------------------------
// deterministic pseudo-random helper (pure function of a generated seed, used to expand
// compact specs into tile sets; all *choices* that matter are made by proptest)
// ---------------------------------------------------------------------------------------

#[derive(Clone)]
pub struct Mix(pub u64);
impl Mix {
	pub fn new(seed: u64) -> Mix {
		Mix(seed.wrapping_mul(0x9E3779B97F4A7C15).wrapping_add(0xD1B54A32D192ED03) | 1)
	}
	pub fn next(&mut self) -> u64 {
		// splitmix64
		self.0 = self.0.wrapping_add(0x9E3779B97F4A7C15);
		let mut z = self.0;
		z = (z ^ (z >> 30)).wrapping_mul(0xBF58476D1CE4E5B9);
		z = (z ^ (z >> 27)).wrapping_mul(0x94D049BB133111EB);
		z ^ (z >> 31)
	}
	pub fn below(&mut self, n: u64) -> u64 {
		if n == 0 {
			0
		} else {
			self.next() % n
		}
	}
	pub fn bytes(&mut self, len: usize) -> Vec<u8> {
		let mut v = Vec::with_capacity(len);
		while v.len() < len {
			let x = self.next().to_le_bytes();
			let take = (len - v.len()).min(8);
			v.extend_from_slice(&x[..take]);
		}
		v
	}
}

// ---------------------------------------------------------------------------------------
// tile set specs
// ---------------------------------------------------------------------------------------

#[derive(Clone, Debug, PartialEq, Eq, Serialize, Deserialize)]
pub enum Shape {
	/// every coordinate of the rectangle
	Dense,
	/// each coordinate with probability p/255
	Sparse(u8),
	/// |dx| + |dy| <= r diamond: extreme rows are not in the extreme columns
	Diamond,
	/// only the anti-diagonal
	AntiDiagonal,
	/// extreme rows occur only in columns that are neither min, middle nor max
	OffCentre,
	/// the four corners only
	Corners,
}

#[derive(Clone, Debug, PartialEq, Eq, Serialize, Deserialize)]
pub enum Pay {
	/// unique text derived from the coordinate and the set's tag
	CoordText,
	/// pseudo-random bytes of length lo..=hi derived from the coordinate
	Random { lo: u32, hi: u32 },
	/// every tile one of `variants` payloads of the given length (duplicates)
	Dups { variants: u8, len: u32 },
	/// lengths cycling through 998, 999, 1000, 1001 with only two distinct contents per length
	Threshold,
	/// highly compressible text of the given length
	Compressible { len: u32 },
	/// a few empty payloads among coordinate texts
	SomeEmpty,
	/// a minimal valid Mapbox vector tile: one layer named after the set's tag, one point
	/// feature whose id and string property encode the coordinate
	Mvt,
	/// the same tile as `Mvt`, written the way other vector tile writers do (layer fields in the
	/// order of the specification's example: version first, explicit `extent = 4096`, feature
	/// type before the tags): valid MVT, but not a fixed point of the repository's encoder
	MvtForeign,
}

#[derive(Clone, Debug, PartialEq, Eq, Serialize, Deserialize)]
pub struct LevelSpec {
	pub z: u8,
	pub x0: u32,
	pub y0: u32,
	pub w: u32,
	pub h: u32,
	pub shape: Shape,
	pub seed: u32,
}

#[derive(Clone, Debug, PartialEq, Eq, Serialize, Deserialize)]
pub enum Advert {
	/// exact bounding box per level
	Tight,
	/// bounding box widened by n tiles on every side (clamped)
	Loose(u32),
	/// whole level (only applied to levels <= 8)
	Full,
}

#[derive(Clone, Debug, PartialEq, Eq, Serialize, Deserialize)]
pub struct SetSpec {
	pub tag: String,
	pub levels: Vec<LevelSpec>,
	pub pay: Pay,
	pub format: Fmt,
	/// declared compression
	pub comp: Comp,
	/// whether the stored bytes are really compressed with `comp` (raw payload -> compress)
	pub really_compressed: bool,
	pub advert: Advert,
	pub meta: Option<String>,
}

/// A materialised tile set: what a source holds.
#[derive(Clone, Debug)]
pub struct TileSet {
	pub format: Fmt,
	pub comp: Comp,
	/// stored bytes (as the reader has to return them)
	pub tiles: BTreeMap<Coord, Vec<u8>>,
	/// raw payloads before compression (equal to `tiles` if not really compressed)
	pub raw: BTreeMap<Coord, Vec<u8>>,
	pub pyramid: BTreeMap<u8, (u32, u32, u32, u32)>,
	pub meta: Option<String>,
}

pub fn clamp_coord(z: u8, v: u64) -> u32 {
	v.min(Coord::size(z) - 1) as u32
}

impl LevelSpec {
	pub fn coords(&self) -> Vec<Coord> {
		let z = self.z.min(31);
		let max = Coord::size(z) - 1;
		let x0 = (self.x0 as u64).min(max);
		let y0 = (self.y0 as u64).min(max);
		let w = (self.w.max(1) as u64).min(max - x0 + 1);
		let h = (self.h.max(1) as u64).min(max - y0 + 1);
		let mut out = vec![];
		let mut mix = Mix::new(self.seed as u64 ^ ((z as u64) << 40));
		let at = |dx: u64, dy: u64| Coord::new(z, (x0 + dx) as u32, (y0 + dy) as u32);
		match &self.shape {
			Shape::Dense => {
				for dy in 0..h {
					for dx in 0..w {
						out.push(at(dx, dy));
					}
				}
			}
			Shape::Sparse(p) => {
				for dy in 0..h {
					for dx in 0..w {
						if mix.below(255) < (*p as u64).max(1) {
							out.push(at(dx, dy));
						}
					}
				}
				if out.is_empty() {
					out.push(at(mix.below(w), mix.below(h)));
				}
			}
			Shape::Diamond => {
				let cx = (w - 1) as i64;
				let cy = (h - 1) as i64;
				for dy in 0..h {
					for dx in 0..w {
						// scaled L1 distance from the centre <= 1
						let ax = (2 * dx as i64 - cx).abs() * cy.max(1);
						let ay = (2 * dy as i64 - cy).abs() * cx.max(1);
						if ax + ay <= cx.max(1) * cy.max(1) {
							out.push(at(dx, dy));
						}
					}
				}
				if out.is_empty() {
					out.push(at(w / 2, h / 2));
				}
			}
			Shape::AntiDiagonal => {
				let n = w.min(h);
				for i in 0..n {
					out.push(at(w - 1 - i, i));
				}
			}
			Shape::OffCentre => {
				// rows y0 and y0+h-1 only in a column strictly between min/mid and mid/max
				if w >= 5 && h >= 3 {
					let mid = (w - 1) / 2;
					let c1 = 1.max(mid / 2).min(mid - 1).max(1);
					let c2 = (mid + 1 + (w - 1 - mid) / 2).min(w - 2);
					out.push(at(c1, 0));
					out.push(at(c2, h - 1));
					// extreme and middle columns get rows strictly inside
					for dx in [0, mid, w - 1] {
						out.push(at(dx, 1 + mix.below(h - 2)));
					}
				} else {
					for dy in 0..h {
						for dx in 0..w {
							out.push(at(dx, dy));
						}
					}
				}
			}
			Shape::Corners => {
				out.push(at(0, 0));
				out.push(at(w - 1, 0));
				out.push(at(0, h - 1));
				out.push(at(w - 1, h - 1));
			}
		}
		out.sort();
		out.dedup();
		out
	}
}

impl Pay {
	pub fn bytes(&self, c: &Coord, tag: &str, index: usize) -> Vec<u8> {
		let h = (c.z as u64) << 58 ^ (c.x as u64) << 29 ^ c.y as u64;
		match self {
			Pay::CoordText => format!("tile {tag} {c}").into_bytes(),
			Pay::Random { lo, hi } => {
				let mut m = Mix::new(h ^ 0xABCD);
				let len = *lo as u64 + m.below((*hi as u64).saturating_sub(*lo as u64) + 1);
				let mut v = m.bytes(len as usize);
				// make it unique per coordinate and tag when long enough
				let mark = format!("{tag}{c}|").into_bytes();
				for (i, b) in mark.iter().enumerate() {
					if i < v.len() {
						v[i] = *b;
					}
				}
				v
			}
			Pay::Dups { variants, len } => {
				let mut m = Mix::new(h);
				let k = m.below((*variants).max(1) as u64);
				let mut v = Mix::new(k ^ 0x55AA).bytes(*len as usize);
				if !v.is_empty() {
					v[0] = k as u8;
				}
				v
			}
			Pay::Threshold => {
				let len = 998 + (index % 4);
				let k = (index / 4) % 2;
				let mut v = vec![b'a' + k as u8; len];
				v[0] = b'T';
				v
			}
			Pay::Compressible { len } => {
				let mut v = format!("{tag} {c} ").into_bytes();
				while v.len() < *len as usize {
					v.extend_from_slice(b"lorem ipsum dolor sit amet ");
				}
				v.truncate((*len as usize).max(1));
				v
			}
			Pay::Mvt => mvt_min(tag, c),
			Pay::MvtForeign => mvt_min_layout(tag, c, true),
			Pay::SomeEmpty => {
				if index % 3 == 1 {
					vec![]
				} else {
					format!("tile {tag} {c}").into_bytes()
				}
			}
		}
	}
}

fn pb_varint(v: &mut Vec<u8>, mut x: u64) {
	loop {
		let b = (x & 0x7f) as u8;
		x >>= 7;
		if x == 0 {
			v.push(b);
			return;
		}
		v.push(b | 0x80);
	}
}
fn pb_bytes(v: &mut Vec<u8>, field: u32, data: &[u8]) {
	pb_varint(v, ((field as u64) << 3) | 2);
	pb_varint(v, data.len() as u64);
	v.extend_from_slice(data);
}
fn pb_uint(v: &mut Vec<u8>, field: u32, x: u64) {
	pb_varint(v, (field as u64) << 3);
	pb_varint(v, x);
}

/// feature id used by `mvt_min` for a coordinate
pub fn mvt_feature_id(c: &Coord) -> u64 {
	((c.z as u64) << 56) ^ ((c.x as u64) << 28) ^ c.y as u64
}

/// minimal valid vector tile (MVT 2.1): layer `name`, one point feature, one string property
pub fn mvt_min(name: &str, c: &Coord) -> Vec<u8> {
	mvt_min_layout(name, c, false)
}

/// `foreign`: same content, field order of the specification's example and explicit defaults
pub fn mvt_min_layout(name: &str, c: &Coord, foreign: bool) -> Vec<u8> {
	let mut geom = vec![];
	pb_varint(&mut geom, 9); // MoveTo, count 1
	pb_varint(&mut geom, ((c.x % 2048) as u64) << 1);
	pb_varint(&mut geom, ((c.y % 2048) as u64) << 1);
	let mut feature = vec![];
	pb_uint(&mut feature, 1, mvt_feature_id(c));
	if foreign {
		pb_uint(&mut feature, 3, 1);
		pb_bytes(&mut feature, 2, &[0, 0]);
	} else {
		pb_bytes(&mut feature, 2, &[0, 0]);
		pb_uint(&mut feature, 3, 1);
	}
	pb_bytes(&mut feature, 4, &geom);
	let mut value = vec![];
	pb_bytes(&mut value, 1, format!("{name} {c}").as_bytes());
	let mut layer = vec![];
	if foreign {
		pb_uint(&mut layer, 15, 2);
	}
	pb_bytes(&mut layer, 1, name.as_bytes());
	pb_bytes(&mut layer, 2, &feature);
	pb_bytes(&mut layer, 3, b"k");
	pb_bytes(&mut layer, 4, &value);
	if foreign {
		pb_uint(&mut layer, 5, 4096);
	} else {
		pb_uint(&mut layer, 15, 2);
	}
	let mut tile = vec![];
	pb_bytes(&mut tile, 3, &layer);
	tile
}

impl SetSpec {
	pub fn materialise(&self) -> TileSet {
		let mut raw = BTreeMap::new();
		let mut index = 0usize;
		for l in &self.levels {
			for c in l.coords() {
				raw.entry(c).or_insert_with(|| {
					let b = self.pay.bytes(&c, &self.tag, index);
					index += 1;
					b
				});
			}
		}
		let tiles: BTreeMap<Coord, Vec<u8>> = if self.really_compressed && self.comp != Comp::None {
			raw.iter().map(|(c, b)| (*c, util::compress(b, self.comp))).collect()
		} else {
			raw.clone()
		};
		let mut set = TileSet { format: self.format, comp: self.comp, tiles, raw, pyramid: BTreeMap::new(), meta: self.meta.clone() };
		set.pyramid = set.advertised(&self.advert);
		set
	}
}

impl TileSet {
	/// exact bounding box per level of the tiles with non-empty stored bytes
	pub fn tight_boxes(&self) -> BTreeMap<u8, (u32, u32, u32, u32)> {
		let mut m: BTreeMap<u8, (u32, u32, u32, u32)> = BTreeMap::new();
		for (c, b) in &self.tiles {
			if b.is_empty() {
				continue;
			}
			let e = m.entry(c.z).or_insert((c.x, c.y, c.x, c.y));
			e.0 = e.0.min(c.x);
			e.1 = e.1.min(c.y);
			e.2 = e.2.max(c.x);
			e.3 = e.3.max(c.y);
		}
		m
	}
	/// bounding boxes over all tiles, empty payloads included (what a source would advertise)
	pub fn all_boxes(&self) -> BTreeMap<u8, (u32, u32, u32, u32)> {
		let mut m: BTreeMap<u8, (u32, u32, u32, u32)> = BTreeMap::new();
		for c in self.tiles.keys() {
			let e = m.entry(c.z).or_insert((c.x, c.y, c.x, c.y));
			e.0 = e.0.min(c.x);
			e.1 = e.1.min(c.y);
			e.2 = e.2.max(c.x);
			e.3 = e.3.max(c.y);
		}
		m
	}
	pub fn advertised(&self, advert: &Advert) -> BTreeMap<u8, (u32, u32, u32, u32)> {
		let mut m = self.all_boxes();
		for (z, b) in m.iter_mut() {
			let max = (Coord::size(*z) - 1) as u32;
			match advert {
				Advert::Tight => {}
				Advert::Loose(n) => {
					b.0 = b.0.saturating_sub(*n);
					b.1 = b.1.saturating_sub(*n);
					b.2 = b.2.saturating_add(*n).min(max);
					b.3 = b.3.saturating_add(*n).min(max);
				}
				Advert::Full => {
					if *z <= 8 {
						*b = (0, 0, max, max);
					}
				}
			}
		}
		m
	}
	pub fn vt_pyramid(&self) -> TileBBoxPyramid {
		let mut p = TileBBoxPyramid::new_empty();
		for (z, b) in &self.pyramid {
			p.set_level_bbox(TileBBox::new(*z, b.0, b.1, b.2, b.3).expect("model box"));
		}
		p
	}
	pub fn nonempty(&self) -> impl Iterator<Item = (&Coord, &Vec<u8>)> {
		self.tiles.iter().filter(|(_, b)| !b.is_empty())
	}
	pub fn levels(&self) -> Vec<u8> {
		self.all_boxes().keys().copied().collect()
	}
	/// probe coordinates: all of z <= zmax_all, 8-neighbours of every tile (capped),
	/// block-border neighbours; never includes coordinates out of range
	pub fn probes(&self, zmax_all: u8, cap: usize) -> Vec<Coord> {
		let mut set = std::collections::BTreeSet::new();
		for z in 0..=zmax_all.min(5) {
			let n = Coord::size(z) as u32;
			for y in 0..n {
				for x in 0..n {
					set.insert(Coord::new(z, x, y));
				}
			}
		}
		let mut budget = cap;
		for c in self.tiles.keys() {
			if budget == 0 {
				break;
			}
			budget -= 1;
			let max = (Coord::size(c.z) - 1) as i64;
			for dy in -1i64..=1 {
				for dx in -1i64..=1 {
					let x = c.x as i64 + dx;
					let y = c.y as i64 + dy;
					if x >= 0 && y >= 0 && x <= max && y <= max {
						set.insert(Coord::new(c.z, x as u32, y as u32));
					}
				}
			}
			// same position in the neighbouring 256-blocks
			for d in [-256i64, 256] {
				let x = c.x as i64 + d;
				if x >= 0 && x <= max {
					set.insert(Coord::new(c.z, x as u32, c.y));
				}
				let y = c.y as i64 + d;
				if y >= 0 && y <= max {
					set.insert(Coord::new(c.z, c.x, y as u32));
				}
			}
		}
		// levels without tiles next to levels with tiles
		for z in self.levels() {
			for dz in [-1i16, 1] {
				let zz = z as i16 + dz;
				if (0..=31).contains(&zz) {
					set.insert(Coord::new(zz as u8, 0, 0));
				}
			}
		}
		set.into_iter().collect()
	}
	pub fn distinct_payloads(&self) -> usize {
		let s: std::collections::BTreeSet<&Vec<u8>> = self.tiles.values().collect();
		s.len()
	}
	pub fn crosses_block_border(&self) -> bool {
		self.all_boxes().values().any(|b| (b.0 >> 8) != (b.2 >> 8) || (b.1 >> 8) != (b.3 >> 8))
	}
	pub fn has_zoom_gap(&self) -> bool {
		let l = self.levels();
		l.windows(2).any(|w| w[1] > w[0] + 1)
	}
	pub fn is_sparse(&self) -> bool {
		let per: BTreeMap<u8, u64> = self.tiles.keys().fold(BTreeMap::new(), |mut m, c| {
			*m.entry(c.z).or_insert(0) += 1;
			m
		});
		self.all_boxes().iter().any(|(z, b)| {
			let area = (b.2 - b.0 + 1) as u64 * (b.3 - b.1 + 1) as u64;
			per[z] * 2 < area
		})
	}
	pub fn has_small_duplicates(&self) -> bool {
		let mut seen = std::collections::BTreeSet::new();
		for b in self.tiles.values() {
			if b.len() < 1000 && !seen.insert(b) {
				return true;
			}
		}
		false
	}
}

// ---------------------------------------------------------------------------------------
// MemReader: in-memory TilesReaderTrait over a TileSet
// ---------------------------------------------------------------------------------------

#[derive(Debug)]
pub struct MemReader {
	pub name: String,
	pub parameters: TilesReaderParameters,
	pub tilejson: TileJSON,
	pub tiles: Arc<BTreeMap<Coord, Vec<u8>>>,
	/// use the trait's default stream (lookup loop) instead of the range scan
	pub default_stream: bool,
	pub lookups: Arc<AtomicU64>,
	pub streams: Arc<AtomicU64>,
	/// every lookup and every stream request is pending this many times before it answers (a
	/// source that is slower than its neighbours, e.g. a remote one)
	pub yields: u8,
}

impl MemReader {
	pub fn new(set: &TileSet, name: &str) -> MemReader {
		let tilejson = match &set.meta {
			Some(text) => TileJSON::try_from(text.as_str()).unwrap_or_default(),
			None => TileJSON::default(),
		};
		MemReader {
			name: name.to_string(),
			parameters: TilesReaderParameters::new(set.format.to_vt(), set.comp.to_vt(), set.vt_pyramid()),
			tilejson,
			tiles: Arc::new(set.tiles.clone()),
			default_stream: false,
			lookups: Arc::new(AtomicU64::new(0)),
			streams: Arc::new(AtomicU64::new(0)),
			yields: 0,
		}
	}
	pub fn with_yields(mut self, n: u8) -> MemReader {
		self.yields = n;
		self
	}
	pub fn with_default_stream(mut self) -> MemReader {
		self.default_stream = true;
		self
	}
	pub fn boxed_reader(self) -> Box<dyn TilesReaderTrait> {
		Box::new(self)
	}
}

#[async_trait]
impl TilesReaderTrait for MemReader {
	fn get_source_name(&self) -> &str {
		&self.name
	}
	fn get_container_name(&self) -> &str {
		"memory"
	}
	fn get_parameters(&self) -> &TilesReaderParameters {
		&self.parameters
	}
	fn override_compression(&mut self, tile_compression: versatiles_core::types::TileCompression) {
		self.parameters.tile_compression = tile_compression;
	}
	fn get_tilejson(&self) -> &TileJSON {
		&self.tilejson
	}
	async fn get_tile_data(&self, coord: &TileCoord3) -> Result<Option<Blob>> {
		// (every fourth lookup only: checks perform millions of them)
		if self.lookups.fetch_add(1, Ordering::Relaxed) % 4 == 0 {
			for _ in 0..self.yields {
				tokio::task::yield_now().await;
			}
		}
		Ok(self.tiles.get(&Coord::from_vt(coord)).map(|b| Blob::from(b.clone())))
	}
	async fn get_bbox_tile_stream(&self, bbox: TileBBox) -> TileStream {
		self.streams.fetch_add(1, Ordering::Relaxed);
		for _ in 0..self.yields {
			tokio::task::yield_now().await;
		}
		if self.default_stream {
			// the trait's default implementation, spelled out (default methods cannot be called
			// once overridden)
			let coords: Vec<TileCoord3> = bbox.iter_coords().collect();
			let tiles = self.tiles.clone();
			return TileStream::from_coord_vec_async(coords, move |coord| {
				let tiles = tiles.clone();
				async move { tiles.get(&Coord::from_vt(&coord)).map(|b| (coord, Blob::from(b.clone()))) }
			});
		}
		if bbox.is_empty() {
			return TileStream::new_empty();
		}
		let z = bbox.level;
		let area = bbox.count_tiles();
		let mut out: Vec<(TileCoord3, Blob)> = vec![];
		if area <= 4 * self.tiles.len() as u64 + 64 {
			for y in bbox.y_min..=bbox.y_max {
				for x in bbox.x_min..=bbox.x_max {
					if let Some(b) = self.tiles.get(&Coord::new(z, x, y)) {
						out.push((TileCoord3 { x, y, z }, Blob::from(b.clone())));
					}
				}
			}
		} else {
			// wide box over few tiles: scan the level in the map instead
			let lo = Coord::new(z, 0, 0);
			let hi = Coord::new(z, u32::MAX, u32::MAX);
			out = self
				.tiles
				.range(lo..=hi)
				.filter(|(c, _)| c.x >= bbox.x_min && c.x <= bbox.x_max && c.y >= bbox.y_min && c.y <= bbox.y_max)
				.map(|(c, b)| (c.vt(), Blob::from(b.clone())))
				.collect();
			out.sort_by_key(|(c, _)| (c.y, c.x));
		}
		TileStream::from_vec(out)
	}
}

// ---------------------------------------------------------------------------------------
// reading a source completely through the trait
// ---------------------------------------------------------------------------------------

/// Result of a lookup through the code under test
pub fn lookup(reader: &dyn TilesReaderTrait, c: &Coord) -> Result<Option<Vec<u8>>, String> {
	let coord = c.vt();
	match crate::util::block_on(reader.get_tile_data(&coord)) {
		Ok(Some(b)) => Ok(Some(b.into_vec())),
		Ok(None) => Ok(None),
		Err(e) => Err(format!("{e:#}")),
	}
}

pub fn stream_box(reader: &dyn TilesReaderTrait, bbox: TileBBox) -> Vec<(Coord, Vec<u8>)> {
	crate::util::block_on(async {
		let s = reader.get_bbox_tile_stream(bbox).await;
		s.collect().await.into_iter().map(|(c, b)| (Coord::from_vt(&c), b.into_vec())).collect()
	})
}

pub fn pyramid_boxes(p: &TileBBoxPyramid) -> BTreeMap<u8, (u32, u32, u32, u32)> {
	let mut m = BTreeMap::new();
	for b in p.iter_levels() {
		m.insert(b.level, (b.x_min, b.y_min, b.x_max, b.y_max));
	}
	m
}

// ---------------------------------------------------------------------------------------
// independent Web-Mercator reference with an error band
// ---------------------------------------------------------------------------------------

pub mod georef {
	use std::f64::consts::PI;

	/// fractional tile column of a longitude at zoom z
	pub fn tx(lon: f64, z: u8) -> f64 {
		(lon + 180.0) / 360.0 * (1u64 << z) as f64
	}
	/// fractional tile row of a latitude at zoom z (unclamped; +-90 give -inf/+inf)
	pub fn ty(lat: f64, z: u8) -> f64 {
		let phi = lat.to_radians();
		let merc = (PI / 4.0 + phi / 2.0).tan().ln();
		(1.0 - merc / PI) / 2.0 * (1u64 << z) as f64
	}
	pub fn lon(x: f64, z: u8) -> f64 {
		x / (1u64 << z) as f64 * 360.0 - 180.0
	}
	pub fn lat(y: f64, z: u8) -> f64 {
		let n = PI * (1.0 - 2.0 * y / (1u64 << z) as f64);
		n.sinh().atan().to_degrees()
	}
	/// tolerance in tile units: the documented 1e-6 guard (doubled) plus float noise
	pub fn delta(z: u8) -> f64 {
		2.5e-6 + 64.0 * f64::EPSILON * (1u64 << z) as f64
	}

	#[derive(Clone, Copy, Debug, PartialEq)]
	pub enum Cls {
		In,
		Out,
		Boundary,
	}

	/// Classify tile index `t` against the geographic interval mapped to tile space [a, b]
	/// (a <= b, fractional tile units). A tile [t, t+1) is definitely inside if it overlaps
	/// the interval by more than delta, definitely outside if it is farther than delta away.
	pub fn classify(t: u32, a: f64, b: f64, z: u8) -> Cls {
		let d = delta(z);
		let max = ((1u64 << z) - 1) as f64;
		// clamp the interval into the level (values beyond the Mercator range clamp to the border)
		let a = a.max(0.0).min(max + 1.0);
		let b = b.max(0.0).min(max + 1.0);
		let lo = t as f64;
		let hi = lo + 1.0;
		if hi <= a - d || lo >= b + d {
			// but a degenerate interval on the very border still needs one tile: handled by caller
			return Cls::Out;
		}
		if hi >= a + d && lo <= b - d {
			return Cls::In;
		}
		Cls::Boundary
	}
}

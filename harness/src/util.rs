//! Small shared helpers: temp directory, tokio runtime per thread, independent (de)compression.

use std::cell::RefCell;
use std::io::{Read, Write};
use std::path::PathBuf;
use std::sync::atomic::{AtomicU64, Ordering};
use std::sync::OnceLock;

static TMP_ROOT: OnceLock<PathBuf> = OnceLock::new();
static TMP_COUNTER: AtomicU64 = AtomicU64::new(0);

/// Per-process scratch directory (removed by `cleanup_tmp`, which `Check::finish` calls).
pub fn tmp_root() -> &'static PathBuf {
	TMP_ROOT.get_or_init(|| {
		let base = std::env::var("VERIF_TMPDIR").ok().map(PathBuf::from).unwrap_or_else(|| {
			if std::path::Path::new("/dev/shm").is_dir() {
				PathBuf::from("/dev/shm")
			} else {
				std::env::temp_dir()
			}
		});
		// scratch directories of processes that no longer exist (killed runs) are removed
		if let Ok(rd) = std::fs::read_dir(&base) {
			for e in rd.flatten() {
				let name = e.file_name().to_string_lossy().to_string();
				if let Some(pid) = name.strip_prefix("vt-").and_then(|p| p.parse::<u32>().ok()) {
					if !std::path::Path::new(&format!("/proc/{pid}")).exists() {
						let _ = std::fs::remove_dir_all(e.path());
					}
				}
			}
		}
		let dir = base.join(format!("vt-{}", std::process::id()));
		std::fs::create_dir_all(&dir).expect("cannot create temp dir");
		dir
	})
}

/// A fresh path (not created) inside the scratch directory.
pub fn tmp_path(suffix: &str) -> PathBuf {
	let n = TMP_COUNTER.fetch_add(1, Ordering::Relaxed);
	tmp_root().join(format!("f{n}{suffix}"))
}

/// A fresh, created directory inside the scratch directory.
pub fn tmp_dir() -> PathBuf {
	let p = tmp_path("");
	std::fs::create_dir_all(&p).expect("cannot create temp dir");
	p
}

pub fn remove_path(p: &std::path::Path) {
	if p.is_dir() {
		let _ = std::fs::remove_dir_all(p);
	} else {
		let _ = std::fs::remove_file(p);
	}
}

/// RAII guard removing a path when dropped.
pub struct TmpGuard(pub PathBuf);
impl Drop for TmpGuard {
	fn drop(&mut self) {
		remove_path(&self.0);
	}
}

pub fn cleanup_tmp() {
	if let Some(p) = TMP_ROOT.get() {
		let _ = std::fs::remove_dir_all(p);
	}
}

/// Every MBTiles reader of the code under test owns an r2d2 connection pool whose helper
/// threads linger for up to 30 s after the reader is dropped. Checks that open thousands of
/// MBTiles files per second would exhaust the process's memory mappings (thread stacks) and
/// abort; this waits until the number of live threads has dropped again.
pub fn throttle_threads() {
	static COUNTER: AtomicU64 = AtomicU64::new(0);
	if COUNTER.fetch_add(1, Ordering::Relaxed) % 16 != 0 {
		return;
	}
	let threads = || -> u64 {
		std::fs::read_to_string("/proc/self/status")
			.ok()
			.and_then(|s| s.lines().find_map(|l| l.strip_prefix("Threads:").and_then(|v| v.trim().parse().ok())))
			.unwrap_or(0)
	};
	if threads() > 4000 {
		for _ in 0..600 {
			std::thread::sleep(std::time::Duration::from_millis(100));
			if threads() < 2500 {
				break;
			}
		}
	}
}

thread_local! {
	static RT: RefCell<Option<tokio::runtime::Runtime>> = const { RefCell::new(None) };
}

/// Run a future on this thread's multi-thread runtime (created on first use, 3 workers).
pub fn block_on<F: std::future::Future>(f: F) -> F::Output {
	block_on_workers(3, f)
}

pub fn block_on_workers<F: std::future::Future>(workers: usize, f: F) -> F::Output {
	RT.with(|rt| {
		let mut g = rt.borrow_mut();
		if g.is_none() {
			*g = Some(
				tokio::runtime::Builder::new_multi_thread()
					.worker_threads(workers)
					.enable_all()
					.build()
					.expect("tokio runtime"),
			);
		}
		// take the runtime out while running, so a panic inside leaves a clean slot
		let runtime = g.take().unwrap();
		drop(g);
		let out = runtime.block_on(f);
		*rt.borrow_mut() = Some(runtime);
		out
	})
}

struct WakeFlag {
	set: std::sync::Mutex<bool>,
	cv: std::sync::Condvar,
}

impl std::task::Wake for WakeFlag {
	fn wake(self: std::sync::Arc<Self>) {
		self.wake_by_ref();
	}
	fn wake_by_ref(self: &std::sync::Arc<Self>) {
		*self.set.lock().unwrap() = true;
		self.cv.notify_all();
	}
}

/// Like `block_on`, but the future is polled by hand with a waker of the harness, and a state
/// from which it can never complete is recognised: the future is pending, its waker has not
/// been invoked, and the runtime has no live task that could invoke it (the library crates
/// under test use neither timers nor blocking pools nor threads of their own: `tokio::spawn`ed
/// tasks are the only source of wake-ups). That state cannot change any more; it is observed
/// 30 times 100 ms apart before it is reported (`Err`), to be safe against racy readings.
pub fn block_on_detecting_deadlock<F: std::future::Future>(f: F) -> Result<F::Output, String> {
	use std::task::{Context, Poll, Waker};
	RT.with(|rt| {
		let mut g = rt.borrow_mut();
		if g.is_none() {
			*g = Some(tokio::runtime::Builder::new_multi_thread().worker_threads(3).enable_all().build().expect("tokio runtime"));
		}
		let runtime = g.take().unwrap();
		drop(g);
		let out = {
			let _enter = runtime.enter();
			let metrics = runtime.metrics();
			let flag = std::sync::Arc::new(WakeFlag { set: std::sync::Mutex::new(false), cv: std::sync::Condvar::new() });
			let waker = Waker::from(std::sync::Arc::clone(&flag));
			let mut cx = Context::from_waker(&waker);
			let mut fut = Box::pin(f);
			let mut quiet = 0u32;
			let mut polls = 0u64;
			loop {
				*flag.set.lock().unwrap() = false;
				polls += 1;
				if let Poll::Ready(v) = fut.as_mut().poll(&mut cx) {
					break Ok(v);
				}
				let mut woken = flag.set.lock().unwrap();
				let stuck = loop {
					if *woken {
						quiet = 0;
						break false;
					}
					let (g2, _) = flag.cv.wait_timeout(woken, std::time::Duration::from_millis(100)).unwrap();
					woken = g2;
					if *woken {
						quiet = 0;
						break false;
					}
					if metrics.num_alive_tasks() == 0 {
						quiet += 1;
					} else {
						quiet = 0;
					}
					if quiet >= 30 {
						break true;
					}
				};
				drop(woken);
				if stuck {
					break Err(format!("the future is pending after {polls} polls, its waker was never invoked again and the runtime has no live task (observed 30 times over 3 s): it can never complete"));
				}
			}
		};
		*rt.borrow_mut() = Some(runtime);
		out
	})
}

/// Shut this thread's runtime down now. Runner threads call this before they exit: a runtime
/// dropped by the thread-local destructor at thread exit may touch tokio's own (already
/// destroyed) thread-locals, which panics below every catch frame and aborts the process.
pub fn shutdown_thread_runtime() {
	RT.with(|rt| {
		if let Some(r) = rt.borrow_mut().take() {
			r.shutdown_background();
		}
	});
}

// ---------------------------------------------------------------------------------------
// independent compression (flate2 / brotli directly, never versatiles code)
// ---------------------------------------------------------------------------------------

#[derive(Clone, Copy, Debug, PartialEq, Eq, PartialOrd, Ord, Hash, serde::Serialize, serde::Deserialize)]
pub enum Comp {
	None,
	Gzip,
	Brotli,
}

impl Comp {
	pub const ALL: [Comp; 3] = [Comp::None, Comp::Gzip, Comp::Brotli];
	pub fn ext(self) -> &'static str {
		match self {
			Comp::None => "",
			Comp::Gzip => ".gz",
			Comp::Brotli => ".br",
		}
	}
	pub fn name(self) -> &'static str {
		match self {
			Comp::None => "none",
			Comp::Gzip => "gzip",
			Comp::Brotli => "brotli",
		}
	}
	pub fn to_vt(self) -> versatiles_core::types::TileCompression {
		use versatiles_core::types::TileCompression as T;
		match self {
			Comp::None => T::Uncompressed,
			Comp::Gzip => T::Gzip,
			Comp::Brotli => T::Brotli,
		}
	}
	pub fn from_vt(c: versatiles_core::types::TileCompression) -> Comp {
		use versatiles_core::types::TileCompression as T;
		match c {
			T::Uncompressed => Comp::None,
			T::Gzip => Comp::Gzip,
			T::Brotli => Comp::Brotli,
		}
	}
}

/// cheap content hash that selects encoder parameters: the harness's compressed fixtures are
/// "files as other tools write them" — all gzip levels (0 = stored blocks) and all standard
/// brotli window sizes (2^10..2^24) and several qualities occur, deterministically per content
fn param_hash(data: &[u8]) -> u64 {
	let mut h = 0xcbf29ce484222325u64 ^ data.len() as u64;
	for b in data.iter().take(64) {
		h = (h ^ *b as u64).wrapping_mul(0x100000001b3);
	}
	h ^ (h >> 29)
}

pub fn gzip(data: &[u8]) -> Vec<u8> {
	let h = param_hash(data);
	let level = [6u32, 6, 9, 1, 0, 6, 3, 9][(h % 8) as usize];
	let member = |part: &[u8]| {
		let mut e = flate2::write::GzEncoder::new(Vec::new(), flate2::Compression::new(level));
		e.write_all(part).unwrap();
		e.finish().unwrap()
	};
	// a gzip file is a series of members (RFC 1952 2.2), its content the concatenation of theirs:
	// one content in 16 is written as two members (`cat a.gz b.gz`), split at a hashed position
	if (h >> 16) % 16 == 0 && data.len() >= 2 {
		let cut = 1 + ((h >> 24) % (data.len() as u64 - 1)) as usize;
		let mut out = member(&data[..cut]);
		out.extend_from_slice(&member(&data[cut..]));
		return out;
	}
	member(data)
}

/// true if `gzip(data)` consists of two members
pub fn gzip_is_multi_member(data: &[u8]) -> bool {
	(param_hash(data) >> 16) % 16 == 0 && data.len() >= 2
}

pub fn gunzip(data: &[u8]) -> Result<Vec<u8>, String> {
	let mut d = flate2::read::MultiGzDecoder::new(data);
	let mut out = Vec::new();
	d.read_to_end(&mut out).map_err(|e| format!("gunzip: {e}"))?;
	Ok(out)
}

pub fn brotli_c(data: &[u8]) -> Vec<u8> {
	let mut out = Vec::new();
	{
		let h = param_hash(data);
		let lgwin = 10 + (h % 15) as u32;
		let quality = [5u32, 1, 9, 11, 5, 3][((h >> 8) % 6) as usize];
		let mut w = brotli::CompressorWriter::new(&mut out, 4096, quality, lgwin);
		w.write_all(data).unwrap();
	}
	out
}

pub fn brotli_d(data: &[u8]) -> Result<Vec<u8>, String> {
	// RFC 7932 reserves the window-size code 0010001; the "large window" extension uses it, the
	// decoder of the brotli crate accepts it, a standard decoder does not
	if data.first().map(|b| b & 0x7f) == Some(0x11) {
		return Err("brotli: the stream uses the large-window extension, which is not RFC 7932".to_string());
	}
	let mut out = Vec::new();
	let mut r = brotli::Decompressor::new(data, 4096);
	r.read_to_end(&mut out).map_err(|e| format!("brotli: {e}"))?;
	Ok(out)
}

pub fn compress(data: &[u8], c: Comp) -> Vec<u8> {
	match c {
		Comp::None => data.to_vec(),
		Comp::Gzip => gzip(data),
		Comp::Brotli => brotli_c(data),
	}
}

pub fn decompress(data: &[u8], c: Comp) -> Result<Vec<u8>, String> {
	match c {
		Comp::None => Ok(data.to_vec()),
		Comp::Gzip => gunzip(data),
		Comp::Brotli => brotli_d(data),
	}
}

pub fn hex_short(b: &[u8]) -> String {
	let mut s = String::new();
	for x in b.iter().take(24) {
		s.push_str(&format!("{x:02x}"));
	}
	if b.len() > 24 {
		s.push_str(&format!("…({} bytes)", b.len()));
	}
	s
}

/// Monotone index mapping for shrinking: maps a u16-ish selector onto 0..len.
pub fn pick(sel: u32, len: usize) -> usize {
	if len == 0 {
		0
	} else {
		((sel as u64 * len as u64) >> 16).min(len as u64 - 1) as usize
	}
}

//! proptest strategies for tile-set specs and related inputs.

use crate::model::{Advert, Coord, Fmt, LevelSpec, Pay, SetSpec, Shape};
use crate::util::Comp;
use proptest::prelude::*;

#[derive(Clone, Debug)]
pub struct GenCfg {
	/// allowed (format, compression) pairs
	pub pairs: Vec<(Fmt, Comp)>,
	pub max_levels: usize,
	/// upper bound of width/height of a level's rectangle
	pub max_side: u32,
	/// allow one level with >= 16385 tiles (tiny payloads)
	pub allow_big: bool,
	pub max_zoom: u8,
	pub really_compressed: bool,
	/// allow payload classes with large tiles
	pub heavy_payloads: bool,
	pub allow_empty_payloads: bool,
	pub adverts: Vec<Advert>,
}

impl GenCfg {
	pub fn small(pairs: Vec<(Fmt, Comp)>) -> GenCfg {
		GenCfg {
			pairs,
			max_levels: 3,
			max_side: 24,
			allow_big: false,
			max_zoom: 31,
			really_compressed: false,
			heavy_payloads: true,
			allow_empty_payloads: false,
			adverts: vec![Advert::Tight, Advert::Tight, Advert::Loose(1), Advert::Loose(3), Advert::Full],
		}
	}
}

pub fn all_pairs() -> Vec<(Fmt, Comp)> {
	let mut v = vec![];
	for f in Fmt::ALL {
		for c in Comp::ALL {
			v.push((f, c));
		}
	}
	v
}

pub fn shape() -> impl Strategy<Value = Shape> {
	prop_oneof![
		4 => Just(Shape::Dense),
		4 => (20u8..=230).prop_map(Shape::Sparse),
		1 => (1u8..=20).prop_map(Shape::Sparse),
		2 => Just(Shape::Diamond),
		1 => Just(Shape::AntiDiagonal),
		3 => Just(Shape::OffCentre),
		1 => Just(Shape::Corners),
	]
}

pub fn pay(heavy: bool, allow_empty: bool) -> BoxedStrategy<Pay> {
	let mut v: Vec<(u32, BoxedStrategy<Pay>)> = vec![
		(6, Just(Pay::CoordText).boxed()),
		(2, (0u32..40, 0u32..200).prop_map(|(lo, d)| Pay::Random { lo: lo + 1, hi: lo + 1 + d }).boxed()),
		(2, (1u8..4, 1u32..1200).prop_map(|(variants, len)| Pay::Dups { variants, len }).boxed()),
		(1, Just(Pay::Threshold).boxed()),
	];
	if heavy {
		v.push((1, (900u32..1100).prop_map(|len| Pay::Dups { variants: 2, len }).boxed()));
		v.push((1, prop_oneof![Just(70_000u32), 2000u32..9000].prop_map(|len| Pay::Compressible { len }).boxed()));
		v.push((1, Just(Pay::Random { lo: 60_000, hi: 72_000 }).boxed()));
	}
	if allow_empty {
		v.push((1, Just(Pay::SomeEmpty).boxed()));
	}
	proptest::strategy::Union::new_weighted(v).boxed()
}

/// zoom level with a bias to the interesting ones
pub fn zoom(max_zoom: u8) -> impl Strategy<Value = u8> {
	let m = max_zoom;
	prop_oneof![
		4 => 0u8..=4,
		4 => 5u8..=12,
		2 => Just(8u8),
		2 => Just(9u8),
		2 => 13u8..=20,
		1 => Just(31u8),
		1 => 21u8..=31,
	]
	.prop_map(move |z| z.min(m))
}

/// a level rectangle positioned at an interesting place of its level
pub fn level(max_zoom: u8, max_side: u32) -> impl Strategy<Value = LevelSpec> {
	(zoom(max_zoom), 0u8..8, 0u8..8, any::<u32>(), any::<u32>(), 1u32..=max_side.max(1), 1u32..=max_side.max(1), shape(), any::<u32>()).prop_map(
		|(z, kx, ky, rx, ry, w, h, shape, seed)| {
			let size = Coord::size(z);
			let place = |kind: u8, r: u32, extent: u32| -> u32 {
				let extent = extent as u64;
				let max_start = size.saturating_sub(extent);
				let v = match kind {
					0 => 0,
					1 => max_start,
					// straddle a 256-block border (needs a level with at least two blocks)
					2 | 3 | 4 if size > 256 => {
						let blocks = size / 256;
						let b = 1 + (r as u64 % (blocks - 1).max(1));
						(b * 256).saturating_sub(1 + (r as u64 >> 16) % extent.max(1))
					}
					// end exactly at a block border / start exactly at one
					5 if size > 256 => ((1 + r as u64 % ((size / 256) - 1).max(1)) * 256).saturating_sub(extent),
					6 if size > 256 => (1 + r as u64 % ((size / 256) - 1).max(1)) * 256,
					_ => r as u64 % (max_start + 1),
				};
				v.min(max_start) as u32
			};
			let w = (w as u64).min(size) as u32;
			let h = (h as u64).min(size) as u32;
			LevelSpec { z, x0: place(kx, rx, w), y0: place(ky, ry, h), w, h, shape, seed }
		},
	)
}

pub fn set_spec(cfg: GenCfg) -> impl Strategy<Value = SetSpec> {
	let pairs = cfg.pairs.clone();
	let adverts = cfg.adverts.clone();
	let levels = proptest::collection::vec(level(cfg.max_zoom, cfg.max_side), 1..=cfg.max_levels.max(1));
	let big = if cfg.allow_big { prop_oneof![9 => Just(false), 1 => Just(true)].boxed() } else { Just(false).boxed() };
	(levels, pay(cfg.heavy_payloads, cfg.allow_empty_payloads), 0..pairs.len(), 0..adverts.len(), big, any::<u16>(), proptest::option::weighted(0.7, meta_doc()))
		.prop_map(move |(mut levels, mut pay, pi, ai, big, tag, meta)| {
			// distinct levels only (a level is one rectangle)
			levels.sort_by_key(|l| l.z);
			levels.dedup_by_key(|l| l.z);
			if big {
				// one dense level with more than 16384 tiles and tiny payloads
				let l = &mut levels[0];
				if l.z < 8 {
					l.z = 8;
				}
				let size = Coord::size(l.z) as u32;
				l.w = 130.min(size);
				l.h = 130.min(size);
				l.x0 = l.x0.min(size - l.w);
				l.y0 = l.y0.min(size - l.h);
				l.shape = Shape::Dense;
				pay = Pay::CoordText;
			}
			// heavy payloads only on small sets
			let area: u64 = levels.iter().map(|l| l.w as u64 * l.h as u64).sum();
			if area > 64 {
				if let Pay::Random { lo, .. } = &pay {
					if *lo >= 1000 {
						pay = Pay::CoordText;
					}
				}
				if let Pay::Compressible { len } = &pay {
					if *len > 10_000 {
						pay = Pay::Compressible { len: 3000 };
					}
				}
			}
			let (format, comp) = pairs[pi];
			SetSpec { tag: format!("s{tag}"), levels, pay, format, comp, really_compressed: cfg.really_compressed, advert: adverts[ai].clone(), meta }
		})
}

/// small TileJSON-like metadata documents (the rich generator lives in the C17 check)
pub fn meta_doc() -> impl Strategy<Value = String> {
	(
		"[a-zA-Z0-9 _-]{0,12}",
		"[a-zA-Z0-9 ,.;:!?äöü€/-]{0,30}",
		proptest::option::of("[a-z]{1,8}"),
		prop_oneof![3 => Just(0u32), 2 => 1u32..],
		// the other strings MBTiles has a row for (version must look like a version number)
		(proptest::option::of("[a-zA-Z ]{1,10}"), proptest::option::of("[A-Za-z0-9 .-]{1,12}"), proptest::option::of(prop_oneof![Just("overlay".to_string()), Just("baselayer".to_string()), "[a-z]{1,8}"]), proptest::option::of((0u8..30, 0u8..30, 0u8..30))),
	)
		.prop_map(|(name, desc, attribution, spell, (author, license, kind, version))| {
		let mut o = serde_json::Map::new();
		o.insert("name".into(), serde_json::Value::String(name));
		o.insert("description".into(), serde_json::Value::String(desc));
		if let Some(a) = attribution {
			o.insert("attribution".into(), serde_json::Value::String(a));
		}
		if let Some(a) = author {
			o.insert("author".into(), serde_json::Value::String(a));
		}
		if let Some(a) = license {
			o.insert("license".into(), serde_json::Value::String(a));
		}
		if let Some(a) = kind {
			o.insert("type".into(), serde_json::Value::String(a));
		}
		if let Some((a, b, c)) = version {
			o.insert("version".into(), serde_json::Value::String(format!("{a}.{b}.{c}")));
		}
		if spell % 4 == 2 {
			// enough entries for a text beyond 4 and 8 KiB once the white space is added
			o.insert("tilejson".into(), serde_json::Value::String("3.0.0".into()));
			o.insert("data".into(), serde_json::Value::Array((0..40).map(|i| serde_json::Value::String(format!("entry {i}"))).collect()));
		}
		respell(&serde_json::Value::Object(o).to_string(), spell)
	})
}

/// The same JSON text as another writer might spell it (RFC 8259 allows all of it): generated
/// runs of white space around the structural characters (style bit 0: up to 12, bit 1: up to 150
/// characters, so that documents grow beyond 4 and 8 KiB), `\uXXXX` escapes with upper- or
/// lower-case hex digits for some characters of the Basic Multilingual Plane, `\/` for `/`.
/// Characters outside the BMP stay literal (the repository's tests pin the rejection of
/// surrogate-pair escapes).
pub fn respell(text: &str, seed: u32) -> String {
	if seed == 0 {
		return text.to_string();
	}
	let mut m = crate::model::Mix::new(seed as u64 ^ 0x5be11);
	let ws_max = match seed % 4 {
		0 => 0,
		1 => 12,
		2 => 150,
		_ => 40,
	};
	let escapes = (seed >> 2) % 3; // 0 none, 1 lower-case hex, 2 upper-case hex
	let mut out = String::with_capacity(text.len() * 2);
	let ws = |out: &mut String, m: &mut crate::model::Mix| {
		if ws_max > 0 {
			let n = m.below(ws_max + 1);
			let c = [" ", "\n", "\t", "\r\n", " "][m.below(5) as usize];
			for _ in 0..n {
				out.push_str(if m.below(4) == 0 { c } else { " " });
			}
		}
	};
	let mut in_str = false;
	let mut it = text.chars().peekable();
	while let Some(c) = it.next() {
		if in_str {
			match c {
				'\\' => {
					out.push(c);
					if let Some(n) = it.next() {
						out.push(n);
						if n == 'u' {
							for _ in 0..4 {
								if let Some(h) = it.next() {
									out.push(h);
								}
							}
						}
					}
				}
				'"' => {
					in_str = false;
					out.push(c);
				}
				'/' if escapes > 0 && m.below(3) == 0 => out.push_str("\\/"),
				c if escapes > 0 && (c as u32) < 0x10000 && (c as u32 >= 0x80 || c.is_ascii_alphabetic()) && m.below(if (c as u32) < 0x80 { 12 } else { 2 }) == 0 => {
					if escapes == 1 {
						out.push_str(&format!("\\u{:04x}", c as u32));
					} else {
						out.push_str(&format!("\\u{:04X}", c as u32));
					}
				}
				c => out.push(c),
			}
		} else {
			match c {
				'"' => {
					in_str = true;
					out.push(c);
				}
				'{' | '[' | ',' | ':' => {
					out.push(c);
					ws(&mut out, &mut m);
				}
				'}' | ']' => {
					ws(&mut out, &mut m);
					out.push(c);
				}
				c if c.is_ascii_whitespace() => {}
				c => out.push(c),
			}
		}
	}
	let mut lead = String::new();
	ws(&mut lead, &mut m);
	ws(&mut out, &mut m);
	lead + &out
}

/// the last tile of level z on the Hilbert curve and the first tiles of level z+1 with equal
/// payloads (one PMTiles run over the level border, when the encoder merges runs)
pub fn border_run(spec: &mut SetSpec, r: u32, w: u32, h: u32) {
	let z = 1 + (r % 11) as u8;
	let size = 1u32 << z;
	spec.levels = vec![
		LevelSpec { z, x0: size - w.min(size).min(3), y0: 0, w: w.min(size).min(3), h: h.min(size).min(2), shape: Shape::Dense, seed: r },
		LevelSpec { z: z + 1, x0: 0, y0: 0, w: 1, h: 1 + (r >> 8) % 2, shape: Shape::Dense, seed: r },
		LevelSpec { z: z + 1, x0: 2 + (r >> 12) % size, y0: 2 + (r >> 20) % size, w: 1 + (r >> 4) % 3, h: 1, shape: Shape::Dense, seed: r },
	];
	spec.pay = Pay::Dups { variants: 1 + ((r >> 6) % 2) as u8, len: 20 + (r >> 16) % 100 };
}


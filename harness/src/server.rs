//! Fixture for the checks that observe the `versatiles serve` process: start / stop of the
//! server built from the repository's working tree, and a raw HTTP/1.1 client over
//! `std::net::TcpStream` (one connection per request, request target sent byte for byte as
//! given, minimal response parser written here).
//!
//! Failure attribution: everything that concerns the harness itself (binary cannot be built,
//! server does not come up, no free port, the server *process* is gone) ends in
//! `engine::die` (exit 2). A request that does not receive a complete response while the
//! process is still alive and still answers `/status` is a *dropped connection* of that
//! request (`Exchange::Dropped`) and is left to the check to judge.

use crate::engine::die;
use std::io::{Read, Write};
use std::net::{SocketAddr, TcpListener, TcpStream};
use std::path::PathBuf;
use std::process::{Child, Command, Stdio};
use std::time::{Duration, Instant};

// ---------------------------------------------------------------------------------------
// response
// ---------------------------------------------------------------------------------------

#[derive(Clone, Debug)]
pub struct Response {
	pub status: u16,
	pub reason: String,
	/// header names lower-cased, values trimmed, in order of appearance
	pub headers: Vec<(String, String)>,
	/// body as framed by Content-Length / chunked / close (not content-decoded)
	pub body: Vec<u8>,
}

impl Response {
	/// first header with that name (case-insensitive)
	pub fn header(&self, name: &str) -> Option<&str> {
		let n = name.to_ascii_lowercase();
		self.headers.iter().find(|(k, _)| *k == n).map(|(_, v)| v.as_str())
	}
	pub fn headers_named(&self, name: &str) -> Vec<&str> {
		let n = name.to_ascii_lowercase();
		self.headers.iter().filter(|(k, _)| *k == n).map(|(_, v)| v.as_str()).collect()
	}
	/// Body decoded according to Content-Encoding (absent / identity, gzip, br, deflate) with the harness's
	/// own flate2 / brotli decoders. `Err` if the encoding is unknown or the body does not decode.
	pub fn decoded_body(&self) -> Result<Vec<u8>, String> {
		let enc = self.headers_named("content-encoding");
		if enc.len() > 1 {
			return Err(format!("{} Content-Encoding headers", enc.len()));
		}
		match enc.first().map(|s| s.trim().to_ascii_lowercase()).as_deref() {
			None | Some("") | Some("identity") => Ok(self.body.clone()),
			Some("gzip") | Some("x-gzip") => crate::util::gunzip(&self.body),
			Some("br") => crate::util::brotli_d(&self.body),
			Some("deflate") => {
				let mut out = vec![];
				flate2::read::ZlibDecoder::new(&self.body[..]).read_to_end(&mut out).map_err(|e| format!("deflate: {e}"))?;
				Ok(out)
			}
			Some(other) => Err(format!("unknown Content-Encoding {other:?}")),
		}
	}
	pub fn summary(&self) -> String {
		format!(
			"{} {} [{}] body {} bytes ({})",
			self.status,
			self.reason,
			self.headers.iter().filter(|(k, _)| k.starts_with("content-")).map(|(k, v)| format!("{k}: {v}")).collect::<Vec<_>>().join("; "),
			self.body.len(),
			crate::util::hex_short(&self.body)
		)
	}
}

#[derive(Clone, Debug, PartialEq, Eq)]
pub enum TransportError {
	/// TCP connect failed
	Connect(String),
	/// connection closed / reset before a complete response was received (bytes received so far)
	Closed { received: usize, detail: String },
	/// no complete response within the read timeout
	Timeout { received: usize },
	/// bytes arrived but are not an HTTP/1.x response
	Malformed(String),
}

impl std::fmt::Display for TransportError {
	fn fmt(&self, f: &mut std::fmt::Formatter<'_>) -> std::fmt::Result {
		match self {
			TransportError::Connect(e) => write!(f, "connect failed: {e}"),
			TransportError::Closed { received, detail } => write!(f, "connection closed after {received} response bytes ({detail})"),
			TransportError::Timeout { received } => write!(f, "no complete response within the timeout ({received} bytes received)"),
			TransportError::Malformed(e) => write!(f, "malformed response: {e}"),
		}
	}
}

pub const READ_TIMEOUT: Duration = Duration::from_secs(5);

/// Send `raw` (a complete request, sent byte for byte) on a fresh connection to 127.0.0.1:port and
/// read one response. The connection is closed afterwards.
pub fn request(port: u16, raw: &[u8]) -> Result<Response, TransportError> {
	request_with_timeout(port, raw, READ_TIMEOUT)
}

pub fn request_with_timeout(port: u16, raw: &[u8], timeout: Duration) -> Result<Response, TransportError> {
	let addr = SocketAddr::from(([127, 0, 0, 1], port));
	let mut stream = TcpStream::connect_timeout(&addr, Duration::from_secs(3)).map_err(|e| TransportError::Connect(e.to_string()))?;
	let _ = stream.set_nodelay(true);
	// Close with a reset instead of FIN: the harness closes first (as soon as the response is
	// complete), and a campaign of millions of requests would otherwise park every client port in
	// TIME_WAIT for a minute and run the machine out of ephemeral ports.
	{
		use std::os::fd::AsRawFd;
		let l = libc::linger { l_onoff: 1, l_linger: 0 };
		unsafe {
			libc::setsockopt(stream.as_raw_fd(), libc::SOL_SOCKET, libc::SO_LINGER, &l as *const _ as *const libc::c_void, std::mem::size_of::<libc::linger>() as libc::socklen_t);
		}
	}
	let _ = stream.set_read_timeout(Some(Duration::from_millis(250)));
	let _ = stream.set_write_timeout(Some(timeout));
	let is_head = raw.starts_with(b"HEAD ");
	if let Err(e) = stream.write_all(raw) {
		// the peer may already have answered (e.g. 400 / 431) and closed: try to read anyway
		if e.kind() != std::io::ErrorKind::BrokenPipe && e.kind() != std::io::ErrorKind::ConnectionReset {
			return Err(TransportError::Closed { received: 0, detail: format!("write: {e}") });
		}
	}
	let deadline = Instant::now() + timeout;
	let mut buf: Vec<u8> = Vec::with_capacity(4096);
	let mut chunk = [0u8; 16384];
	let mut eof = false;
	let mut eof_detail = String::from("EOF");
	loop {
		match parse_response(&buf, eof, is_head) {
			Parse::Done(r) => return Ok(r),
			Parse::Bad(e) => return Err(TransportError::Malformed(e)),
			Parse::NeedMore => {
				if eof {
					return Err(TransportError::Closed { received: buf.len(), detail: eof_detail });
				}
			}
		}
		if Instant::now() >= deadline {
			return Err(TransportError::Timeout { received: buf.len() });
		}
		match stream.read(&mut chunk) {
			Ok(0) => eof = true,
			Ok(n) => buf.extend_from_slice(&chunk[..n]),
			Err(e) if e.kind() == std::io::ErrorKind::WouldBlock || e.kind() == std::io::ErrorKind::TimedOut || e.kind() == std::io::ErrorKind::Interrupted => {}
			Err(e) => {
				eof = true;
				eof_detail = e.to_string();
			}
		}
	}
}

enum Parse {
	Done(Response),
	NeedMore,
	Bad(String),
}

fn find(hay: &[u8], needle: &[u8]) -> Option<usize> {
	hay.windows(needle.len()).position(|w| w == needle)
}

/// Parse one HTTP/1.x response from `buf`. `eof` = the peer has closed (needed for bodies
/// delimited by the end of the connection).
fn parse_response(buf: &[u8], eof: bool, is_head: bool) -> Parse {
	let Some(head_end) = find(buf, b"\r\n\r\n") else {
		if buf.len() > 256 * 1024 {
			return Parse::Bad("header section exceeds 256 KiB".into());
		}
		if buf.len() >= 5 && !buf.starts_with(b"HTTP/") {
			return Parse::Bad(format!("does not start with HTTP/: {}", crate::util::hex_short(buf)));
		}
		return Parse::NeedMore;
	};
	let head = match std::str::from_utf8(&buf[..head_end]) {
		Ok(s) => s,
		Err(_) => return Parse::Bad("header section is not UTF-8".into()),
	};
	let mut lines = head.split("\r\n");
	let status_line = lines.next().unwrap_or("");
	let mut sp = status_line.splitn(3, ' ');
	let version = sp.next().unwrap_or("");
	let code = sp.next().unwrap_or("");
	let reason = sp.next().unwrap_or("").to_string();
	if !(version == "HTTP/1.1" || version == "HTTP/1.0") {
		return Parse::Bad(format!("bad status line {status_line:?}"));
	}
	let status: u16 = match code.parse() {
		Ok(c) if code.len() == 3 => c,
		_ => return Parse::Bad(format!("bad status code in {status_line:?}")),
	};
	let mut headers = vec![];
	for l in lines {
		let Some((k, v)) = l.split_once(':') else {
			return Parse::Bad(format!("bad header line {l:?}"));
		};
		if k.is_empty() || k.contains(' ') {
			return Parse::Bad(format!("bad header name in {l:?}"));
		}
		headers.push((k.to_ascii_lowercase(), v.trim().to_string()));
	}
	let body_start = head_end + 4;
	let rest = &buf[body_start..];
	let get = |n: &str| headers.iter().find(|(k, _)| k == n).map(|(_, v)| v.clone());
	let done = |body: Vec<u8>| Parse::Done(Response { status, reason: reason.clone(), headers: headers.clone(), body });
	if is_head || status / 100 == 1 || status == 204 || status == 304 {
		return done(vec![]);
	}
	if let Some(te) = get("transfer-encoding") {
		if te.to_ascii_lowercase().contains("chunked") {
			return match parse_chunked(rest) {
				Ok(Some(body)) => done(body),
				Ok(None) => Parse::NeedMore,
				Err(e) => Parse::Bad(e),
			};
		}
	}
	if let Some(cl) = get("content-length") {
		let n: usize = match cl.parse() {
			Ok(n) => n,
			Err(_) => return Parse::Bad(format!("bad Content-Length {cl:?}")),
		};
		if rest.len() >= n {
			return done(rest[..n].to_vec());
		}
		return Parse::NeedMore;
	}
	// body delimited by the end of the connection
	if eof {
		done(rest.to_vec())
	} else {
		Parse::NeedMore
	}
}

fn parse_chunked(mut rest: &[u8]) -> Result<Option<Vec<u8>>, String> {
	let mut body = vec![];
	loop {
		let Some(le) = find(rest, b"\r\n") else { return Ok(None) };
		let line = std::str::from_utf8(&rest[..le]).map_err(|_| "chunk size line is not UTF-8".to_string())?;
		let hex = line.split(';').next().unwrap_or("").trim();
		let n = usize::from_str_radix(hex, 16).map_err(|_| format!("bad chunk size {line:?}"))?;
		rest = &rest[le + 2..];
		if n == 0 {
			// trailers until an empty line
			loop {
				let Some(le) = find(rest, b"\r\n") else { return Ok(None) };
				if le == 0 {
					return Ok(Some(body));
				}
				rest = &rest[le + 2..];
			}
		}
		if rest.len() < n + 2 {
			return Ok(None);
		}
		body.extend_from_slice(&rest[..n]);
		if &rest[n..n + 2] != b"\r\n" {
			return Err("chunk not terminated by CRLF".into());
		}
		rest = &rest[n + 2..];
	}
}

/// Build a GET request: the target is copied verbatim; `headers` are (name, value) pairs
/// added after `Host` and before `Connection: close`.
pub fn get_request(target: &str, headers: &[(&str, &str)]) -> Vec<u8> {
	let mut v = Vec::with_capacity(target.len() + 96);
	v.extend_from_slice(b"GET ");
	v.extend_from_slice(target.as_bytes());
	v.extend_from_slice(b" HTTP/1.1\r\nHost: localhost\r\n");
	for (k, val) in headers {
		v.extend_from_slice(k.as_bytes());
		v.extend_from_slice(b": ");
		v.extend_from_slice(val.as_bytes());
		v.extend_from_slice(b"\r\n");
	}
	v.extend_from_slice(b"Connection: close\r\n\r\n");
	v
}

// ---------------------------------------------------------------------------------------
// server process
// ---------------------------------------------------------------------------------------

pub struct Server {
	pub port: u16,
	child: Child,
	log: PathBuf,
	pub args: Vec<String>,
}

/// Result of one exchange as the checks see it.
#[derive(Clone, Debug)]
pub enum Exchange {
	Response(Response),
	/// no complete, well-formed response although the server process is alive and answers
	/// `/status` afterwards: the connection of this request was dropped
	Dropped(TransportError),
}

/// A port that is free right now and has not been handed out by this process recently (several
/// runner threads start servers at the same time).
fn free_port() -> u16 {
	use std::sync::Mutex;
	static USED: Mutex<Vec<u16>> = Mutex::new(Vec::new());
	for attempt in 0..20_000u32 {
		if attempt > 0 && attempt % 200 == 0 {
			// the kernel keeps handing out the same few ports: the ephemeral range is nearly used up
			// (sockets in TIME_WAIT, other campaigns on this machine); wait for ports to come back
			std::thread::sleep(std::time::Duration::from_secs(2));
		}
		match TcpListener::bind("127.0.0.1:0").and_then(|l| l.local_addr()) {
			Ok(a) => {
				let mut g = USED.lock().unwrap();
				if g.len() > 128 {
					// only recent hand-outs matter (the window between choosing a port and the bind)
					g.drain(..64);
				}
				if !g.contains(&a.port()) {
					g.push(a.port());
					return a.port();
				}
			}
			Err(e) => die(&format!("cannot find a free TCP port: {e}")),
		}
	}
	die("cannot find a free TCP port that was not used before")
}

/// Does the listening socket on 127.0.0.1:port belong to process `pid`? (Linux: the socket inode
/// of the LISTEN entry in /proc/net/tcp is among the process's descriptors.) Another process may
/// have taken the port between choosing it and the child's bind.
fn child_listens(pid: u32, port: u16) -> bool {
	use std::io::BufRead;
	let Ok(table) = std::fs::File::open("/proc/net/tcp") else { return true };
	let want = format!("0100007F:{port:04X}");
	let mut inodes = vec![];
	// listening sockets are listed first; the table may continue with hundreds of thousands of
	// TIME_WAIT entries (one connection per request), which are not read
	for line in std::io::BufReader::with_capacity(4096, table).lines().skip(1) {
		let Ok(line) = line else { break };
		let f: Vec<&str> = line.split_whitespace().collect();
		if f.len() <= 9 || f[3] != "0A" {
			break;
		}
		if f[1] == want {
			inodes.push(f[9].to_string());
		}
	}
	if inodes.is_empty() {
		return false;
	}
	let Ok(rd) = std::fs::read_dir(format!("/proc/{pid}/fd")) else { return false };
	for e in rd.flatten() {
		if let Ok(t) = std::fs::read_link(e.path()) {
			let t = t.to_string_lossy().to_string();
			if let Some(i) = t.strip_prefix("socket:[").and_then(|s| s.strip_suffix(']')) {
				if inodes.iter().any(|x| x == i) {
					return true;
				}
			}
		}
	}
	false
}

impl Server {
	/// Start `versatiles serve -i 127.0.0.1 -p <free port> <args…>` (binary built from the working
	/// tree by `cli::build_binary`) and wait until `GET /status` answers. Dies (exit 2) if the
	/// server cannot be brought up.
	pub fn start(args: &[String]) -> Server {
		match Server::try_start(args) {
			Ok(s) => s,
			Err(e) => die(&format!("cannot start `versatiles serve {}`: {e}", args.join(" "))),
		}
	}

	/// Like `start`, but a server that refuses its arguments (exits by itself with an error
	/// message) is returned as `Err(stderr)` instead of ending the run.
	pub fn try_start(args: &[String]) -> Result<Server, String> {
		let bin = crate::cli::build_binary();
		let mut last = String::new();
		for attempt in 0..6 {
			let port = free_port();
			let log = crate::util::tmp_path(".serve.log");
			let log_file = std::fs::File::create(&log).map_err(|e| format!("cannot create {log:?}: {e}"))?;
			let mut cmd = Command::new(&bin);
			cmd.arg("serve").arg("-i").arg("127.0.0.1").arg("-p").arg(port.to_string());
			cmd.args(args);
			cmd.env("RUST_BACKTRACE", "0").env("RUST_LIB_BACKTRACE", "0");
			cmd.stdin(Stdio::null()).stdout(Stdio::null()).stderr(Stdio::from(log_file));
			// the server must not outlive the check process, however that ends (verdict printed and
			// `_exit`, watchdog, a kill from outside): the kernel sends it SIGKILL when its parent dies
			unsafe {
				use std::os::unix::process::CommandExt;
				cmd.pre_exec(|| {
					libc::prctl(libc::PR_SET_PDEATHSIG, libc::SIGKILL);
					Ok(())
				});
			}
			let child = match cmd.spawn() {
				Ok(c) => c,
				Err(e) => die(&format!("cannot spawn {bin:?}: {e}")),
			};
			let mut server = Server { port, child, log, args: args.to_vec() };
			let t0 = Instant::now();
			let mut exited = false;
			while t0.elapsed() < Duration::from_secs(20) {
				if let Ok(Some(_)) = server.child.try_wait() {
					exited = true;
					break;
				}
				if let Ok(r) = request_with_timeout(port, &get_request("/status", &[]), Duration::from_millis(1000)) {
					if r.status == 200 && r.body.starts_with(b"ready") {
						// make sure it is *our* child that answers (not another process that grabbed the port)
						if let Ok(None) = server.child.try_wait() {
							if child_listens(server.child.id(), port) {
								return Ok(server);
							}
						}
					}
				}
				std::thread::sleep(Duration::from_millis(15));
			}
			let text = server.log_text();
			last = if exited { format!("process exited: {}", text.trim()) } else { format!("no answer on /status within 20 s: {}", text.trim()) };
			drop(server);
			// "address in use" (lost the race for the port) or slow machine: try again; a server that
			// rejects its arguments will do so again, give up after two identical refusals
			if exited && !last.contains("ddress") && attempt >= 1 {
				break;
			}
		}
		Err(last)
	}

	pub fn log_text(&self) -> String {
		std::fs::read_to_string(&self.log).unwrap_or_default()
	}

	pub fn is_alive(&mut self) -> bool {
		matches!(self.child.try_wait(), Ok(None))
	}

	/// process alive and `/status` answered (a few attempts)
	pub fn is_healthy(&mut self) -> bool {
		for _ in 0..5 {
			if !self.is_alive() {
				return false;
			}
			if let Ok(r) = request_with_timeout(self.port, &get_request("/status", &[]), Duration::from_secs(3)) {
				if r.status == 200 {
					return true;
				}
			}
			std::thread::sleep(Duration::from_millis(100));
		}
		false
	}

	/// One exchange. A transport failure is attributed to the request only if the server is
	/// healthy afterwards; otherwise the run ends with exit 2 (the fixture is broken, nothing can
	/// be said about the property).
	pub fn exchange(&mut self, raw: &[u8]) -> Exchange {
		let first = match request(self.port, raw) {
			// slow is not dropped: on a loaded machine give the same request a long second chance
			Err(TransportError::Timeout { .. }) => request_with_timeout(self.port, raw, Duration::from_secs(40)),
			other => other,
		};
		match first {
			Ok(r) => Exchange::Response(r),
			Err(e) => {
				if self.is_healthy() {
					// a connect failure with a healthy server is a harness-side hiccup: one retry
					if let TransportError::Connect(_) = e {
						return match request(self.port, raw) {
							Ok(r) => Exchange::Response(r),
							Err(e2) => {
								if self.is_healthy() {
									Exchange::Dropped(e2)
								} else {
									self.broken(raw, &e2)
								}
							}
						};
					}
					Exchange::Dropped(e)
				} else {
					self.broken(raw, &e)
				}
			}
		}
	}

	fn broken(&mut self, raw: &[u8], e: &TransportError) -> ! {
		let alive = self.is_alive();
		let log = self.log_text();
		let tail: Vec<&str> = log.lines().rev().take(8).collect();
		die(&format!(
			"server on port {} is {} after request {:?} ({e}); cannot attribute the failure to the request. log tail: {}",
			self.port,
			if alive { "alive but does not answer /status" } else { "gone" },
			String::from_utf8_lossy(&raw[..raw.len().min(200)]),
			tail.into_iter().rev().collect::<Vec<_>>().join(" | ")
		))
	}

	pub fn get(&mut self, target: &str, headers: &[(&str, &str)]) -> Exchange {
		self.exchange(&get_request(target, headers))
	}
}

impl Drop for Server {
	fn drop(&mut self) {
		let _ = self.child.kill();
		let _ = self.child.wait();
		let _ = std::fs::remove_file(&self.log);
	}
}

// ---------------------------------------------------------------------------------------
// small shared fixtures
// ---------------------------------------------------------------------------------------

/// A tiny tile container (one PNG-declared tile at 0/0/0) written once per process with the
/// repository's writer: `serve` wants at least one tile source even if only static content is
/// of interest. Returns `path[id]` style argument parts (path, id).
pub fn tiny_tile_source() -> (PathBuf, &'static str) {
	use std::sync::OnceLock;
	static P: OnceLock<PathBuf> = OnceLock::new();
	let p = P.get_or_init(|| {
		use crate::model::{Coord, Fmt, MemReader, TileSet};
		use crate::util::Comp;
		let mut tiles = std::collections::BTreeMap::new();
		tiles.insert(Coord::new(0, 0, 0), b"tiny".to_vec());
		let mut set = TileSet { format: Fmt::Bin, comp: Comp::None, tiles: tiles.clone(), raw: tiles, pyramid: Default::default(), meta: None };
		set.pyramid = set.all_boxes();
		let path = crate::util::tmp_path(".versatiles");
		let mut r = MemReader::new(&set, "tiny");
		if let Err(f) = crate::containers::write_with_repo(&mut r, &path) {
			die(&format!("cannot write the tiny tile container: {}", f.what));
		}
		path
	});
	(p.clone(), "t")
}

/// `path[id]` argument for `serve`
pub fn source_arg(path: &std::path::Path, id: &str) -> String {
	format!("{}[{}]", path.display(), id)
}

/// Minimal ustar writer for static-content archives: regular members only (plus optional
/// directory members), names up to 100 bytes.
pub fn tar_archive(members: &[(String, Vec<u8>)], dir_members: bool) -> Vec<u8> {
	fn header(name: &str, size: usize, typeflag: u8) -> Vec<u8> {
		let mut h = vec![0u8; 512];
		let nb = name.as_bytes();
		assert!(nb.len() <= 100, "member name too long for the harness tar writer");
		h[..nb.len()].copy_from_slice(nb);
		h[100..108].copy_from_slice(if typeflag == b'5' { b"0000755\0" } else { b"0000644\0" });
		h[108..116].copy_from_slice(b"0000000\0");
		h[116..124].copy_from_slice(b"0000000\0");
		h[124..136].copy_from_slice(format!("{:011o}\0", size).as_bytes());
		h[136..148].copy_from_slice(b"00000000000\0");
		h[156] = typeflag;
		h[257..263].copy_from_slice(b"ustar\0");
		h[263..265].copy_from_slice(b"00");
		for b in &mut h[148..156] {
			*b = b' ';
		}
		let sum: u64 = h.iter().map(|b| *b as u64).sum();
		h[148..156].copy_from_slice(format!("{:06o}\0 ", sum).as_bytes());
		h
	}
	let mut out = vec![];
	let mut dirs = std::collections::BTreeSet::new();
	for (name, data) in members {
		if dir_members {
			let parts: Vec<&str> = name.split('/').collect();
			for i in 1..parts.len() {
				let d = format!("{}/", parts[..i].join("/"));
				if d != "./" && dirs.insert(d.clone()) {
					out.extend_from_slice(&header(&d, 0, b'5'));
				}
			}
		}
		out.extend_from_slice(&header(name, data.len(), b'0'));
		out.extend_from_slice(data);
		out.extend(std::iter::repeat(0u8).take((512 - data.len() % 512) % 512));
	}
	out.extend(std::iter::repeat(0u8).take(1024));
	out
}

//! Independent codecs, written from the published layouts (DESIGN.md Appendix A), never from
//! the repository's readers/writers. Decoders are used on files the repository writes,
//! encoders (see `enc_*`) produce files the repository has to read.

use crate::model::{Coord, Fmt};
use crate::util::Comp;
use std::collections::BTreeMap;

pub mod dir;
pub mod mbtiles;
pub mod pmtiles;
pub mod tar;
pub mod versatiles;

#[derive(Clone, Debug, Default)]
pub struct Decoded {
	/// declared tile format (None = the file does not say / says "unknown")
	pub format: Option<Fmt>,
	/// declared tile compression
	pub comp: Option<Comp>,
	pub tiles: BTreeMap<Coord, Vec<u8>>,
	/// metadata document, decompressed (None = no metadata stored)
	pub meta: Option<Vec<u8>>,
	/// remarks about the layout (conformance observations that do not change the mapping)
	pub notes: Vec<String>,
}

/// `[./]z/x/y.<fmt>[.gz|.br]` -> coordinate, format, compression
pub fn parse_tile_name(name: &str) -> Option<(Coord, Fmt, Comp)> {
	let name = name.strip_prefix("./").unwrap_or(name);
	let parts: Vec<&str> = name.split('/').collect();
	if parts.len() != 3 {
		return None;
	}
	let z: u8 = parse_plain(parts[0])?.try_into().ok()?;
	let x: u32 = parse_plain(parts[1])?.try_into().ok()?;
	let mut file = parts[2];
	let comp = if let Some(s) = file.strip_suffix(".gz") {
		file = s;
		Comp::Gzip
	} else if let Some(s) = file.strip_suffix(".br") {
		file = s;
		Comp::Brotli
	} else {
		Comp::None
	};
	let dot = file.find('.')?;
	let fmt = Fmt::from_ext(&file[dot..])?;
	let y: u32 = parse_plain(&file[..dot])?.try_into().ok()?;
	Some((Coord::new(z, x, y), fmt, comp))
}

fn parse_plain(s: &str) -> Option<u64> {
	if s.is_empty() || !s.bytes().all(|b| b.is_ascii_digit()) || s.len() > 12 {
		return None;
	}
	s.parse().ok()
}

/// metadata member names of the tar / directory layouts
pub fn parse_meta_name(name: &str) -> Option<Comp> {
	let name = name.strip_prefix("./").unwrap_or(name);
	for base in ["tiles.json", "meta.json", "metadata.json"] {
		if name == base {
			return Some(Comp::None);
		}
		if name == format!("{base}.gz") {
			return Some(Comp::Gzip);
		}
		if name == format!("{base}.br") {
			return Some(Comp::Brotli);
		}
	}
	None
}

pub fn tile_name(c: &Coord, fmt: Fmt, comp: Comp) -> String {
	format!("{}/{}/{}{}{}", c.z, c.x, c.y, fmt.ext(), comp.ext())
}

pub(crate) fn be_u32(b: &[u8]) -> u32 {
	u32::from_be_bytes([b[0], b[1], b[2], b[3]])
}
pub(crate) fn be_u64(b: &[u8]) -> u64 {
	u64::from_be_bytes([b[0], b[1], b[2], b[3], b[4], b[5], b[6], b[7]])
}
pub(crate) fn le_u64(b: &[u8]) -> u64 {
	u64::from_le_bytes([b[0], b[1], b[2], b[3], b[4], b[5], b[6], b[7]])
}
pub(crate) fn le_i32(b: &[u8]) -> i32 {
	i32::from_le_bytes([b[0], b[1], b[2], b[3]])
}

pub(crate) fn slice<'a>(data: &'a [u8], off: u64, len: u64, what: &str) -> Result<&'a [u8], String> {
	let end = off.checked_add(len).ok_or_else(|| format!("{what}: range overflows"))?;
	if end > data.len() as u64 {
		return Err(format!("{what}: range {off}+{len} beyond the file ({} bytes)", data.len()));
	}
	Ok(&data[off as usize..end as usize])
}

//! PMTiles v3 (little-endian), from the published specification.

use super::{le_i32, le_u64, slice, Decoded};
use crate::model::{Coord, Fmt, Mix, TileSet};
use crate::util::{self, Comp};
use serde::{Deserialize, Serialize};
use std::collections::BTreeMap;

// ---- Hilbert tile ids (classic xy2d / d2xy on a 2^z grid, plus the level offset) ----

fn rot(n: u64, x: &mut u64, y: &mut u64, rx: u64, ry: u64) {
	if ry == 0 {
		if rx == 1 {
			*x = n - 1 - *x;
			*y = n - 1 - *y;
		}
		std::mem::swap(x, y);
	}
}

pub fn level_offset(z: u8) -> u64 {
	// sum_{i<z} 4^i
	((1u128 << (2 * z as u32)) - 1).checked_div(3).unwrap() as u64
}

pub fn tile_id(c: &Coord) -> u64 {
	let n = 1u64 << c.z;
	let (mut x, mut y) = (c.x as u64, c.y as u64);
	let mut d = 0u64;
	let mut s = n / 2;
	while s > 0 {
		let rx = u64::from(x & s > 0);
		let ry = u64::from(y & s > 0);
		d += s * s * ((3 * rx) ^ ry);
		rot(n, &mut x, &mut y, rx, ry);
		s /= 2;
	}
	level_offset(c.z) + d
}

pub fn id_to_coord(id: u64) -> Option<Coord> {
	let mut z = 0u8;
	loop {
		if z > 31 {
			return None;
		}
		let next = level_offset(z + 1);
		if id < next {
			break;
		}
		z += 1;
	}
	let n = 1u64 << z;
	let mut t = id - level_offset(z);
	let (mut x, mut y) = (0u64, 0u64);
	let mut s = 1u64;
	while s < n {
		let rx = 1 & (t / 2);
		let ry = 1 & (t ^ rx);
		rot(s, &mut x, &mut y, rx, ry);
		x += s * rx;
		y += s * ry;
		t /= 4;
		s *= 2;
	}
	Some(Coord::new(z, x as u32, y as u32))
}

pub fn comp_from_byte(b: u8) -> Result<Option<Comp>, String> {
	match b {
		0 => Ok(None),
		1 => Ok(Some(Comp::None)),
		2 => Ok(Some(Comp::Gzip)),
		3 => Ok(Some(Comp::Brotli)),
		4 => Err("zstd".into()),
		x => Err(format!("compression byte {x}")),
	}
}
pub fn comp_byte(c: Comp) -> u8 {
	match c {
		Comp::None => 1,
		Comp::Gzip => 2,
		Comp::Brotli => 3,
	}
}
pub fn type_from_byte(b: u8) -> Result<Option<Fmt>, String> {
	match b {
		0 => Ok(None),
		1 => Ok(Some(Fmt::Pbf)),
		2 => Ok(Some(Fmt::Png)),
		3 => Ok(Some(Fmt::Jpg)),
		4 => Ok(Some(Fmt::Webp)),
		5 => Ok(Some(Fmt::Avif)),
		x => Err(format!("tile type byte {x}")),
	}
}
pub fn type_byte(f: Fmt) -> u8 {
	match f {
		Fmt::Pbf => 1,
		Fmt::Png => 2,
		Fmt::Jpg => 3,
		Fmt::Webp => 4,
		Fmt::Avif => 5,
		_ => 0,
	}
}

#[derive(Clone, Debug, Default)]
pub struct Header {
	pub root: (u64, u64),
	pub meta: (u64, u64),
	pub leaves: (u64, u64),
	pub data: (u64, u64),
	pub addressed: u64,
	pub entries: u64,
	pub contents: u64,
	pub clustered: bool,
	pub internal: u8,
	pub tile_comp: u8,
	pub tile_type: u8,
	pub min_zoom: u8,
	pub max_zoom: u8,
	pub bounds: [i32; 4],
	pub center_zoom: u8,
	pub center: [i32; 2],
}

pub fn parse_header(data: &[u8]) -> Result<Header, String> {
	if data.len() < 127 {
		return Err("shorter than the 127-byte header".into());
	}
	if &data[0..7] != b"PMTiles" {
		return Err("magic".into());
	}
	if data[7] != 3 {
		return Err(format!("version {}", data[7]));
	}
	let u = |i: usize| le_u64(&data[8 + 8 * i..]);
	Ok(Header {
		root: (u(0), u(1)),
		meta: (u(2), u(3)),
		leaves: (u(4), u(5)),
		data: (u(6), u(7)),
		addressed: u(8),
		entries: u(9),
		contents: u(10),
		clustered: data[96] == 1,
		internal: data[97],
		tile_comp: data[98],
		tile_type: data[99],
		min_zoom: data[100],
		max_zoom: data[101],
		bounds: [le_i32(&data[102..]), le_i32(&data[106..]), le_i32(&data[110..]), le_i32(&data[114..])],
		center_zoom: data[118],
		center: [le_i32(&data[119..]), le_i32(&data[123..])],
	})
}

#[derive(Clone, Copy, Debug, PartialEq, Eq)]
pub struct Entry {
	pub id: u64,
	pub run: u64,
	pub off: u64,
	pub len: u64,
}

fn read_varint(b: &[u8], pos: &mut usize) -> Result<u64, String> {
	let mut v = 0u64;
	let mut shift = 0;
	loop {
		let byte = *b.get(*pos).ok_or("directory truncated")?;
		*pos += 1;
		if shift >= 64 {
			return Err("varint too long".into());
		}
		v |= ((byte & 0x7f) as u64) << shift;
		if byte & 0x80 == 0 {
			return Ok(v);
		}
		shift += 7;
	}
}

pub fn parse_directory(b: &[u8]) -> Result<Vec<Entry>, String> {
	let mut pos = 0;
	let n = read_varint(b, &mut pos)? as usize;
	if n > b.len() {
		return Err("entry count larger than the directory".into());
	}
	let mut e = vec![Entry { id: 0, run: 0, off: 0, len: 0 }; n];
	let mut last = 0u64;
	for x in e.iter_mut() {
		last = last.checked_add(read_varint(b, &mut pos)?).ok_or("id overflow")?;
		x.id = last;
	}
	for x in e.iter_mut() {
		x.run = read_varint(b, &mut pos)?;
	}
	for x in e.iter_mut() {
		x.len = read_varint(b, &mut pos)?;
	}
	for i in 0..n {
		let v = read_varint(b, &mut pos)?;
		e[i].off = if v == 0 && i > 0 { e[i - 1].off + e[i - 1].len } else { v.checked_sub(1).ok_or("offset 0 in first entry")? };
	}
	if pos != b.len() {
		return Err(format!("{} trailing bytes in directory", b.len() - pos));
	}
	Ok(e)
}

pub fn decode(data: &[u8]) -> Result<(Decoded, Header), String> {
	let h = parse_header(data)?;
	let internal = comp_from_byte(h.internal)?.ok_or("internal compression unknown")?;
	let mut out = Decoded { format: type_from_byte(h.tile_type)?, comp: comp_from_byte(h.tile_comp)?, ..Default::default() };
	if h.meta.1 > 0 {
		let raw = slice(data, h.meta.0, h.meta.1, "metadata")?;
		out.meta = Some(util::decompress(raw, internal).map_err(|e| format!("metadata: {e}"))?);
	}
	if h.root.0 + h.root.1 > 16384 {
		out.notes.push("root directory extends beyond the first 16384 bytes".into());
	}
	let root = util::decompress(slice(data, h.root.0, h.root.1, "root directory")?, internal).map_err(|e| format!("root: {e}"))?;
	let mut addressed = 0u64;
	let mut tile_entries = 0u64;
	CLUSTER.with(|c| c.borrow_mut().clear());
	walk(data, &h, internal, &root, 0, &mut out, &mut addressed, &mut tile_entries)?;
	let mut by_id: Vec<(u64, u64, u64)> = CLUSTER.with(|c| c.borrow_mut().drain(..).collect());
	if h.clustered {
		// "clustered": in tile-id order every entry's data starts where the data written so far
		// ends, or refers back to data already written (de-duplication) - never further ahead
		by_id.sort();
		let mut end = 0u64;
		for (id, off, len) in &by_id {
			if *off > end {
				out.notes.push(format!("header says clustered, but the tile data is not ordered by tile id (tile id {id} at offset {off}, data so far ends at {end})"));
				break;
			}
			end = end.max(off + len);
		}
	}
	if let (Some(lo), Some(hi)) = (out.tiles.keys().map(|c| c.z).min(), out.tiles.keys().map(|c| c.z).max()) {
		if lo < h.min_zoom || hi > h.max_zoom {
			out.notes.push(format!("header zoom range {}..{} does not contain the tiles' levels {lo}..{hi}", h.min_zoom, h.max_zoom));
		}
	}
	if h.bounds[0] > h.bounds[2] || h.bounds[1] > h.bounds[3] {
		out.notes.push(format!("header bounds {:?} are inverted", h.bounds));
	}
	if h.addressed != 0 && h.addressed != addressed {
		out.notes.push(format!("header says {} addressed tiles, directories address {}", h.addressed, addressed));
	}
	if h.entries != 0 && h.entries != tile_entries {
		out.notes.push(format!("header says {} tile entries, directories hold {}", h.entries, tile_entries));
	}
	Ok((out, h))
}

thread_local! {
	/// (tile id, offset) of every tile entry met while walking the directories of one file
	static CLUSTER: std::cell::RefCell<Vec<(u64, u64, u64)>> = const { std::cell::RefCell::new(Vec::new()) };
}

#[allow(clippy::too_many_arguments)]
fn walk(data: &[u8], h: &Header, internal: Comp, dir: &[u8], depth: u8, out: &mut Decoded, addressed: &mut u64, tile_entries: &mut u64) -> Result<(), String> {
	if depth > 4 {
		return Err("directories nested deeper than 4".into());
	}
	let entries = parse_directory(dir)?;
	for w in entries.windows(2) {
		if w[1].id <= w[0].id {
			return Err(format!("directory not sorted by tile id ({} then {})", w[0].id, w[1].id));
		}
	}
	for e in &entries {
		if e.run == 0 {
			let raw = slice(data, h.leaves.0.checked_add(e.off).ok_or("overflow")?, e.len, "leaf directory")?;
			if e.off + e.len > h.leaves.1 {
				return Err("leaf directory outside the leaf section".into());
			}
			let leaf = util::decompress(raw, internal).map_err(|x| format!("leaf: {x}"))?;
			walk(data, h, internal, &leaf, depth + 1, out, addressed, tile_entries)?;
		} else {
			*tile_entries += 1;
			CLUSTER.with(|c| c.borrow_mut().push((e.id, e.off, e.len)));
			if e.off + e.len > h.data.1 {
				return Err(format!("tile {} outside the tile-data section", e.id));
			}
			let bytes = slice(data, h.data.0.checked_add(e.off).ok_or("overflow")?, e.len, "tile data")?;
			if e.run > 1 << 24 {
				return Err("run length beyond 2^24 (refusing to expand)".into());
			}
			for k in 0..e.run {
				let c = id_to_coord(e.id + k).ok_or("tile id beyond zoom 31")?;
				*addressed += 1;
				if out.tiles.insert(c, bytes.to_vec()).is_some() {
					return Err(format!("tile id {} addressed twice", e.id + k));
				}
			}
		}
	}
	Ok(())
}

// ---------------------------------------------------------------------------------------
// encoder
// ---------------------------------------------------------------------------------------

#[derive(Clone, Debug, Serialize, Deserialize, PartialEq, Eq)]
pub struct Layout {
	/// merge consecutive tile ids with equal payload into one entry with a run length
	pub runs: bool,
	/// store equal payloads once (entries share offset/length)
	pub share: bool,
	/// 0 = root only, 1 = root -> leaves, 2 = root -> leaves -> leaves
	pub leaf_levels: u8,
	/// entries per leaf directory
	pub leaf_size: u16,
	/// keep the first entries of the file in the root next to the leaf pointers
	pub mixed_root: bool,
	/// store leaf directories in reversed byte order inside the leaf section
	pub leaves_reversed: bool,
	pub internal: Comp,
	/// write tile data in shuffled order and clear the clustered flag
	pub unclustered: bool,
	pub with_meta: bool,
	pub seed: u32,
}

impl Default for Layout {
	fn default() -> Self {
		Layout { runs: false, share: false, leaf_levels: 0, leaf_size: 100, mixed_root: false, leaves_reversed: false, internal: Comp::Gzip, unclustered: false, with_meta: true, seed: 0 }
	}
}

fn put_varint(v: &mut Vec<u8>, mut x: u64) {
	loop {
		let b = (x & 0x7f) as u8;
		x >>= 7;
		if x == 0 {
			v.push(b);
			return;
		}
		v.push(b | 0x80);
	}
}

pub fn serialize_directory(e: &[Entry]) -> Vec<u8> {
	let mut v = vec![];
	put_varint(&mut v, e.len() as u64);
	let mut last = 0;
	for x in e {
		put_varint(&mut v, x.id - last);
		last = x.id;
	}
	for x in e {
		put_varint(&mut v, x.run);
	}
	for x in e {
		put_varint(&mut v, x.len);
	}
	for i in 0..e.len() {
		if i > 0 && e[i].off == e[i - 1].off + e[i - 1].len {
			put_varint(&mut v, 0);
		} else {
			put_varint(&mut v, e[i].off + 1);
		}
	}
	v
}

#[derive(Clone, Copy, Debug, PartialEq, Eq)]
pub enum Section {
	Directory,
	Header,
	Meta,
}

/// Encode a tile set (non-empty payloads) as PMTiles v3 with the given layout choices.
/// Returns the file and a short description of the features actually used.
pub fn encode(set: &TileSet, layout: &Layout) -> (Vec<u8>, Vec<&'static str>) {
	encode_patched(set, layout, &mut |_, _| {})
}

/// Like `encode`, but `patch` may alter the raw bytes of directories, metadata and header
/// before they are compressed / written.
pub fn encode_patched(set: &TileSet, layout: &Layout, patch: &mut dyn FnMut(Section, &mut Vec<u8>)) -> (Vec<u8>, Vec<&'static str>) {
	let mut used = vec![];
	let mut mix = Mix::new(layout.seed as u64 ^ 0x9911);
	let by_id: BTreeMap<u64, (&Coord, &Vec<u8>)> = set.tiles.iter().filter(|(_, b)| !b.is_empty()).map(|(c, b)| (tile_id(c), (c, b))).collect();

	// tile data section
	let ids: Vec<u64> = by_id.keys().copied().collect();
	let mut write_order: Vec<usize> = (0..ids.len()).collect();
	if layout.unclustered {
		for i in (1..write_order.len()).rev() {
			write_order.swap(i, mix.below(i as u64 + 1) as usize);
		}
		if ids.len() > 1 {
			used.push("unclustered");
		}
	}
	let mut tile_data: Vec<u8> = vec![];
	let mut place: BTreeMap<u64, (u64, u64)> = BTreeMap::new();
	let mut shared: std::collections::HashMap<&Vec<u8>, (u64, u64)> = Default::default();
	for i in write_order {
		let id = ids[i];
		let b = by_id[&id].1;
		let r = if layout.share {
			if let Some(r) = shared.get(b) {
				used.push("shared-offsets");
				*r
			} else {
				let r = (tile_data.len() as u64, b.len() as u64);
				tile_data.extend_from_slice(b);
				shared.insert(b, r);
				r
			}
		} else {
			let r = (tile_data.len() as u64, b.len() as u64);
			tile_data.extend_from_slice(b);
			r
		};
		place.insert(id, r);
	}
	// entries
	let mut entries: Vec<Entry> = vec![];
	for id in &ids {
		let (off, len) = place[id];
		if layout.runs {
			if let Some(last) = entries.last_mut() {
				if last.id + last.run == *id && last.off == off && last.len == len {
					last.run += 1;
					used.push("run-lengths");
					continue;
				}
			}
		}
		entries.push(Entry { id: *id, run: 1, off, len });
	}
	let contents = if layout.share { shared.len() as u64 } else { ids.len() as u64 };

	// directories
	let internal = layout.internal;
	let patch_cell = std::cell::RefCell::new(patch);
	let pack = |e: &[Entry]| {
		let mut raw = serialize_directory(e);
		(patch_cell.borrow_mut())(Section::Directory, &mut raw);
		util::compress(&raw, internal)
	};
	let mut leaf_blobs: Vec<Vec<u8>> = vec![];
	let mut levels = layout.leaf_levels.min(2);
	let mut leaf_size = (layout.leaf_size.max(1)) as usize;
	let root_bytes;
	loop {
		leaf_blobs.clear();
		// second-level directories: index of the placeholder blob -> its children
		let mut pending: Vec<(usize, Vec<Entry>)> = vec![];
		let root_entries: Vec<Entry> = if levels == 0 || entries.len() <= 1 {
			entries.clone()
		} else {
			let keep = if layout.mixed_root { (entries.len() / 3).min(20) } else { 0 };
			let mut root: Vec<Entry> = entries[..keep].to_vec();
			// first level of leaves over the remaining entries
			let mut lvl1: Vec<Entry> = vec![];
			for chunk in entries[keep..].chunks(leaf_size) {
				let blob = pack(chunk);
				lvl1.push(Entry { id: chunk[0].id, run: 0, off: leaf_blobs.len() as u64, len: blob.len() as u64 });
				leaf_blobs.push(blob);
			}
			if levels == 2 && lvl1.len() > 1 {
				// second level: directories of leaf pointers
				let mut lvl2: Vec<Entry> = vec![];
				let per = leaf_size.clamp(2, 7);
				let groups: Vec<Vec<Entry>> = lvl1.chunks(per).map(|c| c.to_vec()).collect();
				for g in groups {
					// offsets are patched after the layout of the leaf section is known: keep indices
					let first = g[0].id;
					let idx = leaf_blobs.len();
					leaf_blobs.push(vec![]); // placeholder, filled below
					lvl2.push(Entry { id: first, run: 0, off: idx as u64, len: 0 });
					pending.push((idx, g));
				}
				root.extend(lvl2);
			} else {
				root.extend(lvl1);
			}
			root
		};
		// lay out the leaf section: order of blobs, then patch offsets (indices -> byte offsets)
		let mut order: Vec<usize> = (0..leaf_blobs.len()).collect();
		if layout.leaves_reversed {
			order.reverse();
		}
		// placeholders (second-level directories) need their children's byte ranges first:
		// children are plain leaves whose sizes are known; assign offsets to plain leaves, then
		// build the second-level blobs, then assign theirs.
		let mut offsets: BTreeMap<usize, (u64, u64)> = BTreeMap::new();
		let mut section: Vec<u8> = vec![];
		for &i in &order {
			if pending.iter().any(|(p, _)| *p == i) {
				continue;
			}
			offsets.insert(i, (section.len() as u64, leaf_blobs[i].len() as u64));
			section.extend_from_slice(&leaf_blobs[i]);
		}
		for &i in &order {
			if let Some((_, group)) = pending.iter().find(|(p, _)| *p == i) {
				let patched: Vec<Entry> = group.iter().map(|e| { let (o, l) = offsets[&(e.off as usize)]; Entry { id: e.id, run: 0, off: o, len: l } }).collect();
				let blob = pack(&patched);
				offsets.insert(i, (section.len() as u64, blob.len() as u64));
				section.extend_from_slice(&blob);
			}
		}
		let root_patched: Vec<Entry> = root_entries
			.iter()
			.map(|e| if e.run == 0 { let (o, l) = offsets[&(e.off as usize)]; Entry { id: e.id, run: 0, off: o, len: l } } else { *e })
			.collect();
		let rb = pack(&root_patched);
		if rb.len() <= 16384 - 127 {
			root_bytes = rb;
			leaf_blobs = vec![section];
			if levels >= 1 && entries.len() > 1 {
				used.push(if levels == 2 { "two-leaf-levels" } else { "leaf-directories" });
				if layout.mixed_root && root_patched.iter().any(|e| e.run > 0) {
					used.push("mixed-root");
				}
				if layout.leaves_reversed {
					used.push("leaves-reversed");
				}
			}
			break;
		}
		// root too large: use (more) leaves
		if levels == 0 {
			levels = 1;
			leaf_size = 512;
		} else {
			leaf_size *= 2;
		}
	}
	let leaf_section = leaf_blobs.pop().unwrap_or_default();

	// metadata
	let meta_raw = if layout.with_meta { set.meta.clone().unwrap_or_else(|| "{}".into()) } else { "{}".to_string() };
	let mut meta_bytes = meta_raw.into_bytes();
	(patch_cell.borrow_mut())(Section::Meta, &mut meta_bytes);
	let meta = util::compress(&meta_bytes, internal);
	if internal != Comp::Gzip {
		used.push(if internal == Comp::None { "internal-none" } else { "internal-brotli" });
	}

	// file: header, root, metadata, leaves, tile data
	let mut file = vec![0u8; 127];
	let root = (file.len() as u64, root_bytes.len() as u64);
	file.extend_from_slice(&root_bytes);
	let metar = (file.len() as u64, meta.len() as u64);
	file.extend_from_slice(&meta);
	let leaves = (file.len() as u64, leaf_section.len() as u64);
	file.extend_from_slice(&leaf_section);
	let datar = (file.len() as u64, tile_data.len() as u64);
	file.extend_from_slice(&tile_data);

	let mut h = vec![];
	h.extend_from_slice(b"PMTiles");
	h.push(3);
	// the three counters may be 0 = "unknown" (specification, section 3.2): every fourth layout
	let counts_unknown = (layout.seed >> 5) % 4 == 0;
	if counts_unknown {
		used.push("header-counts-unknown");
	}
	let counts = if counts_unknown { [0u64; 3] } else { [ids.len() as u64, entries.len() as u64, contents] };
	for v in [root.0, root.1, metar.0, metar.1, leaves.0, leaves.1, datar.0, datar.1, counts[0], counts[1], counts[2]] {
		h.extend_from_slice(&v.to_le_bytes());
	}
	h.push(if layout.unclustered { 0 } else { 1 });
	h.push(comp_byte(internal));
	h.push(comp_byte(set.comp));
	h.push(type_byte(set.format));
	let levels_present = set.tight_boxes();
	h.push(*levels_present.keys().next().unwrap_or(&0));
	h.push(*levels_present.keys().last().unwrap_or(&0));
	let mut g = [180.0f64, 85.0, -180.0, -85.0];
	for (z, b) in &levels_present {
		use crate::model::georef as gr;
		g[0] = g[0].min(gr::lon(b.0 as f64, *z));
		g[2] = g[2].max(gr::lon(b.2 as f64 + 1.0, *z));
		g[3] = g[3].max(gr::lat(b.1 as f64, *z));
		g[1] = g[1].min(gr::lat(b.3 as f64 + 1.0, *z));
	}
	for v in g {
		h.extend_from_slice(&((v * 1e7) as i32).to_le_bytes());
	}
	h.push(*levels_present.keys().next().unwrap_or(&0));
	h.extend_from_slice(&(((g[0] + g[2]) * 5e6) as i32).to_le_bytes());
	h.extend_from_slice(&(((g[1] + g[3]) * 5e6) as i32).to_le_bytes());
	assert_eq!(h.len(), 127);
	(patch_cell.borrow_mut())(Section::Header, &mut h);
	h.resize(127, 0);
	file[..127].copy_from_slice(&h);
	used.sort();
	used.dedup();
	(file, used)
}

/// self-test of the Hilbert mapping (reference values from the specification)
pub fn self_test() {
	assert_eq!(tile_id(&Coord::new(0, 0, 0)), 0);
	assert_eq!(tile_id(&Coord::new(1, 0, 0)), 1);
	assert_eq!(tile_id(&Coord::new(1, 0, 1)), 2);
	assert_eq!(tile_id(&Coord::new(1, 1, 1)), 3);
	assert_eq!(tile_id(&Coord::new(1, 1, 0)), 4);
	assert_eq!(tile_id(&Coord::new(2, 0, 0)), 5);
	for z in 0..6u8 {
		let n = 1u32 << z;
		let mut seen = std::collections::BTreeSet::new();
		for x in 0..n {
			for y in 0..n {
				let c = Coord::new(z, x, y);
				let id = tile_id(&c);
				assert!(seen.insert(id));
				assert_eq!(id_to_coord(id), Some(c));
			}
		}
		assert_eq!(*seen.iter().next().unwrap(), level_offset(z));
		assert_eq!(*seen.iter().last().unwrap(), level_offset(z + 1) - 1);
	}
	let c = Coord::new(31, (1u32 << 31) - 1, 12345);
	assert_eq!(id_to_coord(tile_id(&c)), Some(c));
}

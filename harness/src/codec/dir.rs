//! z/x/y directory layout.

use super::{parse_meta_name, parse_tile_name, tile_name, Decoded};
use crate::model::TileSet;
use crate::util;
use serde::{Deserialize, Serialize};
use std::path::Path;

fn walk(root: &Path, rel: &str, out: &mut Vec<String>) -> Result<(), String> {
	let dir = if rel.is_empty() { root.to_path_buf() } else { root.join(rel) };
	for e in std::fs::read_dir(&dir).map_err(|e| format!("read_dir {dir:?}: {e}"))? {
		let e = e.map_err(|e| e.to_string())?;
		let name = e.file_name().to_string_lossy().to_string();
		let r = if rel.is_empty() { name } else { format!("{rel}/{name}") };
		if e.file_type().map_err(|e| e.to_string())?.is_dir() {
			walk(root, &r, out)?;
		} else {
			out.push(r);
		}
	}
	Ok(())
}

pub fn decode(root: &Path) -> Result<Decoded, String> {
	let mut files = vec![];
	walk(root, "", &mut files)?;
	files.sort();
	let mut out = Decoded::default();
	for f in files {
		let data = std::fs::read(root.join(&f)).map_err(|e| format!("read {f}: {e}"))?;
		if let Some((c, fm, comp)) = parse_tile_name(&f) {
			match out.format {
				None => out.format = Some(fm),
				Some(x) if x != fm => return Err(format!("mixed tile formats ({x:?}, {fm:?})")),
				_ => {}
			}
			match out.comp {
				None => out.comp = Some(comp),
				Some(x) if x != comp => return Err(format!("mixed compressions ({x:?}, {comp:?})")),
				_ => {}
			}
			out.tiles.insert(c, data);
		} else if let Some(comp) = parse_meta_name(&f) {
			out.meta = Some(util::decompress(&data, comp).map_err(|e| format!("metadata: {e}"))?);
		} else {
			out.notes.push(format!("other file {f}"));
		}
	}
	Ok(out)
}

#[derive(Clone, Debug, Serialize, Deserialize, PartialEq, Eq)]
pub struct Layout {
	/// unrelated files in the root, in a level directory and in a column directory
	pub extra_files: bool,
	/// name of the metadata file: 0 tiles.json, 1 meta.json, 2 metadata.json, 3 none
	pub meta_name: u8,
}

impl Default for Layout {
	fn default() -> Self {
		Layout { extra_files: false, meta_name: 0 }
	}
}

pub fn encode(set: &TileSet, layout: &Layout, root: &Path) -> Result<(), String> {
	std::fs::create_dir_all(root).map_err(|e| e.to_string())?;
	let mut first = true;
	for (c, b) in set.tiles.iter().filter(|(_, b)| !b.is_empty()) {
		let p = root.join(tile_name(c, set.format, set.comp));
		std::fs::create_dir_all(p.parent().unwrap()).map_err(|e| e.to_string())?;
		std::fs::write(&p, b).map_err(|e| e.to_string())?;
		if layout.extra_files && first {
			first = false;
			std::fs::write(root.join("README.txt"), b"hello").map_err(|e| e.to_string())?;
			std::fs::write(root.join(format!("{}/notes.txt", c.z)), b"hello").map_err(|e| e.to_string())?;
			std::fs::write(root.join(format!("{}/{}/thumbs.db", c.z, c.x)), b"hello").map_err(|e| e.to_string())?;
			std::fs::create_dir_all(root.join("assets")).map_err(|e| e.to_string())?;
			std::fs::write(root.join("assets/style.css"), b"body{}").map_err(|e| e.to_string())?;
		}
	}
	if layout.meta_name < 3 {
		if let Some(m) = &set.meta {
			let base = ["tiles.json", "meta.json", "metadata.json"][layout.meta_name as usize];
			std::fs::write(root.join(format!("{base}{}", set.comp.ext())), util::compress(m.as_bytes(), set.comp)).map_err(|e| e.to_string())?;
		}
	}
	Ok(())
}

//! versatiles v02 (big-endian), from the published layout.

use super::{be_u32, be_u64, slice, Decoded};
use crate::model::{Coord, Fmt, TileSet};
use crate::util::{self, Comp};
use serde::{Deserialize, Serialize};

pub const MAGIC: &[u8; 14] = b"versatiles_v02";

pub fn comp_from_byte(b: u8) -> Option<Comp> {
	match b {
		0 => Some(Comp::None),
		1 => Some(Comp::Gzip),
		2 => Some(Comp::Brotli),
		_ => None,
	}
}
pub fn comp_byte(c: Comp) -> u8 {
	match c {
		Comp::None => 0,
		Comp::Gzip => 1,
		Comp::Brotli => 2,
	}
}

#[derive(Clone, Debug, Default)]
pub struct Header {
	pub zoom_min: u8,
	pub zoom_max: u8,
	pub bbox: [i32; 4],
	pub meta: (u64, u64),
	pub blocks: (u64, u64),
}

pub fn decode(data: &[u8]) -> Result<(Decoded, Header), String> {
	if data.len() < 66 {
		return Err(format!("file shorter than the 66-byte header ({})", data.len()));
	}
	if &data[0..14] != MAGIC {
		return Err("magic is not versatiles_v02".into());
	}
	let format = Fmt::from_vt_byte(data[14]).ok_or_else(|| format!("unknown tile format byte {:#x}", data[14]))?;
	let comp = comp_from_byte(data[15]).ok_or_else(|| format!("unknown compression byte {}", data[15]))?;
	let mut h = Header { zoom_min: data[16], zoom_max: data[17], ..Default::default() };
	for i in 0..4 {
		h.bbox[i] = be_u32(&data[18 + 4 * i..]) as i32;
	}
	h.meta = (be_u64(&data[34..]), be_u64(&data[42..]));
	h.blocks = (be_u64(&data[50..]), be_u64(&data[58..]));

	let mut out = Decoded { format: Some(format), comp: Some(comp), ..Default::default() };
	if h.meta.1 > 0 {
		let raw = slice(data, h.meta.0, h.meta.1, "metadata")?;
		out.meta = Some(util::decompress(raw, comp).map_err(|e| format!("metadata: {e}"))?);
	}
	if h.blocks.1 == 0 {
		return Err("block index has length 0".into());
	}
	let index = util::brotli_d(slice(data, h.blocks.0, h.blocks.1, "block index")?).map_err(|e| format!("block index: {e}"))?;
	if index.len() % 33 != 0 {
		return Err(format!("block index length {} is not a multiple of 33", index.len()));
	}
	let mut seen_blocks = std::collections::BTreeSet::new();
	for rec in index.chunks(33) {
		let level = rec[0];
		let col = be_u32(&rec[1..]);
		let row = be_u32(&rec[5..]);
		let (cmin, rmin, cmax, rmax) = (rec[9] as u32, rec[10] as u32, rec[11] as u32, rec[12] as u32);
		let off = be_u64(&rec[13..]);
		let tiles_len = be_u64(&rec[21..]);
		let index_len = be_u32(&rec[29..]) as u64;
		if level > 31 {
			return Err(format!("block level {level}"));
		}
		if cmin > cmax || rmin > rmax {
			return Err(format!("block {level}/{col}/{row}: inverted coverage"));
		}
		if !seen_blocks.insert((level, col, row)) {
			return Err(format!("block {level}/{col}/{row} listed twice"));
		}
		let tindex = util::brotli_d(slice(data, off.checked_add(tiles_len).ok_or("overflow")?, index_len, "tile index")?)
			.map_err(|e| format!("tile index of block {level}/{col}/{row}: {e}"))?;
		let w = cmax - cmin + 1;
		let hgt = rmax - rmin + 1;
		if tindex.len() as u64 != (w * hgt) as u64 * 12 {
			return Err(format!("tile index of block {level}/{col}/{row}: {} bytes for {}x{} tiles", tindex.len(), w, hgt));
		}
		for (i, t) in tindex.chunks(12).enumerate() {
			let toff = be_u64(t);
			let tlen = be_u32(&t[8..]) as u64;
			if tlen == 0 {
				continue;
			}
			let x = col as u64 * 256 + (cmin + (i as u32 % w)) as u64;
			let y = row as u64 * 256 + (rmin + (i as u32 / w)) as u64;
			if x >= Coord::size(level) || y >= Coord::size(level) {
				return Err(format!("tile {level}/{x}/{y} outside the level"));
			}
			let bytes = slice(data, off.checked_add(toff).ok_or("overflow")?, tlen, "tile")?;
			if toff + tlen > tiles_len {
				out.notes.push(format!("tile {level}/{x}/{y} lies outside its block's tile-blob range"));
			}
			out.tiles.insert(Coord::new(level, x as u32, y as u32), bytes.to_vec());
		}
	}
	// header fields that summarise the content
	if let (Some(lo), Some(hi)) = (out.tiles.keys().map(|c| c.z).min(), out.tiles.keys().map(|c| c.z).max()) {
		if lo < h.zoom_min || hi > h.zoom_max {
			out.notes.push(format!("header zoom range {}..{} does not contain the tiles' levels {lo}..{hi}", h.zoom_min, h.zoom_max));
		}
	}
	if h.bbox[0] > h.bbox[2] || h.bbox[1] > h.bbox[3] {
		out.notes.push(format!("header bbox {:?} is inverted", h.bbox));
	}
	Ok((out, h))
}

// ---------------------------------------------------------------------------------------
// encoder with the layout freedom the format allows
// ---------------------------------------------------------------------------------------

#[derive(Clone, Debug, Serialize, Deserialize, PartialEq, Eq)]
pub struct Layout {
	/// shrink each block's coverage to the bounding box of its tiles (partial blocks); otherwise
	/// widen it by this many tiles where possible (255 = whole block)
	pub tight_blocks: bool,
	pub widen: u8,
	/// order of blocks in the file and in the index: 0 as is, 1 reversed, 2 shuffled by seed
	pub block_order: u8,
	/// order of tile blobs inside a block
	pub tile_order: u8,
	/// share one blob between equal payloads of any size
	pub share_all: bool,
	/// junk bytes between blocks
	pub gaps: bool,
	pub with_meta: bool,
	pub seed: u32,
}

impl Default for Layout {
	fn default() -> Self {
		Layout { tight_blocks: true, widen: 0, block_order: 0, tile_order: 0, share_all: false, gaps: false, with_meta: true, seed: 0 }
	}
}

fn put_u32(v: &mut Vec<u8>, x: u32) {
	v.extend_from_slice(&x.to_be_bytes());
}
fn put_u64(v: &mut Vec<u8>, x: u64) {
	v.extend_from_slice(&x.to_be_bytes());
}

/// Sections of the file whose raw (uncompressed) bytes can be patched before they are packed
#[derive(Clone, Copy, Debug, PartialEq, Eq)]
pub enum Section {
	TileIndex,
	BlockIndex,
	Header,
	Meta,
}

/// Encode a tile set (non-empty payloads only) as versatiles v02.
pub fn encode(set: &TileSet, layout: &Layout) -> Vec<u8> {
	encode_patched(set, layout, &mut |_, _| {})
}

/// Like `encode`, but `patch` may alter the raw bytes of every section before compression
/// (used to build corrupted files whose corruption lies behind the compression layer).
pub fn encode_patched(set: &TileSet, layout: &Layout, patch: &mut dyn FnMut(Section, &mut Vec<u8>)) -> Vec<u8> {
	use crate::model::Mix;
	let mut mix = Mix::new(layout.seed as u64 ^ 0x7654);
	let mut file = vec![0u8; 66];
	// metadata
	let mut meta = (0u64, 0u64);
	if layout.with_meta {
		if let Some(m) = &set.meta {
			let mut raw_meta = m.as_bytes().to_vec();
			patch(Section::Meta, &mut raw_meta);
			let c = util::compress(&raw_meta, set.comp);
			meta = (file.len() as u64, c.len() as u64);
			file.extend_from_slice(&c);
		}
	}
	// group tiles per block
	let mut blocks: std::collections::BTreeMap<(u8, u32, u32), Vec<(&Coord, &Vec<u8>)>> = Default::default();
	for (c, b) in set.tiles.iter().filter(|(_, b)| !b.is_empty()) {
		blocks.entry((c.z, c.x >> 8, c.y >> 8)).or_default().push((c, b));
	}
	let mut order: Vec<(u8, u32, u32)> = blocks.keys().copied().collect();
	match layout.block_order {
		1 => order.reverse(),
		2 => {
			for i in (1..order.len()).rev() {
				order.swap(i, mix.below(i as u64 + 1) as usize);
			}
		}
		_ => {}
	}
	let mut index_records: Vec<Vec<u8>> = vec![];
	for key in &order {
		let tiles = &blocks[key];
		let (z, bx, by) = *key;
		let level_max = ((Coord::size(z) - 1) & 255) as u32;
		let whole = if z >= 8 { 255 } else { level_max };
		let mut cmin = tiles.iter().map(|(c, _)| c.x & 255).min().unwrap();
		let mut cmax = tiles.iter().map(|(c, _)| c.x & 255).max().unwrap();
		let mut rmin = tiles.iter().map(|(c, _)| c.y & 255).min().unwrap();
		let mut rmax = tiles.iter().map(|(c, _)| c.y & 255).max().unwrap();
		if !layout.tight_blocks {
			let w = layout.widen as u32;
			cmin = cmin.saturating_sub(w);
			rmin = rmin.saturating_sub(w);
			cmax = (cmax + w).min(whole);
			rmax = (rmax + w).min(whole);
		}
		if layout.gaps {
			let n = 1 + mix.below(40) as usize;
			file.extend(std::iter::repeat(0xEEu8).take(n));
		}
		let block_off = file.len() as u64;
		let w = cmax - cmin + 1;
		let h = rmax - rmin + 1;
		let mut records = vec![(0u64, 0u32); (w * h) as usize];
		let mut blob_order: Vec<usize> = (0..tiles.len()).collect();
		match layout.tile_order {
			1 => blob_order.reverse(),
			2 => {
				for i in (1..blob_order.len()).rev() {
					blob_order.swap(i, mix.below(i as u64 + 1) as usize);
				}
			}
			_ => {}
		}
		let mut shared: std::collections::HashMap<&Vec<u8>, (u64, u32)> = Default::default();
		for ti in blob_order {
			let (c, b) = tiles[ti];
			let slot = ((c.y & 255) - rmin) * w + ((c.x & 255) - cmin);
			let rec = if layout.share_all {
				if let Some(r) = shared.get(b) {
					*r
				} else {
					let r = (file.len() as u64 - block_off, b.len() as u32);
					file.extend_from_slice(b);
					shared.insert(b, r);
					r
				}
			} else {
				let r = (file.len() as u64 - block_off, b.len() as u32);
				file.extend_from_slice(b);
				r
			};
			records[slot as usize] = rec;
		}
		let tiles_len = file.len() as u64 - block_off;
		let mut tindex = vec![];
		for (o, l) in &records {
			put_u64(&mut tindex, *o);
			put_u32(&mut tindex, *l);
		}
		patch(Section::TileIndex, &mut tindex);
		let tindex_c = util::brotli_c(&tindex);
		file.extend_from_slice(&tindex_c);
		let mut rec = vec![z];
		put_u32(&mut rec, bx);
		put_u32(&mut rec, by);
		rec.extend_from_slice(&[cmin as u8, rmin as u8, cmax as u8, rmax as u8]);
		put_u64(&mut rec, block_off);
		put_u64(&mut rec, tiles_len);
		put_u32(&mut rec, tindex_c.len() as u32);
		index_records.push(rec);
	}
	if layout.block_order == 2 {
		// the index order is free as well
		for i in (1..index_records.len()).rev() {
			index_records.swap(i, mix.below(i as u64 + 1) as usize);
		}
	}
	let mut index: Vec<u8> = index_records.concat();
	patch(Section::BlockIndex, &mut index);
	let index_c = util::brotli_c(&index);
	let blocks_range = (file.len() as u64, index_c.len() as u64);
	file.extend_from_slice(&index_c);

	// header
	let mut head = vec![];
	head.extend_from_slice(MAGIC);
	head.push(set.format.vt_byte());
	head.push(comp_byte(set.comp));
	let levels = set.tight_boxes();
	head.push(*levels.keys().next().unwrap_or(&0));
	head.push(*levels.keys().last().unwrap_or(&0));
	// geographic bounds of the coverage, degrees * 1e7
	let mut g = [180.0f64, 90.0, -180.0, -90.0];
	for (z, b) in &levels {
		use crate::model::georef as gr;
		g[0] = g[0].min(gr::lon(b.0 as f64, *z));
		g[2] = g[2].max(gr::lon(b.2 as f64 + 1.0, *z));
		g[3] = g[3].max(gr::lat(b.1 as f64, *z));
		g[1] = g[1].min(gr::lat(b.3 as f64 + 1.0, *z));
	}
	for v in g {
		head.extend_from_slice(&(((v * 1e7) as i64).clamp(i32::MIN as i64, i32::MAX as i64) as i32).to_be_bytes());
	}
	put_u64(&mut head, meta.0);
	put_u64(&mut head, meta.1);
	put_u64(&mut head, blocks_range.0);
	put_u64(&mut head, blocks_range.1);
	assert_eq!(head.len(), 66);
	patch(Section::Header, &mut head);
	head.resize(66, 0);
	file[..66].copy_from_slice(&head);
	file
}

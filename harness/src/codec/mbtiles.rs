//! MBTiles 1.3 via direct SQL (rusqlite), from the specification.

use super::Decoded;
use crate::model::{Coord, Fmt, Mix, TileSet};
use crate::util::Comp;
use rusqlite::{params, Connection, OpenFlags};
use serde::{Deserialize, Serialize};
use std::collections::BTreeMap;
use std::path::Path;

pub fn decode(path: &Path) -> Result<(Decoded, BTreeMap<String, String>), String> {
	let conn = Connection::open_with_flags(path, OpenFlags::SQLITE_OPEN_READ_ONLY).map_err(|e| format!("open: {e}"))?;
	let mut meta = BTreeMap::new();
	{
		let mut st = conn.prepare("SELECT name, value FROM metadata").map_err(|e| format!("metadata: {e}"))?;
		let rows = st.query_map([], |r| Ok((r.get::<_, String>(0)?, r.get::<_, String>(1)?))).map_err(|e| format!("metadata: {e}"))?;
		for r in rows {
			let (k, v) = r.map_err(|e| format!("metadata row: {e}"))?;
			meta.insert(k, v);
		}
	}
	let mut out = Decoded::default();
	match meta.get("format").map(|s| s.as_str()) {
		Some("pbf") => {
			out.format = Some(Fmt::Pbf);
			out.comp = Some(Comp::Gzip);
		}
		Some("jpg") | Some("jpeg") => {
			out.format = Some(Fmt::Jpg);
			out.comp = Some(Comp::None);
		}
		Some("png") => {
			out.format = Some(Fmt::Png);
			out.comp = Some(Comp::None);
		}
		Some("webp") => {
			out.format = Some(Fmt::Webp);
			out.comp = Some(Comp::None);
		}
		other => return Err(format!("metadata format = {other:?}")),
	}
	let mut st = conn.prepare("SELECT zoom_level, tile_column, tile_row, tile_data FROM tiles").map_err(|e| format!("tiles: {e}"))?;
	let rows = st
		.query_map([], |r| Ok((r.get::<_, i64>(0)?, r.get::<_, i64>(1)?, r.get::<_, i64>(2)?, r.get::<_, Vec<u8>>(3)?)))
		.map_err(|e| format!("tiles: {e}"))?;
	for r in rows {
		let (z, x, row, data) = r.map_err(|e| format!("tile row: {e}"))?;
		if !(0..=31).contains(&z) {
			return Err(format!("zoom_level {z}"));
		}
		let n = 1i64 << z;
		if x < 0 || x >= n || row < 0 || row >= n {
			return Err(format!("tile {z}/{x}/{row} outside the level"));
		}
		let c = Coord::new(z as u8, x as u32, (n - 1 - row) as u32);
		if out.tiles.insert(c, data).is_some() {
			return Err(format!("tile {c} stored twice"));
		}
	}
	Ok((out, meta))
}

#[derive(Clone, Debug, Serialize, Deserialize, PartialEq, Eq)]
pub struct Layout {
	/// `tiles` is a view over `map` + `images` (the de-duplicating layout many writers use)
	pub as_view: bool,
	pub with_index: bool,
	/// extra metadata rows (name/value pairs)
	pub extra_meta: bool,
	/// insertion order: 0 sorted, 1 reversed, 2 shuffled
	pub order: u8,
	pub seed: u32,
}

impl Default for Layout {
	fn default() -> Self {
		Layout { as_view: false, with_index: true, extra_meta: false, order: 0, seed: 0 }
	}
}

/// Encode a tile set as an MBTiles file. Only the (format, compression) pairs of the
/// specification are meaningful: pbf+gzip, jpg/png/webp uncompressed.
pub fn encode(set: &TileSet, layout: &Layout, path: &Path) -> Result<(), String> {
	let _ = std::fs::remove_file(path);
	let mut conn = Connection::open(path).map_err(|e| format!("create: {e}"))?;
	let fmt = match (set.format, set.comp) {
		(Fmt::Pbf, Comp::Gzip) => "pbf",
		(Fmt::Jpg, Comp::None) => "jpg",
		(Fmt::Png, Comp::None) => "png",
		(Fmt::Webp, Comp::None) => "webp",
		other => return Err(format!("pair {other:?} not expressible in MBTiles")),
	};
	conn.execute_batch("CREATE TABLE metadata (name TEXT, value TEXT);").map_err(|e| e.to_string())?;
	if layout.as_view {
		conn
			.execute_batch(
				"CREATE TABLE map (zoom_level INTEGER, tile_column INTEGER, tile_row INTEGER, tile_id TEXT);
				 CREATE TABLE images (tile_data BLOB, tile_id TEXT);
				 CREATE VIEW tiles AS SELECT map.zoom_level AS zoom_level, map.tile_column AS tile_column, map.tile_row AS tile_row, images.tile_data AS tile_data FROM map JOIN images ON images.tile_id = map.tile_id;",
			)
			.map_err(|e| e.to_string())?;
		if layout.with_index {
			conn
				.execute_batch("CREATE UNIQUE INDEX map_index ON map (zoom_level, tile_column, tile_row); CREATE UNIQUE INDEX images_id ON images (tile_id);")
				.map_err(|e| e.to_string())?;
		}
	} else {
		conn
			.execute_batch("CREATE TABLE tiles (zoom_level INTEGER, tile_column INTEGER, tile_row INTEGER, tile_data BLOB);")
			.map_err(|e| e.to_string())?;
		if layout.with_index {
			conn.execute_batch("CREATE UNIQUE INDEX tile_index ON tiles (zoom_level, tile_column, tile_row);").map_err(|e| e.to_string())?;
		}
	}
	let tx = conn.transaction().map_err(|e| e.to_string())?;
	tx.execute("INSERT INTO metadata (name, value) VALUES ('format', ?1)", params![fmt]).map_err(|e| e.to_string())?;
	tx.execute("INSERT INTO metadata (name, value) VALUES ('name', 'harness')", []).map_err(|e| e.to_string())?;
	if layout.extra_meta {
		for (k, v) in [("generator", "vt harness"), ("scheme", "tms"), ("foo", "bar"), ("agg_tiles_hash", "1234567890")] {
			tx.execute("INSERT INTO metadata (name, value) VALUES (?1, ?2)", params![k, v]).map_err(|e| e.to_string())?;
		}
	}
	// the optional `json` row (MBTiles 1.3: required with vector_layers for pbf, other formats MAY
	// carry one for applications that use JSON metadata): empty object, statistics only, or
	// layers plus statistics
	match (layout.seed >> 14) % 6 {
		0 => {
			tx.execute("INSERT INTO metadata (name, value) VALUES ('json', '{}')", []).map_err(|e| e.to_string())?;
		}
		1 => {
			tx.execute("INSERT INTO metadata (name, value) VALUES ('json', '{\"tilestats\":{\"layerCount\":0,\"layers\":[]}}')", []).map_err(|e| e.to_string())?;
		}
		2 => {
			tx.execute("INSERT INTO metadata (name, value) VALUES ('json', '{\"tilestats\":{\"layerCount\":1},\"vector_layers\":[{\"id\":\"a\",\"fields\":{\"k\":\"String\"}}]}')", []).map_err(|e| e.to_string())?;
		}
		_ => {}
	}
	// the informative rows minzoom / maxzoom / bounds / center as other writers add them: exact,
	// absent, or stale (levels were appended or removed later without touching the metadata)
	let levels: Vec<u8> = set.tiles.iter().filter(|(_, b)| !b.is_empty()).map(|(c, _)| c.z).collect::<std::collections::BTreeSet<u8>>().into_iter().collect();
	if let (Some(lo), Some(hi)) = (levels.first().copied(), levels.last().copied()) {
		let (lo, hi) = (lo as i64, hi as i64);
		let zooms: Option<(Option<i64>, Option<i64>)> = match (layout.seed >> 9) % 8 {
			0 | 1 => None,
			2 => Some((Some(lo), Some(hi))),
			3 => Some((Some(lo + 1), Some(hi))),
			4 => Some((Some(lo), Some(hi - 1))),
			5 => Some((Some(hi), None)),
			6 => Some((None, Some(lo))),
			_ => Some((Some(0), Some(14))),
		};
		if let Some((a, b)) = zooms {
			let (a, b) = (a.map(|v| v.clamp(0, 30)), b.map(|v| v.clamp(0, 30)));
			if let Some(a) = a {
				tx.execute("INSERT INTO metadata (name, value) VALUES ('minzoom', ?1)", params![a.to_string()]).map_err(|e| e.to_string())?;
			}
			if let Some(b) = b {
				tx.execute("INSERT INTO metadata (name, value) VALUES ('maxzoom', ?1)", params![b.to_string()]).map_err(|e| e.to_string())?;
			}
			if (layout.seed >> 12) % 2 == 0 {
				tx.execute("INSERT INTO metadata (name, value) VALUES ('bounds', '-1.5,-1.5,1.5,1.5')", []).map_err(|e| e.to_string())?;
				tx.execute("INSERT INTO metadata (name, value) VALUES ('center', '0,0,3')", []).map_err(|e| e.to_string())?;
			}
		}
	}
	let mut tiles: Vec<(&Coord, &Vec<u8>)> = set.tiles.iter().filter(|(_, b)| !b.is_empty()).collect();
	match layout.order {
		1 => tiles.reverse(),
		2 => {
			let mut mix = Mix::new(layout.seed as u64);
			for i in (1..tiles.len()).rev() {
				tiles.swap(i, mix.below(i as u64 + 1) as usize);
			}
		}
		_ => {}
	}
	let mut ids: std::collections::HashMap<&Vec<u8>, String> = Default::default();
	for (c, b) in tiles {
		let row = (Coord::size(c.z) - 1 - c.y as u64) as i64;
		if layout.as_view {
			let next = format!("t{}", ids.len());
			let id = ids.entry(b).or_insert_with(|| next.clone()).clone();
			if id == next {
				tx.execute("INSERT INTO images (tile_data, tile_id) VALUES (?1, ?2)", params![b, id]).map_err(|e| e.to_string())?;
			}
			tx.execute("INSERT INTO map (zoom_level, tile_column, tile_row, tile_id) VALUES (?1, ?2, ?3, ?4)", params![c.z, c.x, row, id])
				.map_err(|e| e.to_string())?;
		} else {
			tx.execute("INSERT INTO tiles (zoom_level, tile_column, tile_row, tile_data) VALUES (?1, ?2, ?3, ?4)", params![c.z, c.x, row, b])
				.map_err(|e| e.to_string())?;
		}
	}
	tx.commit().map_err(|e| e.to_string())?;
	drop(conn);
	Ok(())
}

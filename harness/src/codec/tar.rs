//! tar (ustar / GNU) with tile members `[./]z/x/y.<fmt>[.gz|.br]`, from the format description.

use super::{parse_meta_name, parse_tile_name, tile_name, Decoded};
use crate::model::{Mix, TileSet};
use crate::util;
use serde::{Deserialize, Serialize};

#[derive(Clone, Debug)]
pub struct Member {
	pub name: String,
	pub typeflag: u8,
	pub data: Vec<u8>,
}

fn octal(field: &[u8]) -> Result<u64, String> {
	// GNU base-256 extension
	if !field.is_empty() && field[0] & 0x80 != 0 {
		let mut v = 0u64;
		for b in &field[1..] {
			v = (v << 8) | *b as u64;
		}
		return Ok(v);
	}
	let s: String = field.iter().take_while(|b| **b != 0).map(|b| *b as char).collect();
	let s = s.trim();
	if s.is_empty() {
		return Ok(0);
	}
	u64::from_str_radix(s, 8).map_err(|_| format!("bad octal field {s:?}"))
}

fn cstr(field: &[u8]) -> String {
	let end = field.iter().position(|b| *b == 0).unwrap_or(field.len());
	String::from_utf8_lossy(&field[..end]).to_string()
}

pub fn members(data: &[u8]) -> Result<Vec<Member>, String> {
	let mut out = vec![];
	let mut pos = 0usize;
	let mut long_name: Option<String> = None;
	while pos + 512 <= data.len() {
		let h = &data[pos..pos + 512];
		if h.iter().all(|b| *b == 0) {
			break;
		}
		// checksum
		let stored = octal(&h[148..156])?;
		let mut sum = 0u64;
		for (i, b) in h.iter().enumerate() {
			sum += if (148..156).contains(&i) { 32 } else { *b as u64 };
		}
		if sum != stored {
			return Err(format!("header checksum mismatch at {pos}"));
		}
		let size = octal(&h[124..136])? as usize;
		let typeflag = h[156];
		let mut name = cstr(&h[0..100]);
		if &h[257..262] == b"ustar" {
			let prefix = cstr(&h[345..500]);
			if !prefix.is_empty() {
				name = format!("{prefix}/{name}");
			}
		}
		pos += 512;
		if pos + size > data.len() {
			return Err(format!("member {name} extends beyond the archive"));
		}
		let body = data[pos..pos + size].to_vec();
		pos += size.div_ceil(512) * 512;
		if typeflag == b'L' {
			long_name = Some(cstr(&body));
			continue;
		}
		if let Some(l) = long_name.take() {
			name = l;
		}
		out.push(Member { name, typeflag, data: body });
	}
	Ok(out)
}

pub fn decode(data: &[u8]) -> Result<Decoded, String> {
	let mut out = Decoded::default();
	for m in members(data)? {
		if m.typeflag != b'0' && m.typeflag != 0 {
			continue;
		}
		if let Some((c, f, comp)) = parse_tile_name(&m.name) {
			match out.format {
				None => out.format = Some(f),
				Some(x) if x != f => return Err(format!("mixed tile formats ({x:?}, {f:?})")),
				_ => {}
			}
			match out.comp {
				None => out.comp = Some(comp),
				Some(x) if x != comp => return Err(format!("mixed compressions ({x:?}, {comp:?})")),
				_ => {}
			}
			if out.tiles.insert(c, m.data).is_some() {
				return Err(format!("tile {c} stored twice"));
			}
		} else if let Some(comp) = parse_meta_name(&m.name) {
			out.meta = Some(util::decompress(&m.data, comp).map_err(|e| format!("metadata: {e}"))?);
		} else {
			out.notes.push(format!("other member {}", m.name));
		}
	}
	Ok(out)
}

#[derive(Clone, Debug, Serialize, Deserialize, PartialEq, Eq)]
pub struct Layout {
	/// prefix member names with "./"
	pub dot_slash: bool,
	/// emit directory members for z/ and z/x/
	pub dir_members: bool,
	/// 0 sorted, 1 reversed, 2 shuffled
	pub order: u8,
	/// position of the metadata member: 0 first, 1 last, 2 middle, 3 none
	pub meta_pos: u8,
	/// name of the metadata member: 0 tiles.json, 1 meta.json, 2 metadata.json
	pub meta_name: u8,
	/// plain ustar instead of GNU magic
	pub ustar: bool,
	/// unrelated extra member (README)
	pub extra_member: bool,
	pub seed: u32,
}

impl Default for Layout {
	fn default() -> Self {
		Layout { dot_slash: true, dir_members: false, order: 0, meta_pos: 0, meta_name: 0, ustar: false, extra_member: false, seed: 0 }
	}
}

fn header(name: &str, size: usize, typeflag: u8, ustar: bool) -> Vec<u8> {
	let mut h = vec![0u8; 512];
	let nb = name.as_bytes();
	assert!(nb.len() <= 100, "name too long for the harness encoder");
	h[..nb.len()].copy_from_slice(nb);
	h[100..108].copy_from_slice(if typeflag == b'5' { b"0000755\0" } else { b"0000644\0" });
	h[108..116].copy_from_slice(b"0000000\0");
	h[116..124].copy_from_slice(b"0000000\0");
	h[124..136].copy_from_slice(format!("{:011o}\0", size).as_bytes());
	h[136..148].copy_from_slice(b"00000000000\0");
	h[156] = typeflag;
	if ustar {
		h[257..263].copy_from_slice(b"ustar\0");
		h[263..265].copy_from_slice(b"00");
	} else {
		h[257..265].copy_from_slice(b"ustar  \0");
	}
	for b in &mut h[148..156] {
		*b = b' ';
	}
	let sum: u64 = h.iter().map(|b| *b as u64).sum();
	h[148..156].copy_from_slice(format!("{:06o}\0 ", sum).as_bytes());
	h
}

fn push_member(out: &mut Vec<u8>, name: &str, data: &[u8], typeflag: u8, ustar: bool) {
	out.extend_from_slice(&header(name, data.len(), typeflag, ustar));
	out.extend_from_slice(data);
	let pad = (512 - data.len() % 512) % 512;
	out.extend(std::iter::repeat(0u8).take(pad));
}

pub fn encode(set: &TileSet, layout: &Layout) -> Vec<u8> {
	let mut out = vec![];
	let prefix = if layout.dot_slash { "./" } else { "" };
	let mut tiles: Vec<(String, &Vec<u8>)> =
		set.tiles.iter().filter(|(_, b)| !b.is_empty()).map(|(c, b)| (format!("{prefix}{}", tile_name(c, set.format, set.comp)), b)).collect();
	match layout.order {
		1 => tiles.reverse(),
		2 => {
			let mut mix = Mix::new(layout.seed as u64 ^ 0x7a7);
			for i in (1..tiles.len()).rev() {
				tiles.swap(i, mix.below(i as u64 + 1) as usize);
			}
		}
		_ => {}
	}
	let meta = set.meta.as_ref().map(|m| {
		let base = ["tiles.json", "meta.json", "metadata.json"][layout.meta_name as usize % 3];
		(format!("{prefix}{base}{}", set.comp.ext()), util::compress(m.as_bytes(), set.comp))
	});
	let meta_at = match layout.meta_pos {
		0 => Some(0),
		1 => Some(tiles.len()),
		2 => Some(tiles.len() / 2),
		_ => None,
	};
	let mut dirs_done = std::collections::BTreeSet::new();
	for (i, (name, data)) in tiles.iter().enumerate() {
		if meta_at == Some(i) {
			if let Some((n, d)) = &meta {
				push_member(&mut out, n, d, b'0', layout.ustar);
			}
		}
		if layout.dir_members {
			let parts: Vec<&str> = name.rsplitn(2, '/').collect();
			let dir = parts[1];
			let zdir = dir.rsplitn(2, '/').last().unwrap().to_string();
			for d in [zdir, dir.to_string()] {
				if dirs_done.insert(d.clone()) {
					push_member(&mut out, &format!("{d}/"), &[], b'5', layout.ustar);
				}
			}
		}
		if layout.extra_member && i == tiles.len() / 3 {
			push_member(&mut out, &format!("{prefix}README.md"), b"not a tile", b'0', layout.ustar);
		}
		push_member(&mut out, name, data, b'0', layout.ustar);
	}
	if meta_at == Some(tiles.len()) {
		if let Some((n, d)) = &meta {
			push_member(&mut out, n, d, b'0', layout.ustar);
		}
	}
	out.extend(std::iter::repeat(0u8).take(1024));
	out
}

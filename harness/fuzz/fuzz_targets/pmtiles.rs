#![no_main]
use libfuzzer_sys::fuzz_target;
include!("common.rs");

fuzz_target!(|data: &[u8]| {
	block_on(async {
		let reader = Box::new(versatiles_core::io::DataReaderBlob::from(data.to_vec()));
		if let Ok(r) = versatiles_container::PMTilesReader::open_reader(reader).await {
			exercise(&r).await;
		}
	});
});

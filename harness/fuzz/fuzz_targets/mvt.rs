#![no_main]
use libfuzzer_sys::fuzz_target;

fuzz_target!(|data: &[u8]| {
	let blob = versatiles_core::types::Blob::from(data);
	if let Ok(tile) = versatiles_geometry::vector_tile::VectorTile::from_blob(&blob) {
		for l in &tile.layers {
			let _ = l.to_features();
		}
		let _ = tile.to_blob();
	}
});

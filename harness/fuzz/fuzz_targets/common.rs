// shared helpers of the fuzz targets (included with `include!`)

/// maximum bracket nesting of the input; inputs nested deeper than 256 are outside the
/// statement ("moderate nesting") and are skipped
#[allow(dead_code)]
fn nesting(data: &[u8]) -> usize {
	let mut depth = 0usize;
	let mut max = 0usize;
	for b in data {
		match b {
			b'[' | b'{' => {
				depth += 1;
				max = max.max(depth);
			}
			b']' | b'}' => depth = depth.saturating_sub(1),
			_ => {}
		}
	}
	max
}

#[allow(dead_code)]
fn block_on<F: std::future::Future>(f: F) -> F::Output {
	thread_local! {
		static RT: tokio::runtime::Runtime = tokio::runtime::Builder::new_current_thread().build().unwrap();
	}
	RT.with(|rt| rt.block_on(f))
}

#[allow(dead_code)]
async fn exercise(r: &dyn versatiles_core::types::TilesReaderTrait) {
	use versatiles_core::types::TileCoord3;
	let mut coords = vec![TileCoord3 { x: 0, y: 0, z: 0 }, TileCoord3 { x: 1, y: 0, z: 1 }, TileCoord3 { x: 3, y: 3, z: 2 }, TileCoord3 { x: 0, y: 0, z: 31 }];
	for b in r.get_parameters().bbox_pyramid.iter_levels().take(3) {
		coords.push(TileCoord3 { x: b.x_min, y: b.y_min, z: b.level });
		coords.push(TileCoord3 { x: b.x_max, y: b.y_max, z: b.level });
	}
	let _ = r.get_tilejson().as_string();
	for c in coords {
		let _ = r.get_tile_data(&c).await;
	}
}

#![no_main]
use libfuzzer_sys::fuzz_target;

fuzz_target!(|data: &[u8]| {
	let sep = if data.first() == Some(&b';') { b';' } else { b',' };
	if let Ok(it) = versatiles_core::utils::read_csv_iter(std::io::BufReader::new(std::io::Cursor::new(data.to_vec())), sep) {
		for r in it.take(100_000) {
			if r.is_err() {
				break;
			}
		}
	}
});

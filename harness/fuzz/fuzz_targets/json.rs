#![no_main]
use libfuzzer_sys::fuzz_target;
include!("common.rs");

fuzz_target!(|data: &[u8]| {
	if nesting(data) > 256 {
		return;
	}
	if let Ok(text) = std::str::from_utf8(data) {
		if let Ok(v) = versatiles_core::json::parse_json_str(text) {
			// accepted values must at least be serialisable (the round trip itself is C17's subject,
			// which is restricted to finite numbers; the parser can produce infinities)
			let _ = v.stringify();
		}
	}
	let _ = versatiles_core::json::JsonValue::parse_blob(&versatiles_core::types::Blob::from(data));
});

#![no_main]
use libfuzzer_sys::fuzz_target;
include!("common.rs");

fuzz_target!(|data: &[u8]| {
	if nesting(data) > 256 {
		return;
	}
	if let Ok(text) = std::str::from_utf8(data) {
		let _ = versatiles_pipeline::parse_vpl(text);
		let factory = versatiles_pipeline::PipelineFactory::new_dummy();
		let _ = block_on(factory.operation_from_vpl(text));
	}
});

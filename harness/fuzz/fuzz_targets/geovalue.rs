#![no_main]
use libfuzzer_sys::fuzz_target;

fuzz_target!(|data: &[u8]| {
	if let Ok(text) = std::str::from_utf8(data) {
		let v = versatiles_geometry::GeoValue::parse_str(text);
		let _ = format!("{v}");
	}
});

#![no_main]
use libfuzzer_sys::fuzz_target;
include!("common.rs");

fuzz_target!(|data: &[u8]| {
	if nesting(data) > 256 {
		return;
	}
	if let Ok(text) = std::str::from_utf8(data) {
		if let Ok(t) = versatiles_core::tilejson::TileJSON::try_from(text) {
			let _ = t.as_string();
		}
	}
	let _ = versatiles_core::tilejson::TileJSON::try_from_blob_or_default(&versatiles_core::types::Blob::from(data));
});
